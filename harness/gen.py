"""Seeded structured generators shared by the property harnesses."""
import math
import struct

INT_EDGES = [0, 1, -1, 2, -2, 127, 128, 255, 256, -32, -33, -128, -129, 32767, 32768, 65535, 65536,
             -32768, -32769, 2**31 - 1, 2**31, 2**32 - 1, 2**32, -(2**31), -(2**31) - 1, 2**53, 2**53 + 1,
             2**63 - 1, 2**63, 2**64 - 1, -(2**63), 2**61 - 1]
FLOAT_EDGES = [0.0, -0.0, 1.0, -1.5, 0.1, 1e300, -1e-300, 5e-324, float("inf"), float("-inf"), float("nan"),
               2.0**53, 3.141592653589793, 1.7976931348623157e308]
TEXTS = ["", "a", "ab", "hello world", "é", "日本語", "\U0001f600", "a|b", "x" * 31, "y" * 32, "z" * 33,
         "line\nbreak", "tab\t", "__datetime__", "NULL", "0", " "]


def gen_int(rng, big=False):
    r = rng.random()
    if r < 0.35:
        return rng.choice(INT_EDGES)
    if r < 0.7:
        return rng.randint(-100, 100)
    if big and r < 0.8:
        return rng.choice([-1, 1]) * rng.getrandbits(rng.choice([70, 100, 200]))
    bits = rng.choice([8, 16, 32, 63])
    return rng.randint(-(2**bits), 2**bits)


def gen_float(rng):
    r = rng.random()
    if r < 0.3:
        return rng.choice(FLOAT_EDGES)
    if r < 0.6:
        return rng.randint(-1000, 1000) / rng.choice([1, 2, 4, 8, 10, 100])
    if r < 0.8:
        return struct.unpack(">d", struct.pack(">Q", rng.getrandbits(64)))[0]
    return rng.uniform(-1e6, 1e6)


ALPHABET = "abcXYZ019 _-|éß日\U0001f600\n'\"{}[],:"


def gen_text(rng, maxlen=12):
    r = rng.random()
    if r < 0.3:
        return rng.choice(TEXTS)
    n = rng.randint(0, maxlen) if r < 0.9 else rng.choice([31, 32, 33, 255, 256, 300])
    return "".join(rng.choice(ALPHABET) for _ in range(n))


def gen_bytes(rng, maxlen=12):
    r = rng.random()
    if r < 0.15:
        return b""
    n = rng.randint(0, maxlen) if r < 0.9 else rng.choice([31, 32, 255, 256, 300])
    return bytes(rng.getrandbits(8) for _ in range(n))


def gen_scalar(rng):
    k = rng.randrange(7)
    if k == 0:
        return None
    if k == 1:
        return rng.random() < 0.5
    if k == 2:
        v = gen_int(rng)
        return max(-(2**63), min(2**64 - 1, v))
    if k == 3:
        return gen_float(rng)
    if k == 4:
        return gen_text(rng)
    if k == 5:
        return gen_bytes(rng)
    return gen_text(rng, 4)


def gen_pyval(rng, depth=2):
    """A value in the msgpack-native / wire universe (map keys are text)."""
    if depth <= 0 or rng.random() < 0.6:
        return gen_scalar(rng)
    if rng.random() < 0.55:
        n = rng.choice([0, 1, 2, 3, 3, 5, 15, 16, 17]) if rng.random() < 0.2 else rng.randint(0, 4)
        return [gen_pyval(rng, depth - 1) for _ in range(n)]
    n = rng.randint(0, 4)
    d = {}
    for _ in range(n):
        d[gen_text(rng, 5)] = gen_pyval(rng, depth - 1)
    return d


def is_nan(x):
    return isinstance(x, float) and math.isnan(x)
