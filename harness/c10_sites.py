"""C10, call-site layer: the Python call sites of the compiled helpers, driven through the public API.

Every call site found in the sources (`extractors/c10_sites.scan_call_sites`) is matched against the
table `DRIVEN`; a call site that is not in the table is reported in the evidence
(`undriven_call_sites`), so a new caller is noticed.  The driven ones:

* `collect_cython`        <- `DataFrame.collect` / `DataFrame.__getitem__`   (fn `pcollect`, seq op `collect`)
* `extract_dict_columns`  <- `Row.__new__` (`Row(dict)`, `DataFrame.append(dict)`)  (seq ops `row`, `append`; `dicts`)
* `calculate_data_width`  <- `ascii_table` (`DataFrame.display`, `str(frame)`)     (seq op `display`; `markdown` alongside)
* `from_bytes_cython`     <- `Row.from_bytes`                                       (seq op `bytes`)

All of it runs in the sacrificial worker.  The judge is the plain-Python definition in the property
statement, evaluated on a reference state the harness keeps itself (column names + rows of every
frame, fields of every class); results of features that belong to other properties (slice/head/
tail, from_arrow) are taken from the implementation's own output, never judged here.
"""
import json
import re

from . import wire
from .c10_worker import apply_edits, has_dict, mk_key, plain_dict, step_dict
from .core import InfraError

DRIVEN = {
    ("orso/dataframe.py", "DataFrame.collect", "collect_cython"),
    ("orso/row.py", "Row.__new__", "extract_dict_columns"),
    ("orso/display.py", "ascii_table._inner", "calculate_data_width"),
    ("orso/row.py", "Row.from_bytes", "from_bytes_cython"),
}

INT32 = 2**31
ANSI = re.compile(r"\x1b\[[0-9;]*m")


def undriven(sites):
    return [s for s in sites if (s["file"], s["function"], s["kernel"]) not in DRIVEN]


# ----------------------------------------------------------------------------- the plain-Python definitions


def _lim(limit):
    if limit == "none":
        return None
    if isinstance(limit, dict) and "__int__" in limit:
        return int(limit["__int__"])
    return limit


def spec_collect(names, rows, c):
    """('ok', value) / ('raises',) / ('either',) for a public collect request on a frame."""
    cols, kind = c["cols"], c.get("ckind", "list")
    limit = _lim(c["limit"]) if ("limit" in c and c.get("via") != "getitem") else None
    resolved = []
    for x in cols:
        if isinstance(x, int):
            resolved.append(x)
        elif not isinstance(x, str):
            return ("raises",)   # a float, None, a nested list: a malformed column reference (never "the position it rounds to")
        elif x in names:
            resolved.append(list(names).index(x))
        else:
            return ("raises",)
    if any(not (-INT32 <= x < INT32) for x in resolved):
        return ("raises",) if rows else ("either",)
    n = len(rows)
    if n == 0 or not resolved:
        out = [[] for _ in resolved]
    else:
        width = len(rows[0])
        if any(x < 0 or x >= width for x in resolved):
            return ("raises",)
        lim = n if (limit is None or limit < 0 or limit >= n) else limit
        out = [[rows[j][x] for j in range(lim)] for x in resolved]
    if c.get("np") and any(isinstance(x, int) for x in cols):
        # a numpy integer is not an `int`: today it is looked up as a column *name* (ValueError); were it accepted as a
        # position, it would have to give that position's column -- either way never some other column's data
        return ("ok-or-raises", out[0] if kind == "single" else out)
    return ("ok", out[0] if kind == "single" else out)


def printed_rows(rows, limit, tt, lazy, via):
    if via == "markdown":
        return rows[:limit] if limit > 0 else rows
    if via == "str":
        limit, tt = 10, True
    if via == "display":
        tt = True
    n = len(rows)
    if limit > 0 and not tt:
        return rows[:limit]
    if limit > 0 and tt:
        if lazy:
            rest = rows[limit:]
            return rows[:limit] + rest[-limit:]
        return rows[:limit] + rows[-limit:] if n >= 2 * limit + 1 else rows
    return rows


def spec_data_width(values):
    return max([4] + [len(str(v)) for v in values if v is not None])


def observed_widths(text, via):
    """Column widths read off the rendered table, or None when the text does not show them."""
    text = ANSI.sub("", text)
    lines = text.split("\n")
    if via == "markdown":
        if len(lines) < 2 or not lines[1].startswith("|-"):
            return None
        segs = lines[1].split("|")
        return [len(s) - 2 for s in segs[2:-1]]
    top = lines[0]
    if not (top.startswith("┌") and top.endswith("┐")):
        return None
    return [len(s) - 2 for s in top[1:-1].split("┬")[1:]]


# ----------------------------------------------------------------------------- dictionaries with keys that are not text


def kind_flags(kind):
    """(type(data) is dict, isinstance(data, dict), isinstance(data, MutableMapping)) of a record handed over as `kind`."""
    return [kind == "dict", kind in ("dict", "ordered", "default", "counter"), kind in ("dict", "ordered", "default", "counter", "userdict", "chainmap")]


def key_id(k):
    """What a dictionary compares a key with when a field name (an exact str) is looked up: the plain string the key is
    equal to (same hash, `==`), or None when it is equal to no string."""
    if isinstance(k, str):
        s = str.__str__(k)
        try:
            if {k: True}.get(s) is True:
                return s
        except Exception:
            pass
    return None


def model_items(data):
    """A dictionary as the model takes it: [[ident, exact, isstr, text, value], …] -- `ident`: the plain string the key
    equals (what a lookup of a field name finds) or the number of the key among those equal to no string; `exact`:
    `type(key) is str`; `isstr`: `isinstance(key, str)`; `text`: `str(key)`."""
    out = []
    for n, (k, v) in enumerate(data.items()):
        s = key_id(k)
        out.append([s if s is not None else n, type(k) is str, isinstance(k, str), str(k), v])
    return out


def key_classes(data, fields, hit):
    """Measured distribution of the keys of a dictionary handed to a row class with the given fields."""
    if all(type(k) is str for k in data):
        hit("site:keys:all-text")
        return
    hit("site:keys:some-not-text")
    texts = {}
    for k in data:
        texts.setdefault(str(k), []).append(k)
        if type(k) is not str:
            hit("site:keys:type:" + type(k).__name__)
    twins = [t for t, ks in texts.items() if t in fields and any(type(k) is not str for k in ks)]
    if twins:
        hit("site:keys:non-text-key-spelt-like-a-field")
    if any(t in fields and len(ks) > 1 for t, ks in texts.items()):
        order = [type(k) is str for t, ks in texts.items() if t in fields and len(ks) > 1 for k in ks]
        hit("site:keys:text-and-non-text-key-of-one-spelling:" + ("text-first" if order[0] else "text-last"))


# ----------------------------------------------------------------------------- judging one sequence


class Ref:
    """The reference state of a session."""

    def __init__(self):
        self.frames = {}  # id -> {"names", "rows" (list of lists), "lazy", "dead"}
        self.classes = {}  # id -> {"fields", "tuples_only"}


def judge_seq(case, obs, model_lines=None, hit=None):
    """First violated clause of a sequence as (step index, clause, want) or None.

    `model_lines`, when given, receives (step index, model request line, observed value) for every judged step."""
    ref = Ref()
    objs = {}
    kept, edited = {}, set()   # results the caller still holds: id -> (frame, request); those it has edited in place

    def step_data(st):
        """The dictionary a step hands over: a new one, or the object an earlier step used, edited (use -> mutate -> use)."""
        if "dict_id" not in st:
            return step_dict(st)
        if st["dict_id"] in objs:
            hit("site:dict-object-handed-over-again-after-edits")
            return apply_edits(objs[st["dict_id"]], st)
        objs[st["dict_id"]] = step_dict(st)
        return objs[st["dict_id"]]

    if isinstance(obs, dict) and "died" in obs:
        return (len(case["steps"]) - 1, "terminated the interpreter (exit status %s)" % obs["died"], None)
    if len(obs) != len(case["steps"]):
        raise InfraError("the worker returned %d observations for %d steps" % (len(obs), len(case["steps"])))
    hit = hit or (lambda k: None)
    for i, (st, ob) in enumerate(zip(case["steps"], obs)):
        op = st["op"]
        if ob.get("skip"):
            hit("site:skipped:" + op)
            continue
        hit("site:outcome:%s:%s" % (op, "raises" if "raises" in ob else "ok"))
        fr = ref.frames.get(st.get("frame")) if "frame" in st else None
        cl = ref.classes.get(st.get("cls")) if "cls" in st else None
        if ("frame" in st and fr is None) or ("cls" in st and cl is None):
            continue  # refers to something an earlier step failed to create
        if op == "frame":
            if "ok" in ob:
                ref.frames[st["id"]] = {"names": list(st["names"]), "rows": [list(r) for r in st["rows"]], "lazy": bool(st.get("lazy")), "dead": False,
                                        "rs": st.get("rs")}
        elif op == "arrow":
            if "ok" in ob:
                rows = [list(r) for r in zip(*st["cols"])] if st["cols"] else []
                ref.frames[st["id"]] = {"names": list(st["names"]), "rows": rows, "lazy": True, "dead": False, "arrow": True}
        elif op == "dicts":
            ds = [plain_dict(d) for d in st["dicts"]]
            first = ds[0]
            names = [str(k) for k in first]
            want = [[d.get(k) for k in first] for d in ds]
            hit("site:judged:dicts" + (":non-text-keys" if any(type(k) is not str for d in ds for k in d) else ""))
            if "raises" in ob:
                return (i, "DataFrame(dictionaries) raised %s" % ob["raises"], want)
            if ob["ok"] != want or ob.get("names") != names:
                return (i, "extracted fields differ from the dictionary's values / null (DataFrame(dictionaries))", want)
            ref.frames[st["id"]] = {"names": names, "rows": want, "lazy": False, "dead": False}
        elif op == "class":
            if "ok" in ob:
                ref.classes[st["id"]] = {"fields": [str(f) for f in st["fields"]], "tuples_only": bool(st.get("tuples_only"))}
        elif op == "row":
            if has_dict(st):
                if cl["tuples_only"]:
                    continue  # a tuples-only class is not meant to take dictionaries
                data = step_data(st)
                want = [data.get(f) for f in cl["fields"]]
                key_classes(data, cl["fields"], hit)
                if model_lines is not None:
                    model_lines.append((i, "C10 rownew " + wire.line(cl["fields"], False, kind_flags(st.get("dict_kind", "dict")), model_items(data)), ob))
            else:
                want = list(st["tuple"])
            hit("site:judged:row:" + (st.get("dict_kind", "dict") if has_dict(st) else "tuple"))
            if "raises" in ob or ob["ok"] != want:
                return (i, "extracted fields differ from the dictionary's values / null (Row(dict) through a class made by Row.create_class)"
                        if has_dict(st) else "a row built from a tuple is not that tuple", want)
        elif op == "append":
            if fr["lazy"] or fr["dead"]:
                continue
            if has_dict(st):
                data = step_data(st)
                want = [data.get(f) for f in fr["names"]]
                key_classes(data, fr["names"], hit)
                if model_lines is not None:
                    model_lines.append((i, "C10 rowappend " + wire.line(fr["names"], kind_flags(st.get("dict_kind", "dict")), model_items(data)), ob))
            else:
                want = list(st["tuple"])
            hit("site:judged:append")
            if "raises" in ob or ob["ok"] != want or ob.get("count") != len(fr["rows"]) + 1:
                return (i, "extracted fields differ from the dictionary's values / null (DataFrame.append)", want)
            fr["rows"].append(want)
        elif op == "collect":
            if fr["dead"]:
                continue
            want = spec_collect(fr["names"], fr["rows"], st)
            fr["lazy"] = False
            if model_lines is not None and all(len(r) == len(fr["names"]) for r in fr["rows"]):
                lim = _lim(st["limit"]) if ("limit" in st and st.get("via") != "getitem") else None
                model_lines.append((i, "C10 pcollect " + wire.line(fr["names"], [[True, r] for r in fr["rows"]], st["cols"], st.get("ckind", "list") == "single", lim), ob))
            hit("site:judged:collect:" + want[0])
            if "keep" in st and "ok" in ob:
                kept[st["keep"]] = (st.get("frame"), json.dumps([st["cols"], st.get("ckind", "list"), st.get("limit", "absent"), st.get("via")], sort_keys=True, default=repr))
            if ob.get("shares"):
                # observation only: the property speaks about the values of each result, not about the identity of the arrays
                hit("site:observed:result-shares-storage-with-an-earlier-result")
            again = [k for k, (f_, req, edited_) in ((k, v + (k in edited,)) for k, v in kept.items()) if f_ == st.get("frame") and edited_ and k != st.get("keep")]
            if again:
                hit("site:judged:collect:after-the-caller-edited-an-earlier-result-of-this-frame")
            cl_ = judge_collect(want, ob)
            if cl_ and again and "ok" in ob and want[0] in ("ok", "ok-or-raises") and ob.get("shares"):
                cl_ += "; the result is the array an earlier call handed out, which the caller has edited since"
            if cl_:
                return (i, cl_, want)
        elif op == "derive":
            if fr["dead"]:
                continue
            if st["how"] == "select":
                if "ok" in ob:
                    keep = [a for a in st["names"] if a in fr["names"]]
                    idx = [fr["names"].index(a) for a in keep]
                    ref.frames[st["id"]] = {"names": keep, "rows": [[r[k] for k in idx] for r in fr["rows"]], "lazy": True, "dead": False,
                                            "parent_lazy": fr["lazy"]}
                    if fr["lazy"]:
                        fr["dead"] = True  # the projection shares (and will exhaust) the parent's generator
            else:
                fr["lazy"] = False
                if "ok" in ob and ob["ok"] is not None:
                    ref.frames[st["id"]] = {"names": list(ob.get("names", fr["names"])), "rows": ob["ok"], "lazy": False, "dead": False,
                                            "rs": fr.get("rs")}
        elif op == "display":
            if fr["dead"] or not fr["names"]:
                continue
            via = st.get("via", "ascii")
            lazy = fr["lazy"]
            if lazy and via in ("ascii", "display", "str"):
                fr["dead"] = True  # ascii_table consumes a generator
            if via == "markdown":
                fr["lazy"] = False
            if "raises" in ob:
                return (i, "rendering raised %s" % ob["raises"], None)
            limit = st["limit"]
            mcw = {"str": 30}.get(via, st.get("mcw", 500))
            t = printed_rows(fr["rows"], limit, bool(st.get("tt", True)), lazy, via)
            dws = [spec_data_width([r[k] for r in t]) for k in range(len(fr["names"]))]
            # the type row (when shown): the type's name for a typed column, one character for a plain list of names
            show_types = bool(st.get("types")) and via in ("ascii", "display")   # str(frame) and markdown show no type row
            if show_types and fr.get("arrow"):
                # a frame converted from arrow carries a typed schema the harness did not choose: the width of its type row
                # is not known here (the data widths are still compared with the model below when no type row is shown)
                hit("site:display:arrow-frame-with-type-row-not-judged")
                continue
            tws = [(len(t_) if fr.get("rs") else 1) if show_types else 0 for t_ in (fr.get("rs") or fr["names"])]
            want = [min(mcw, max(len(nm), tw, dw)) for nm, tw, dw in zip(fr["names"], tws, dws)]
            hit("site:display:schema:%s:%s" % ("typed" if fr.get("rs") else "names", "types-shown" if show_types else "types-hidden"))
            got = observed_widths(ob["ok"], via)
            if got is None:
                hit("site:display-widths-not-observable:" + via)
                continue
            if len(set(fr["names"])) < len(fr["names"]):
                firsts = [fr["names"].index(nm) for nm in fr["names"]]
                later_longer = any(f != k and dws[k] > dws[f] for k, f in enumerate(firsts))
                hit("site:display:names:duplicate" + (":later-one-longer" if later_longer else ""))
            else:
                hit("site:display:names:" + ("digit-strings" if all(nm.isdigit() for nm in fr["names"]) else "unique"))
            hit("site:judged:display:%s:%s:%s" % (via, "lazy" if lazy else "eager", "head+tail" if len(t) < len(fr["rows"]) and len(t) > max(limit, 0) else "head-only" if len(t) < len(fr["rows"]) else "all-rows"))
            longest = [max(range(len(fr["rows"])), key=lambda j: len(str(fr["rows"][j][k])) if fr["rows"][j][k] is not None else 0) for k in range(len(fr["names"]))] if fr["rows"] else []
            for j in longest:
                L_ = max(limit if via != "str" else 10, 0)
                hit("site:display:longest-in:" + ("all-printed" if len(t) == len(fr["rows"]) else "head" if j < L_ else "tail" if j >= len(fr["rows"]) - (len(t) - L_) and len(t) > L_ else "hidden"))
            if model_lines is not None and via != "markdown":
                lens = [[True, [None if v is None else len(str(v)) for v in r]] for r in t]
                model_lines.append((i, "C10 dwidths " + wire.line(fr["names"], lens, limit), {"widths": got, "names": fr["names"], "mcw": mcw, "tws": tws}))
            if got != want:
                return (i, "display width is not the longest rendered non-null value (floor 4) of the printed rows", want)
        elif op == "edit":
            if "raises" in ob:
                raise InfraError("an edit of a result the caller holds raised %r: %r" % (ob, st))
            edited.add(st["result"])   # an edit numpy refused half-way may have changed part of the array
            hit("site:edit:%s:%s:%s" % (st["how"], st.get("on", "whole"), ob.get("ok")))
        elif op == "bytes":
            if st.get("mangle"):
                continue  # malformed bytes: anything but the death of the interpreter is acceptable here
            hit("site:judged:bytes")
            if "raises" in ob or ob["ok"] != list(st["tuple"]):
                return (i, "Row.from_bytes(row.as_bytes) is not the row", list(st["tuple"]))
    return None


def judge_collect(want, ob):
    if want[0] == "either":
        return None
    if want[0] == "raises":
        return None if "raises" in ob else "a column index outside 0..width-1 (or an unknown column) did not raise"
    if want[0] == "ok-or-raises" and "raises" in ob:
        return None
    if "raises" in ob:
        return "DataFrame.collect raised %s on a valid request" % ob["raises"]
    if ob["ok"] != want[1]:
        return "collected columns differ from rows[j][columns[i]] for the first 'limit' rows (DataFrame.collect)"
    return None


def judge_pcollect(c, res):
    if "died" in res:
        return "terminated the interpreter (exit status %s)" % res["died"]
    return judge_collect(spec_collect(c["names"], c["rows"], c), res)


def pcollect_model_line(c):
    lim = _lim(c["limit"]) if ("limit" in c and c.get("via") != "getitem") else None
    return "C10 pcollect " + wire.line(c["names"], [[True, r] for r in c["rows"]], c["cols"], c.get("ckind", "list") == "single", lim)


def model_agrees(line, mo, ob):
    """Does the model's answer (decoded) describe the observed value?"""
    m = wire.dec_all(mo[3:])
    if line.startswith("C10 pcollect"):
        if m[0] == "raises":
            return "raises" in ob
        if m[0] == "oob":
            return False
        return "ok" in ob and ob["ok"] == m[1]
    if line.startswith("C10 rownew") or line.startswith("C10 rowappend"):
        return m[0] == "some" and ob.get("ok") == m[1]
    if line.startswith("C10 dwidths"):
        want = [None if dw is None else min(ob["mcw"], max(len(nm), tw, dw)) for nm, tw, dw in zip(ob["names"], ob.get("tws") or [0] * len(ob["names"]), m[0])]
        return want == ob["widths"]
    raise InfraError("unknown model line " + line[:30])


# ----------------------------------------------------------------------------- generators

VALS = [0, 1, -7, 12345, None, "s", "é", "abc def", 2.5, -0.25, True, False, "", 10**12, "x" * 9]
NAMEPOOL = ["a", "b", "c", "id", "é", "k k", "n0", "0", "A", "zz", "1", "10", "ab", "a ", "-1", "value"]


def exhaustive_public(max_dim):
    """All tuple-row frames up to max_dim x max_dim x all limits x index/name vectors, eager and lazy."""
    import itertools

    cases = []
    for nrows in range(0, max_dim + 1):
        for width in range(0, max_dim + 1):
            names = ["n%d" % k for k in range(width)]
            rows = [[10 * (j + 1) + k for k in range(width)] for j in range(nrows)]
            alphabet = list(range(-1, width + 1))
            requests = []
            for k in range(0, 3):
                for cols in itertools.product(alphabet, repeat=k):
                    requests.append((list(cols), "list"))
            for x in alphabet:
                requests.append(([x], "single"))
            for nm in names + ["nope"]:
                requests.append(([nm], "single"))
                requests.append(([nm, 0], "tuple"))
            if names:
                requests.append((list(reversed(names)), "list"))
                requests.append(([names[-1]], "set"))
            limits = ["absent", "none"] + list(range(-2, nrows + 3))
            if width >= 2:
                # the same requests on frames whose columns share a name, or are named like positions of other columns
                for alt in (["n0"] * width, [str(width - 1 - k) for k in range(width)], ["n1", "n0"] + ["n0"] * (width - 2)):
                    for nm in sorted(set(alt)) + ["n"]:
                        for kind, cols in (("single", [nm]), ("list", [nm, nm]), ("tuple", [nm, width - 1])):
                            for limit in ("absent", 1):
                                c = {"fn": "pcollect", "names": alt, "rows": rows, "lazy": False, "cols": cols, "ckind": kind}
                                if limit != "absent":
                                    c["limit"] = limit
                                cases.append(c)
            for cols, kind in requests:
                for limit in limits:
                    for lazy in (False, True):
                        c = {"fn": "pcollect", "names": names, "rows": rows, "lazy": lazy, "cols": cols, "ckind": kind}
                        if limit != "absent":
                            c["limit"] = limit
                        cases.append(c)
            for cols, kind in requests[:: max(1, len(requests) // 6)]:
                cases.append({"fn": "pcollect", "names": names, "rows": rows, "lazy": False, "cols": cols, "ckind": kind, "via": "getitem"})
    return cases


def boundary_public():
    """Limits exactly at / one past every threshold: 0, the row count, the C int range."""
    cases = []
    for n in (0, 1, 3):
        rows = [[j, "v%d" % j] for j in range(n)]
        for limit in (0, 1, n - 1, n, n + 1, 2**31 - 1, 2**31, 2**31 + 1, -(2**31), -(2**31) - 1, 2**63, -(2**63), 10**30):
            for cols, kind in (([0, 1], "list"), ([1], "single"), (["b"], "single"), ([1, 1, 0], "tuple")):
                cases.append({"fn": "pcollect", "names": ["a", "b"], "rows": rows, "lazy": False, "cols": cols, "ckind": kind, "limit": limit})
        for idx in (2**31 - 1, 2**31, -(2**31), -(2**31) - 1, 2, -1):
            cases.append({"fn": "pcollect", "names": ["a", "b"], "rows": rows, "lazy": False, "cols": [idx], "ckind": "list", "limit": 1})
        # positions that are outside 0..width-1 but congruent to a valid position modulo 2**32 / 2**64 (a conversion to
        # int32 that wraps instead of rejecting would answer them with a column's data), as Python and as numpy integers
        for idx in (2**32, 2**32 + 1, 2**32 - 1, 2**32 + 2, 3 * 2**32 + 1, -(2**32), -(2**32) + 1, 2**40, 2**40 + 1,
                    2**63 - 1, 2**63, 2**63 + 1, -(2**63), 2**64, 2**64 + 1, 65536, 2**16 + 1):
            for cols, kind in (([idx], "single"), ([idx], "list"), ([0, idx], "list"), ([idx, 1, 0], "tuple")):
                cases.append({"fn": "pcollect", "names": ["a", "b"], "rows": rows, "lazy": False, "cols": cols, "ckind": kind})
            cases.append({"fn": "pcollect", "names": ["a", "b"], "rows": rows, "lazy": False, "cols": [idx], "ckind": "single", "via": "getitem"})
            cases.append({"fn": "pcollect", "names": ["a", "b"], "rows": rows, "lazy": False, "cols": [idx], "ckind": "list", "limit": 2})
        # column references that are neither positions nor names: they must raise, not be rounded to a position
        for bad in (1.5, 1.0, 0.0, -0.5, 0.999, None, [0], {"__float__": "nan"}):
            for cols, kind in (([bad], "single"), ([bad], "list"), ([0, bad], "list"), ([bad, "b"], "tuple")):
                if kind == "single" and isinstance(bad, list):
                    continue   # a list is a request for several columns
                cases.append({"fn": "pcollect", "names": ["a", "b"], "rows": rows, "lazy": False, "cols": cols, "ckind": kind})
        for npk in ("int64", "uint64", "int32", "int8", "uint8"):
            for idx in (0, 1, 2, -1, 255, 256, 257, 2**32, 2**32 + 1, -(2**32) + 1, 2**63, 2**64 - 1):
                for cols, kind in (([idx], "single"), ([1, idx], "list")):
                    cases.append({"fn": "pcollect", "names": ["a", "b"], "rows": rows, "lazy": False, "cols": cols, "ckind": kind, "np": npk})
    return cases


def random_public(rng, count):
    out = []
    for _ in range(count):
        width = rng.choice([1, 2, 3, 4, 7])
        nrows = rng.choice([0, 1, 2, 3, 5, 9, 40])
        names = [rng.choice(NAMEPOOL) for _ in range(width)] if rng.random() < 0.3 else rng.sample(NAMEPOOL, width)
        rows = [[rng.choice(VALS) for _ in range(width)] for _ in range(nrows)]
        k = rng.choice([1, 1, 2, 2, 3, 5, 8])
        cols = []
        for _ in range(k):
            r = rng.random()
            if r < 0.45:
                cols.append(rng.randrange(width))
            elif r < 0.9:
                cols.append(rng.choice(names))
            elif r < 0.93:
                cols.append(rng.choice([0.0, 1.0, 0.5, -0.5, None, float(width - 1)]))
            elif r < 0.96:
                cols.append(rng.choice([-1, width, width + 3, 2**32 + rng.randrange(width), -(2**32) + rng.randrange(width), 2**64 + rng.randrange(width)]))
            else:
                cols.append("missing")
        kind = rng.choice(["list", "list", "tuple", "single"]) if k > 1 else rng.choice(["list", "single", "single", "set", "tuple"])
        if kind == "single":
            cols = cols[:1]
        c = {"fn": "pcollect", "names": names, "rows": rows, "lazy": rng.random() < 0.3, "cols": cols, "ckind": kind}
        if rng.random() < 0.85:
            c["limit"] = rng.choice(["none", 0, 0, 1, nrows - 1, nrows, nrows + 1, -1, -5, rng.randint(-2, nrows + 2), 2**31, 2**40])
        if rng.random() < 0.08:
            c["via"] = "getitem"
        if rng.random() < 0.06:
            c["np"] = rng.choice(["int64", "uint64", "int32", "uint8"])
        out.append(c)
    return out


def _dict_for(rng, fields, extra):
    keys = [f for f in fields if rng.random() < 0.7] + [e for e in extra if rng.random() < 0.4]
    rng.shuffle(keys)
    return {k: rng.choice([0, 1, "v", None, 2.5, "é", True, -3, "longer value", [1, "unhashable"], ""]) for k in keys}


def _dict_kind(rng, st, mappings=True):
    """Sometimes hand the dictionary over as a standard dict subclass, or (`mappings`) as a Mapping that is no dict:
    UserDict, ChainMap, MappingProxyType, an instance of a Mapping class of the caller's own."""
    r = rng.random()
    if r < 0.12:
        st["dict_kind"] = "ordered"
    elif r < 0.24:
        st["dict_kind"] = "default"
    elif mappings and r < 0.44:
        st["dict_kind"] = rng.choice(["userdict", "chainmap", "proxy", "custom"])
    return st


def _display_rows(rng, width, n, limit, prefer_col=None):
    """Rows whose longest value sits in the head, the tail, a hidden middle row, or nowhere special."""
    rows = [[rng.choice([0, 7, None, "ab", 1.5, True, "é"]) for _ in range(width)] for _ in range(n)]
    where = rng.choice(["head", "tail", "tail", "hidden", "none", "last", "last", "first"])
    if n:
        L = max(limit, 0)
        if where == "head":
            j = rng.randrange(0, min(n, max(L, 1)))
        elif where == "tail":
            j = rng.randrange(max(0, n - max(L, 1)), n)
        elif where == "hidden":
            j = rng.randrange(min(L, n - 1), max(min(L, n - 1) + 1, n - L)) if n > 2 * L else rng.randrange(n)
        elif where == "last":
            j = n - 1
        elif where == "first":
            j = 0
        else:
            j = None
        if j is not None:
            k = rng.randrange(width) if (prefer_col is None or rng.random() < 0.25) else prefer_col
            rows[j][k] = rng.choice(["tail-value-0123456789", 10**14, "x" * rng.randint(5, 40), -123456.789, "ééééééé"])
    return rows, where


def random_seq(rng, tag):
    """One session.  Names carry the tag of the case, so that sessions run in one worker process do not
    share field names by accident (they share them on purpose inside a session)."""
    t = "q%s" % tag
    kind = rng.choice(["classes", "classes", "mutate", "display", "display", "mixed", "bytes"])
    steps = []
    fid = [0]

    def new(prefix):
        fid[0] += 1
        return "%s%s_%d" % (prefix, t, fid[0])

    width = rng.choice([1, 2, 3, 4])
    fields = ["%s_%s" % (t, x) for x in rng.sample(["a", "b", "c", "d", "é", "k k"], width)]
    extra = ["%s_zz" % t, "other"]
    # columns that share a name (the result of a join / of selecting a column twice), names that extend one another
    dup_col = None
    if width >= 2 and rng.random() < 0.3:
        a, b = sorted(rng.sample(range(width), 2))
        if rng.random() < 0.75:
            fields[b] = fields[a]
            dup_col = b
        else:
            fields[b] = fields[a] + rng.choice(["_", " ", "0"])
    if kind in ("classes", "mixed"):
        makers = []
        n_arrow = rng.choice([0, 1, 1]) if len(set(fields)) == len(fields) else 0
        for _ in range(n_arrow):
            cols = [[rng.choice([1, 2, 30]) for _ in range(2)] if rng.random() < 0.5 else [rng.choice(["x", "yy"]) for _ in range(2)] for _ in fields]
            makers.append({"op": "arrow", "id": new("f"), "names": list(fields), "cols": cols})
        for _ in range(rng.randint(1, 3)):
            r = rng.random()
            fs = list(fields)
            if r < 0.25:
                fs = list(reversed(fields))
            elif r < 0.4:
                fs = ["%s_%s" % (t, x) for x in rng.sample(["p", "q", "r", "s"], width)]  # same count, other names
            elif r < 0.5:
                fs = fields + ["%s_more" % t]
            m = rng.random()
            if m < 0.35:
                makers.append({"op": "class", "id": new("c"), "fields": fs, "tuples_only": rng.random() < 0.35, "via": rng.choice(["list", "tuple"])})
            elif m < 0.7:
                makers.append({"op": "frame", "id": new("f"), "names": fs, "rows": [[rng.choice([0, "v", None]) for _ in fs] for _ in range(rng.randint(0, 2))], "lazy": False})
            else:
                ds = [_dict_for(rng, fs, extra) for _ in range(rng.randint(1, 3))]
                if ds[0]:
                    makers.append({"op": "dicts", "id": new("f"), "dicts": ds})
        rng.shuffle(makers)
        if rng.random() < 0.5:
            makers.sort(key=lambda s: s["op"] != "arrow")  # the tuples-only class first
        steps += makers
        users = []
        for s in makers:
            if s["op"] == "class":
                for _ in range(rng.randint(1, 2)):
                    if rng.random() < 0.8:
                        users.append(_dict_kind(rng, {"op": "row", "cls": s["id"], "dict": _dict_for(rng, s["fields"], extra)}))
                    else:
                        users.append({"op": "row", "cls": s["id"], "tuple": [rng.choice([0, "v", None]) for _ in s["fields"]]})
            elif s["op"] == "frame":
                users.append(_dict_kind(rng, {"op": "append", "frame": s["id"], "dict": _dict_for(rng, s["names"], extra)}))
                if rng.random() < 0.5:
                    users.append({"op": "append", "frame": s["id"], "dict": {}})
                users.append({"op": "collect", "frame": s["id"], "cols": [rng.choice(s["names"])], "ckind": "single"})
            elif s["op"] == "dicts":
                users.append({"op": "append", "frame": s["id"], "dict": _dict_for(rng, list(s["dicts"][0]), extra)})
            elif s["op"] == "arrow" and rng.random() < 0.6:
                users.append({"op": "collect", "frame": s["id"], "cols": [0], "ckind": "list", "limit": rng.choice([0, 1, "none"])})
        rng.shuffle(users)
        # interleave a late class creation between the uses
        if users and rng.random() < 0.5:
            late = {"op": "class", "id": new("c"), "fields": list(fields), "tuples_only": rng.random() < 0.5, "via": "list"}
            users.insert(rng.randrange(len(users) + 1), late)
            users.append({"op": "row", "cls": late["id"], "dict": _dict_for(rng, fields, extra)})
        steps += users
    if kind in ("mutate", "mixed"):
        n = rng.choice([0, 1, 2, 3, 5])
        f = new("f")
        rows = [[rng.choice(VALS) for _ in fields] for _ in range(n)]
        steps.append({"op": "frame", "id": f, "names": list(fields), "rows": rows, "lazy": rng.random() < 0.3})
        for _ in range(rng.randint(2, 5)):
            r = rng.random()
            if r < 0.45:
                k = rng.randint(1, min(3, width))
                cols = [rng.choice(fields) if rng.random() < 0.5 else rng.randrange(width) for _ in range(k)]
                st = {"op": "collect", "frame": f, "cols": cols, "ckind": "list" if k > 1 else rng.choice(["single", "list"])}
                if rng.random() < 0.8:
                    st["limit"] = rng.choice([0, 1, n, n + 1, n + 2, -1, "none", rng.randint(0, n + 3)])
                steps.append(st)
            elif r < 0.75:
                if steps[-1]["op"] == "frame" and steps[-1].get("lazy"):
                    steps.append({"op": "collect", "frame": f, "cols": [0], "ckind": "single"})  # materialise before append
                if rng.random() < 0.7:
                    steps.append({"op": "append", "frame": f, "dict": _dict_for(rng, fields, extra)})
                else:
                    steps.append({"op": "append", "frame": f, "tuple": [rng.choice(VALS) for _ in fields]})
                n += 1
            elif r < 0.9:
                g = new("f")
                how = rng.choice(["head", "tail", "slice", "select"])
                st = {"op": "derive", "id": g, "frame": f, "how": how}
                if how in ("head", "tail"):
                    st["k"] = rng.randint(0, 4)
                elif how == "slice":
                    st["offset"], st["length"] = rng.randint(-3, 3), rng.choice([None, 0, 1, 2, 5])
                else:
                    st["names"] = rng.sample(fields, rng.randint(1, width))
                steps.append(st)
                steps.append({"op": "collect", "frame": g, "cols": [0], "ckind": rng.choice(["single", "list"]), "limit": rng.choice([0, 1, 2, "none", -1])})
                if how == "select" and steps[0].get("lazy") and not any(s["op"] in ("collect", "append") for s in steps[1:-2]):
                    break  # the projection consumed the parent's generator
            else:
                steps.append({"op": "display", "frame": f, "limit": rng.choice([0, 1, 2, 3]), "tt": rng.random() < 0.7, "via": rng.choice(["ascii", "display", "markdown"])})
                if steps[0].get("lazy") and not any(s["op"] in ("collect", "append") for s in steps[1:-1]):
                    break
    if kind == "display":
        limit = rng.choice([1, 1, 2, 3, 3, 5, 0, -1, 10])
        L = max(limit, 1)
        n = rng.choice([0, 1, L, L + 1, 2 * L - 1, 2 * L, 2 * L + 1, 2 * L + 1, 2 * L + 2, 3 * L + 4, 3 * L + 4, 25])
        via = rng.choice(["ascii", "ascii", "display", "markdown", "str"])
        if via == "str":
            n = rng.choice([3, 20, 21, 22, 30])
            limit = 10
        rows, where = _display_rows(rng, width, n, 10 if via == "str" else limit, dup_col)
        short = [x[len(t) + 1 :] or "x" for x in fields]  # short names, so the data decides the width
        if rng.random() < 0.2:
            # names that look like the positions of *other* columns
            digits = [str(width - 1 - k) for k in range(width)]
            short = [digits[fields.index(f)] for f in fields]
        src = rng.choice(["eager", "eager", "lazy", "lazy", "arrow", "appended"])
        if len(set(fields)) < len(fields) and src == "arrow":
            src = "eager"
        f = new("f")
        if src == "arrow" and n and all(all(v is not None and not isinstance(v, bool) for v in r) for r in rows):
            cols = [[str(r[k]) for r in rows] for k in range(width)]
            steps.append({"op": "arrow", "id": f, "names": fields, "cols": cols})
        elif src == "appended" and n:
            steps.append({"op": "frame", "id": f, "names": short, "rows": rows[:-1], "lazy": False})
            steps.append({"op": "display", "frame": f, "limit": limit, "tt": True, "via": "ascii"})
            steps.append({"op": "append", "frame": f, "tuple": rows[-1]})
        else:
            fst = {"op": "frame", "id": f, "names": short, "rows": rows, "lazy": src == "lazy"}
            if rng.random() < 0.35:
                fst["rs"] = [rng.choice(["VARCHAR", "INTEGER", "DOUBLE", "BOOLEAN"]) for _ in short]   # a typed schema
            steps.append(fst)
        st = {"op": "display", "frame": f, "limit": limit, "tt": rng.random() < 0.75, "via": via}
        if via in ("ascii", "display") and rng.random() < 0.4:
            st["types"] = True
        if rng.random() < 0.25:
            st["mcw"] = rng.choice([4, 5, 8, 21, 30])
        steps.append(st)
        if src != "lazy" and src != "arrow" and rng.random() < 0.5:
            steps.append({"op": "display", "frame": f, "limit": rng.choice([1, 2, 0]), "tt": True, "via": rng.choice(["ascii", "display"])})
    if kind == "bytes":
        c = new("c")
        steps.append({"op": "class", "id": c, "fields": list(fields), "tuples_only": rng.random() < 0.3, "via": "list"})
        for _ in range(rng.randint(1, 4)):
            tup = [rng.choice([0, 1, -7, None, "s", "é", 2.5, True, 2**40, [1, "a"], ""]) for _ in fields]
            st = {"op": "bytes", "cls": c, "tuple": tup}
            r = rng.random()
            if r < 0.25:
                st["mangle"] = {"kind": "truncate", "n": rng.choice([0, 1, 2, 5, 13, 14, 15, rng.randint(0, 40)])}
            elif r < 0.5:
                st["mangle"] = {"kind": "flip", "pos": rng.choice([0, 1, 2, 3, 4, 5, 14, 15, rng.randint(0, 60)]), "val": rng.choice([0, 0x10, 0x1F, 0xFF, 0x90, 0xDC, rng.randrange(256)])}
            elif r < 0.6:
                st["mangle"] = {"kind": "extend", "n": rng.randint(1, 4)}
            steps.append(st)
    return {"fn": "seq", "kind": kind, "steps": steps}


# keys that are not text, each next to the text `str(key)` gives: a field name spelt like the key must be looked up as
# the *text* (the definition is `data.get(field)`), never as the key that happens to print the same
def _K(kind, v=None):
    return {"__key__": kind, "v": v}


KEY_TWINS = [
    ("1", _K("int", 1)), ("0", _K("int", 0)), ("-1", _K("int", -1)), ("True", _K("bool", True)), ("False", _K("bool", False)),
    ("None", _K("none")), ("1.5", _K("float", 1.5)), ("1.0", _K("float", 1.0)), ("nan", _K("float", "nan")), ("b'a'", _K("bytes", "61")),
    ("(1, 2)", _K("tuple", [_K("int", 1), _K("int", 2)])), ("()", _K("tuple", [])), ("('a',)", _K("tuple", ["a"])),
    ("2024-01-01", _K("date", "2024-01-01")), ("a", _K("strother", "a")), ("é", _K("strother", "é")), ("b", _K("strsame", "b")),
    ("10", _K("int", 10)), ("", _K("strother", "")),
]
KEY_VALUES = ["text value", "number value", 0, None, 2.5, False, "", [1], "é"]


def _items_for(rng, fields, extra):
    """[[key, value], …]: for some fields the text key, for some a key that is *not* text but prints like the field, for
    some both (in either order), plus keys that belong to no field."""
    twin = dict(KEY_TWINS)
    items = []
    for f in dict.fromkeys(fields):
        r = rng.random()
        t = twin.get(f)
        if t is None:
            if r < 0.7:
                items.append([f, rng.choice(KEY_VALUES)])
            continue
        if r < 0.3:
            items.append([t, "under the key %s" % json.dumps(t, sort_keys=True)[:30]])
        elif r < 0.65:
            pair = [[f, "under the text %r" % f], [t, "under the key that prints %r" % f]]
            if rng.random() < 0.5:
                pair.reverse()
            items += pair
        elif r < 0.85:
            items.append([f, rng.choice(KEY_VALUES)])
    for e in extra:
        if rng.random() < 0.4:
            items.append([e, rng.choice(KEY_VALUES)])
    if rng.random() < 0.3:
        items.append([rng.choice(KEY_TWINS)[1], "stray"])
    if rng.random() < 0.5:
        rng.shuffle(items)
    return items


def keys_seq(rng, tag):
    """One session about dictionaries whose keys are not all text, through every caller of the extraction helper:
    `Row(dict)` through a class, `DataFrame.append`, `DataFrame(dictionaries)` (+ append), then a collect / a display
    of what was stored (use -> mutate -> use again)."""
    steps = []
    n = [0]

    def new(prefix):
        n[0] += 1
        return "%sk%s_%d" % (prefix, tag, n[0])

    width = rng.choice([1, 1, 2, 3, 4])
    fields = [t for t, _ in rng.sample(KEY_TWINS, width)]
    if rng.random() < 0.3:
        fields[rng.randrange(width)] = "plain_%s" % tag
    if width >= 2 and rng.random() < 0.15:
        fields[-1] = fields[0]
    extra = ["other", "zz"]
    how = rng.choice(["class", "class", "frame", "frame", "dicts", "mixed"])
    if how in ("class", "mixed"):
        c = new("c")
        steps.append({"op": "class", "id": c, "fields": list(fields), "tuples_only": False, "via": rng.choice(["list", "tuple"])})
        for _ in range(rng.randint(1, 4)):
            steps.append(_dict_kind(rng, {"op": "row", "cls": c, "items": _items_for(rng, fields, extra)}))
        if rng.random() < 0.3:
            steps.append({"op": "row", "cls": c, "dict": _dict_for(rng, fields, extra)})
        if rng.random() < 0.5:
            # use -> mutate -> use again: the same dictionary object, edited between two calls
            did = new("d")
            steps.append(_dict_kind(rng, {"op": "row", "cls": c, "items": _items_for(rng, fields, extra), "dict_id": did}, mappings=False))
            edits = [[k, "edited"] for k in _items_for(rng, fields, extra)[:2] for k in [k[0]]]
            steps.append({"op": "row", "cls": c, "items": [], "dict_id": did, "set": edits or [[fields[0], "edited"]],
                          "del": [fields[-1]] if rng.random() < 0.4 else []})
            if rng.random() < 0.5:
                steps.append({"op": "row", "cls": c, "items": [], "dict_id": did, "set": [[fields[0], "edited again"]]})
    if how in ("frame", "mixed"):
        f = new("f")
        steps.append({"op": "frame", "id": f, "names": list(fields), "rows": [[rng.choice([0, "v", None]) for _ in fields] for _ in range(rng.randint(0, 2))], "lazy": False})
        for _ in range(rng.randint(1, 3)):
            steps.append(_dict_kind(rng, {"op": "append", "frame": f, "items": _items_for(rng, fields, extra)}))
            if rng.random() < 0.4:
                steps.append({"op": "collect", "frame": f, "cols": [rng.choice(fields)], "ckind": "single"})
        if rng.random() < 0.4:
            steps.append({"op": "display", "frame": f, "limit": rng.choice([0, 2, 10]), "tt": True, "via": rng.choice(["ascii", "display", "markdown"])})
    if how in ("dicts", "mixed"):
        f = new("f")
        ds = [{"__items__": _items_for(rng, fields, extra)} for _ in range(rng.randint(1, 3))]
        if ds[0]["__items__"]:
            steps.append({"op": "dicts", "id": f, "dicts": ds})
            # the frame's columns are named `str(key)`: a record keyed like the first one is looked up by those *names*
            steps.append({"op": "append", "frame": f, "items": ds[0]["__items__"]})
            steps.append({"op": "append", "frame": f, "items": _items_for(rng, fields, extra)})
            steps.append({"op": "collect", "frame": f, "cols": [0], "ckind": "single", "limit": rng.choice(["none", 1, -1])})
    return {"fn": "seq", "kind": "keys", "steps": steps}


def exhaustive_keys():
    """Every dictionary over the keys '1', 1, 'None', None with at most three entries in every insertion order, through
    classes for every field tuple of length 0..2 over '1', 'None', 'x' (one session per class)."""
    import itertools

    pool = ["1", _K("int", 1), "None", _K("none")]
    vals = {0: "text 1", 1: "number 1", 2: "text None", 3: "the null key"}
    out = []
    for k in range(0, 3):
        for fs in itertools.product(["1", "None", "x"], repeat=k):
            steps = [{"op": "class", "id": "cX", "fields": list(fs), "tuples_only": False, "via": "tuple"}]
            for size in range(0, 4):
                for idx in itertools.permutations(range(4), size):
                    steps.append({"op": "row", "cls": "cX", "items": [[pool[j], vals[j]] for j in idx]})
            out.append({"fn": "seq", "kind": "keys-exhaustive", "steps": steps})
    return out


def seeded_corpus():
    """Hand-written sessions for the classes of call-site defect this layer exists for."""
    fields = ["c10_left", "c10_right", "c10_absent"]
    rec = {"c10_right": "r", "c10_left": 1, "unrelated": 99}
    tail = [["ab", i] for i in range(11)] + [["tail-value-0123456789", 10**12]]
    dup = [[1, "k0", "alpha-centauri-bb"], [22, "k1", "betelgeuse"], [None, "k2", None], [3, "k3", "proxima"]]
    return [
        {"fn": "seq", "kind": "corpus", "steps": [
            {"op": "arrow", "id": "fA", "names": fields, "cols": [[1, 2], ["x", "y"], [3, 4]]},
            {"op": "class", "id": "cA", "fields": fields, "tuples_only": False, "via": "tuple"},
            {"op": "row", "cls": "cA", "dict": rec},
            {"op": "frame", "id": "fB", "names": fields, "rows": [], "lazy": False},
            {"op": "append", "frame": "fB", "dict": rec},
            {"op": "append", "frame": "fB", "dict": {}},
            {"op": "collect", "frame": "fB", "cols": ["c10_right"], "ckind": "single", "limit": 0},
        ]},
        {"fn": "seq", "kind": "corpus", "steps": [
            {"op": "class", "id": "cT", "fields": ["c10_p", "c10_q"], "tuples_only": True, "via": "list"},
            {"op": "class", "id": "cD", "fields": ["c10_p", "c10_q"], "tuples_only": False, "via": "list"},
            {"op": "row", "cls": "cD", "dict": {"c10_q": 2}},
            {"op": "class", "id": "cE", "fields": ["c10_q", "c10_p"], "tuples_only": False, "via": "list"},
            {"op": "row", "cls": "cE", "dict": {"c10_q": 2}},
            {"op": "row", "cls": "cD", "dict": {"c10_p": 1, "c10_q": 2, "z": 3}},
        ]},
        {"fn": "seq", "kind": "corpus", "steps": [
            {"op": "frame", "id": "fT", "names": ["a", "b"], "rows": tail, "lazy": False},
            {"op": "display", "frame": "fT", "limit": 3, "tt": True, "via": "display"},
            {"op": "display", "frame": "fT", "limit": 3, "tt": False, "via": "ascii"},
            {"op": "display", "frame": "fT", "limit": 0, "tt": True, "via": "ascii"},
            {"op": "display", "frame": "fT", "limit": 3, "via": "markdown"},
        ]},
        {"fn": "seq", "kind": "corpus", "steps": [
            # two columns carry one name (a join, a column selected twice); the later one holds the longer values
            {"op": "frame", "id": "fD", "names": ["value", "key", "value"], "rows": dup, "lazy": False},
            {"op": "display", "frame": "fD", "limit": 10, "tt": True, "via": "display"},
            {"op": "display", "frame": "fD", "limit": 2, "tt": True, "via": "ascii"},
            {"op": "display", "frame": "fD", "limit": 10, "via": "str"},
            {"op": "collect", "frame": "fD", "cols": ["value"], "ckind": "single"},
            {"op": "collect", "frame": "fD", "cols": ["value", 2, "key"], "ckind": "list", "limit": 2},
            {"op": "append", "frame": "fD", "dict": {"value": "appended-to-both-columns", "key": "k"}},
            {"op": "display", "frame": "fD", "limit": 0, "tt": False, "via": "ascii"},
            {"op": "class", "id": "cDup", "fields": ["value", "key", "value"], "tuples_only": False, "via": "list"},
            {"op": "row", "cls": "cDup", "dict": {"value": 1, "other": 2}},
        ]},
        {"fn": "seq", "kind": "corpus", "steps": [
            # names that are the positions of other columns, a name that extends another
            {"op": "frame", "id": "fP", "names": ["2", "0", "1"], "rows": [[r[0], r[1], r[2]] for r in dup], "lazy": True},
            {"op": "display", "frame": "fP", "limit": 10, "tt": True, "via": "ascii"},
            {"op": "frame", "id": "fQ", "names": ["1", "0", "1"], "rows": dup, "lazy": False},
            {"op": "collect", "frame": "fQ", "cols": ["1"], "ckind": "single"},
            {"op": "collect", "frame": "fQ", "cols": ["0", 0, "1", 1], "ckind": "tuple"},
            {"op": "display", "frame": "fQ", "limit": 1, "tt": True, "via": "display"},
            {"op": "frame", "id": "fR", "names": ["a", "ab", "a "], "rows": dup, "lazy": False},
            {"op": "display", "frame": "fR", "limit": 3, "tt": False, "via": "ascii"},
            {"op": "collect", "frame": "fR", "cols": ["a ", "ab"], "ckind": "list"},
        ]},
        {"fn": "seq", "kind": "corpus", "steps": [
            # keys that are not text but print like a field name: the field is looked up as text
            {"op": "class", "id": "cK", "fields": ["1", "True", "None", "b'a'", "a", "(1, 2)"], "tuples_only": False, "via": "list"},
            {"op": "row", "cls": "cK", "items": [["1", "text one"], [_K("int", 1), "number one"]]},
            {"op": "row", "cls": "cK", "items": [[_K("int", 1), "number one"], ["1", "text one"]]},
            {"op": "row", "cls": "cK", "items": [[_K("int", 1), "number one"], ["a", 2]]},
            {"op": "row", "cls": "cK", "items": [[_K("bool", True), "the flag"], [_K("none"), "nothing"], [_K("bytes", "61"), "bytes"],
                                                 [_K("strother", "a"), "another a"], [_K("tuple", [_K("int", 1), _K("int", 2)]), "a pair"]]},
            {"op": "row", "cls": "cK", "items": [[_K("strsame", "a"), "found: equal to the text"], ["None", "text"], [_K("none"), "null key"]], "dict_kind": "ordered"},
            {"op": "row", "cls": "cK", "items": [["a", "in a UserDict"], [_K("int", 1), "number one"], ["1", "text one"]], "dict_kind": "userdict"},
            {"op": "row", "cls": "cK", "items": [[_K("none"), "null key"], ["None", "text"], ["a", "in a ChainMap"]], "dict_kind": "chainmap"},
            {"op": "row", "cls": "cK", "items": [[_K("bool", True), "the flag"], ["a", "behind a proxy"]], "dict_kind": "proxy"},
            {"op": "row", "cls": "cK", "items": [[_K("strother", "a"), "another a"], ["1", "in a Mapping of the caller's"]], "dict_kind": "custom"},
            {"op": "row", "cls": "cK", "items": [["a", "first"], ["1", "one"]], "dict_id": "dK"},
            {"op": "row", "cls": "cK", "items": [], "dict_id": "dK", "set": [["a", "second"], [_K("int", 1), "number"]]},
            {"op": "row", "cls": "cK", "items": [], "dict_id": "dK", "del": ["a"], "set": [["True", "text flag"]]},
            {"op": "frame", "id": "fK", "names": ["1", "a"], "rows": [], "lazy": False},
            {"op": "append", "frame": "fK", "items": [[_K("int", 1), "number one"], ["a", "x"]]},
            {"op": "append", "frame": "fK", "items": [["1", "text one"], [_K("int", 1), "number one"]], "dict_kind": "ordered"},
            {"op": "append", "frame": "fK", "items": [[_K("int", 1), "number one"], ["a", "UserDict"]], "dict_kind": "userdict"},
            {"op": "append", "frame": "fK", "items": [["1", "text one"], ["a", "proxy"]], "dict_kind": "proxy"},
            {"op": "append", "frame": "fK", "items": [["a", "custom"], [_K("int", 1), "n"]], "dict_kind": "custom"},
            {"op": "collect", "frame": "fK", "cols": ["1"], "ckind": "single"},
            {"op": "dicts", "id": "fN", "dicts": [{"__items__": [[_K("int", 1), "a"], ["n", 0]]}, {"__items__": [[_K("int", 1), "b"]]}]},
            {"op": "append", "frame": "fN", "items": [[_K("int", 1), "c"], ["n", 1]]},
            {"op": "append", "frame": "fN", "items": [["1", "d"]]},
            {"op": "collect", "frame": "fN", "cols": [0, 1], "ckind": "list"},
        ]},
        {"fn": "seq", "kind": "corpus", "steps": [
            {"op": "frame", "id": "fL", "names": ["a", "b"], "rows": tail, "lazy": True},
            {"op": "display", "frame": "fL", "limit": 3, "tt": True, "via": "ascii"},
        ]},
        {"fn": "seq", "kind": "corpus", "steps": [
            {"op": "frame", "id": "fS", "names": ["a", "b"], "rows": [["ab", i] for i in range(30)] + [["tail-value-0123456789", 1]], "lazy": False},
            {"op": "display", "frame": "fS", "via": "str", "limit": 10},
        ]},
    ]


# ----------------------------------------------------------------------------- results handed out, edited, asked for again

EDIT_VALUES = [None, -99, "edited", 0.5, 0, ""]


def _edit_step(rng, rid, many):
    how = rng.choice(["fill", "fill", "slice-assign", "item", "item", "reverse", "sort", "iadd", "upper"])
    st = {"op": "edit", "result": rid, "how": how}
    if many and rng.random() < 0.5:
        st["on"], st["k"] = "part", rng.randrange(4)   # one column of a many-column result: a view of the array
    if how in ("fill", "slice-assign", "item"):
        st["value"] = rng.choice(EDIT_VALUES)
    if how == "item":
        st["pos"] = rng.randrange(12)
    if how == "iadd":
        st["value"] = rng.choice([10, 1.5, "!"])
    return st


def _respell(rng, st, names, n):
    """The same request written another way: a position by its name (when the name is unique) or the other way round, the
    limit as absent / None / -1 / the row count / beyond it when it means "all rows", list / tuple, `frame[...]`."""
    st = json.loads(json.dumps(st))
    st.pop("keep", None)
    cols = []
    for x in st["cols"]:
        if rng.random() < 0.5:
            if isinstance(x, int) and 0 <= x < len(names) and names.count(names[x]) == 1 and not names[x].lstrip("-").isdigit():
                x = names[x]
            elif isinstance(x, str) and x in names:
                x = names.index(x)
        cols.append(x)
    st["cols"] = cols
    if st.get("ckind", "list") in ("list", "tuple"):
        st["ckind"] = rng.choice(["list", "tuple"])
    lim = st.get("limit", "none") if st.get("via") != "getitem" else "none"
    all_rows = lim == "none" or (isinstance(lim, int) and (lim < 0 or lim >= n))
    if all_rows:
        st.pop("limit", None)
        st.pop("via", None)
        pick = rng.choice(["absent", "none", -1, -2, n, n + 1, n + 7, "getitem"])
        if pick == "getitem":
            st["via"] = "getitem"
        elif pick != "absent":
            st["limit"] = pick
    return st


def reuse_seq(rng, tag):
    """One session about *results*: a public call hands out an array, the caller edits that array in place (it is the
    caller's), the same request -- spelt the same way or another -- is made again; now and then a row is appended, the
    frame is displayed, a second frame with the same content is asked, in between.  Every collect is judged by the
    definition on the frame's rows; the edits never touch the frame."""
    t = "u%s" % tag
    width = rng.choice([1, 2, 2, 3, 4])
    names = ["%s_%s" % (t, x) for x in rng.sample(["a", "b", "c", "d", "é"], width)]
    if width >= 2 and rng.random() < 0.15:
        names[-1] = names[0]
    n = rng.choice([1, 1, 2, 3, 3, 5, 0])
    pool = rng.choice([VALS, [1, 2, 3, 40, -5], ["a", "b", "cc", "é"], [1.5, None, "s", 7]])
    rows = [[rng.choice(pool) for _ in names] for _ in range(n)]
    f = "f%s" % t
    steps = [{"op": "frame", "id": f, "names": list(names), "rows": rows, "lazy": rng.random() < 0.25}]
    frames = [f]
    if rng.random() < 0.2:
        steps.append({"op": "frame", "id": f + "_twin", "names": list(names), "rows": [list(r) for r in rows], "lazy": False})
        frames.append(f + "_twin")
    k = rng.choice([1, 1, 2, 2, 3])
    base = {"op": "collect", "frame": f, "cols": [rng.choice(names) if rng.random() < 0.4 else rng.randrange(width) for _ in range(k)],
            "ckind": rng.choice(["single", "list"]) if k == 1 else rng.choice(["list", "tuple"])}
    r = rng.random()
    if r < 0.35:
        base["limit"] = rng.choice([0, 1, max(n - 1, 0), n, n + 1, -1, "none"])
    elif r < 0.5:
        base["via"] = "getitem"
    rid = 0
    for _ in range(rng.choice([2, 2, 3, 4])):
        rid += 1
        st = dict(base if rng.random() < 0.5 else _respell(rng, base, names, n), keep="r%d" % rid)
        if len(frames) > 1 and rng.random() < 0.3:
            st["frame"] = rng.choice(frames)
        steps.append(st)
        if rng.random() < 0.9:
            steps.append(_edit_step(rng, "r%d" % rid, many=st.get("ckind") != "single"))
            if rng.random() < 0.2:
                steps.append(_edit_step(rng, "r%d" % rng.randint(1, rid), many=True))
        x = rng.random()
        if x < 0.15 and (not steps[0]["lazy"] or any(s_["op"] == "collect" and s_["frame"] == f for s_ in steps)):
            # (a frame still backed by a generator is materialised by its first collect; appending before that is not C10's)
            steps.append({"op": "append", "frame": f, "tuple": [rng.choice(pool) for _ in names]})
            n += 1
        elif x < 0.3:
            steps.append({"op": "display", "frame": f, "limit": rng.choice([0, 2, 10]), "tt": True, "via": rng.choice(["ascii", "display", "markdown"])})
        elif x < 0.4:
            g = "%s_d%d" % (f, rid)
            steps.append({"op": "derive", "id": g, "frame": f, "how": "head", "k": rng.choice([n, n + 1, 1])})
            steps.append(dict(_respell(rng, base, names, n), frame=g))
    steps.append(dict(base if rng.random() < 0.6 else _respell(rng, base, names, n)))
    return {"fn": "seq", "kind": "reuse", "steps": steps}


def exhaustive_reuse():
    """Every request shape x every kind of edit on one small frame: call, edit the result in place, call again."""
    out = []
    names = ["x", "y", "z"]
    rows = [[1, "a", 1.5], [2, "b", 2.5], [3, "c", 3.5]]
    requests = [{"cols": [1], "ckind": "single"}, {"cols": ["x"], "ckind": "single", "limit": 2}, {"cols": [0], "ckind": "list"},
                {"cols": [2, 0], "ckind": "list"}, {"cols": ["x", "z"], "ckind": "tuple", "limit": 2}, {"cols": [2, 0, 1], "ckind": "list"},
                {"cols": [0], "ckind": "single", "via": "getitem"}, {"cols": ["z", "y"], "ckind": "list", "via": "getitem"},
                {"cols": [0, 0], "ckind": "list", "limit": -1}, {"cols": [1, 2], "ckind": "list", "limit": 0}]
    edits = [{"how": "fill", "value": None}, {"how": "slice-assign", "value": -99}, {"how": "item", "pos": 0, "value": "edited"},
             {"how": "item", "pos": 4, "value": -99}, {"how": "reverse"}, {"how": "sort"}, {"how": "iadd", "value": 10}, {"how": "upper"},
             {"how": "fill", "value": 0, "on": "part", "k": 1}, {"how": "sort", "on": "part", "k": 0}, {"how": "iadd", "value": "!", "on": "part", "k": 1}]
    for lazy in (False, True):
        for rq in requests:
            for ed in edits:
                c1 = dict({"op": "collect", "frame": "fU"}, **rq)
                out.append({"fn": "seq", "kind": "reuse-exhaustive", "steps": [
                    {"op": "frame", "id": "fU", "names": names, "rows": rows, "lazy": lazy},
                    dict(c1, keep="r1"), dict({"op": "edit", "result": "r1"}, **ed),
                    dict(c1, keep="r2"), dict({"op": "edit", "result": "r2"}, **ed),
                    dict(c1),
                    {"op": "display", "frame": "fU", "limit": 10, "tt": True, "via": "ascii"},
                    {"op": "append", "frame": "fU", "tuple": [4, "d", 4.5]},
                    dict(c1, keep="r3"), dict({"op": "edit", "result": "r3"}, **ed), dict(c1)]})
    return out


def valid_seq(case):
    """A session the reference state can follow: no append to a frame that is still backed by a generator (what a lazy
    frame does with an appended row is not this property's; the judge skips such steps and would lose track of the rows)."""
    lazy = {}
    for st in case["steps"]:
        op = st["op"]
        if op == "frame":
            lazy[st["id"]] = bool(st.get("lazy"))
        elif op == "arrow":
            lazy[st["id"]] = True
        elif op == "dicts":
            lazy[st["id"]] = False
        elif op == "derive":
            lazy[st["id"]] = st["how"] == "select"
            if st["how"] != "select":
                lazy[st.get("frame")] = False
        elif op == "collect" or (op == "display" and st.get("via") == "markdown"):
            lazy[st.get("frame")] = False
        elif op == "append" and lazy.get(st.get("frame"), False):
            return False
    return True


def describe(c):
    return json.dumps(c, sort_keys=True, default=repr)[:300]
