"""Deterministic line-granular thread scheduler (DESIGN.md §2, C19).

N real threads call real code; `sys.settrace` (installed per worker thread) stops a
thread at every 'line' event whose frame executes one of the *target code objects*
(the cache wrapper's body).  Exactly one thread runs at any time and control changes
hands only at those line events, according to a schedule given as a list of thread
ids.  One schedule entry = "let thread t execute the source line it is stopped at"
(it then runs - through any calls it makes, e.g. the wrapped function - until its
next line event inside a target code object, or until it finishes).

`run(thunks, prefix)` follows `prefix` and then continues with a default policy
(lowest live thread id).  It returns the complete trace, the set of live threads at
every decision point (so a caller can enumerate ALL schedules by depth-first
backtracking, see `all_schedules`), and every thread's outcome.

Robustness: every wait has a timeout; on a timeout (a thread blocked on something the
scheduler does not control) the run is marked `stuck`, all threads are released to run
freely, and the caller decides.  Worker threads are daemons; trace functions are
installed only inside the worker threads and removed when they end, so the calling
thread's trace function (coverage, debuggers) is never touched.
"""
import sys
import threading


class Stuck(Exception):
    pass


def _locked():
    # raw locks (not threading.Semaphore: its Condition costs a GIL switch interval per hand-off)
    l = threading.Lock()
    l.acquire()
    return l


def _release(l):
    try:
        l.release()
    except RuntimeError:  # already released (abort path)
        pass


class _Run:
    def __init__(self, codes, timeout):
        self.codes = codes
        self.timeout = timeout
        self.ctrl = _locked()
        self.sems = []
        self.state = []  # 'new' | 'paused' | 'running' | 'done'
        self.line = []  # line number each thread is stopped at
        self.depth = []  # nesting depth inside target code (only depth 1 is scheduled)
        self.outcomes = []
        self.free = False  # abort: let everything run

    def pause(self, i, lineno):
        if self.free:
            return
        self.line[i] = lineno
        self.state[i] = "paused"
        _release(self.ctrl)
        if not self.sems[i].acquire(True, self.timeout * 4):
            self.free = True
            return
        self.state[i] = "running"

    def tracer_for(self, i):
        codes = self.codes
        run = self

        def local(frame, event, arg):
            if event == "line":
                run.pause(i, frame.f_lineno)
            return local

        def glob(frame, event, arg):
            if event == "call" and frame.f_code in codes:
                return local
            return None

        return glob

    def worker(self, i, thunk):
        sys.settrace(self.tracer_for(i))
        try:
            try:
                out = ("ok", thunk())
            except BaseException as e:  # the outcome of the call, whatever it is
                out = ("err", type(e).__name__, str(e)[:80])
        finally:
            sys.settrace(None)
        self.outcomes[i] = out
        self.state[i] = "done"
        if not self.free:
            _release(self.ctrl)


def run(thunks, prefix, codes, timeout=5.0, between=None, policy=None):
    """Run `thunks` (callables, one per thread) under the schedule `prefix` + default.

    `between(step_index)` (optional) is called by the controller before every step while
    no worker runs (used for clock ticks that are part of a schedule).  `policy(alive, step)`
    chooses the thread after the prefix is exhausted (default: lowest live id).
    Returns dict(trace=[[tid, lineno]..], alive=[[tids]..], outcomes=[..], stuck=bool,
    bad_prefix=index or None).
    """
    codes = frozenset(codes)
    r = _Run(codes, timeout)
    n = len(thunks)
    r.sems = [_locked() for _ in range(n)]
    r.state = ["new"] * n
    r.line = [None] * n
    r.outcomes = [None] * n
    threads = []
    res = {"trace": [], "alive": [], "outcomes": None, "stuck": False, "bad_prefix": None}

    def wait_ctrl():
        if not r.ctrl.acquire(True, timeout):
            raise Stuck()

    try:
        # start the threads one at a time; each runs to its first line event in a target
        for i, th in enumerate(thunks):
            t = threading.Thread(target=r.worker, args=(i, th), daemon=True)
            threads.append(t)
            r.state[i] = "running"
            t.start()
            wait_ctrl()
        step = 0
        while True:
            alive = [i for i in range(n) if r.state[i] == "paused"]
            if not alive:
                break
            if step < len(prefix):
                t = prefix[step]
                if t not in alive:
                    res["bad_prefix"] = step
                    t = alive[0]
            elif policy is not None:
                t = policy(alive, step)
            else:
                t = alive[0]
            if between is not None:
                between(step)
            res["alive"].append(alive)
            res["trace"].append([t, r.line[t]])
            r.state[t] = "running"
            _release(r.sems[t])
            wait_ctrl()
            step += 1
        if step < len(prefix) and res["bad_prefix"] is None:
            res["bad_prefix"] = step
    except Stuck:
        res["stuck"] = True
    finally:
        r.free = True
        for s in r.sems:
            _release(s)
        for t in threads:
            t.join(timeout=timeout)
            if t.is_alive():
                res["stuck"] = True
    res["outcomes"] = list(r.outcomes)
    return res


def all_schedules(make_thunks, codes, timeout=5.0, limit=None, between=None, max_preemptions=None):
    """Enumerate every complete schedule by depth-first backtracking over real executions.

    `make_thunks()` must build a fresh, identical initial situation each time and return
    (thunks, context); yields (schedule, result, context) once per distinct complete
    schedule.  With `max_preemptions=k` only schedules with at most k pre-emptive switches
    (switching away from a thread that could have continued) are produced.
    """
    stack = [[]]
    count = 0
    while stack:
        prefix = stack.pop()
        thunks, context = make_thunks()
        res = run(thunks, prefix, codes, timeout=timeout, between=between)
        sched = [t for t, _ in res["trace"]]
        yield sched, res, context
        count += 1
        if limit is not None and count >= limit:
            return
        if res["stuck"] or res["bad_prefix"] is not None:
            continue
        # alternatives at every decision point at or after the end of the prefix
        for pos in range(len(sched) - 1, len(prefix) - 1, -1):
            for alt in res["alive"][pos]:
                if alt == sched[pos]:
                    continue
                cand = sched[:pos] + [alt]
                if max_preemptions is not None and preemptions(cand, res["alive"][: pos + 1]) > max_preemptions:
                    continue
                stack.append(cand)


def preemptions(sched, alive):
    k = 0
    for i in range(1, len(sched)):
        if sched[i] != sched[i - 1] and sched[i - 1] in alive[i]:
            k += 1
    return k
