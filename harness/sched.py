"""Deterministic line-granular thread scheduler (DESIGN.md §2, C19).

N real threads call real code; `sys.settrace` (installed per worker thread) stops a
thread at every 'line' event whose frame executes one of the *target code objects*
(the cache wrapper's body).  Exactly one thread runs at any time and control changes
hands only at those line events, according to a schedule given as a list of thread
ids.  One schedule entry = "let thread t execute the source line it is stopped at"
(it then runs - through any calls it makes, e.g. the wrapped function - until its
next line event inside a target code object, or until it finishes).

`run(thunks, prefix)` follows `prefix` and then continues with a default policy
(lowest live thread id).  It returns the complete trace, the set of live threads at
every decision point (so a caller can enumerate ALL schedules by depth-first
backtracking, see `all_schedules`), and every thread's outcome.

Robustness: every wait has a timeout; on a timeout (a thread blocked on something the
scheduler does not control) the run is marked `stuck`, all threads are released to run
freely, and the caller decides.  Worker threads are daemons; trace functions are
installed only inside the worker threads and removed when they end, so the calling
thread's trace function (coverage, debuggers) is never touched.
"""
import sys
import threading
import time


class Stuck(Exception):
    pass


_REG = {}  # thread ident -> (_Run, thread index) for the worker threads of the run in progress
_LOCK_TYPES = (type(threading.Lock()), type(threading.RLock()))


class CoopLock:
    """A re-entrant lock that co-operates with the scheduler.

    The code under test may guard its bookkeeping with a `threading.Lock` / `RLock` held in a
    closure cell.  A real lock would park a scheduled thread inside `acquire` (a C call, no
    line event): the controller would time out.  `coop_locks(fn)` replaces such a lock by a
    CoopLock with the same interface: a scheduled thread that finds it taken tells the
    controller it is *blocked* and hands control back; the controller offers a blocked thread
    for scheduling again only once the lock is free, and the thread then retries.  The line
    the thread is stopped at stays the `with lock:` line, so a blocked attempt appears in the
    trace as one (ineffective) execution of that line.  Outside a scheduled run (sequential
    phases, aborted runs) it behaves as an ordinary re-entrant lock.
    """

    def __init__(self):
        self._g = threading.Lock()
        self.owner = None
        self.count = 0

    def _try(self, me):
        with self._g:
            if self.owner is None or self.owner == me:
                self.owner = me
                self.count += 1
                return True
        return False

    def acquire(self, blocking=True, timeout=-1):
        me = threading.get_ident()
        while not self._try(me):
            if not blocking:
                return False
            ctx = _REG.get(me)
            if ctx is None or ctx[0].free:
                time.sleep(0.0005)
            else:
                ctx[0].block(ctx[1], self)
        return True

    def release(self):
        with self._g:
            if self.owner != threading.get_ident():
                raise RuntimeError("cannot release un-acquired lock")
            self.count -= 1
            if self.count == 0:
                self.owner = None

    def locked(self):
        return self.owner is not None

    __enter__ = acquire

    def __exit__(self, *a):
        self.release()


def coop_locks(fn):
    """Replace every lock held in a closure cell of `fn` by a CoopLock; returns how many."""
    n = 0
    for cell in getattr(fn, "__closure__", None) or ():
        try:
            v = cell.cell_contents
        except ValueError:
            continue
        if isinstance(v, _LOCK_TYPES):
            cell.cell_contents = CoopLock()
            n += 1
    return n


def _locked():
    # raw locks (not threading.Semaphore: its Condition costs a GIL switch interval per hand-off)
    l = threading.Lock()
    l.acquire()
    return l


def _release(l):
    try:
        l.release()
    except RuntimeError:  # already released (abort path)
        pass


class _Run:
    def __init__(self, codes, timeout):
        self.codes = codes
        self.timeout = timeout
        self.ctrl = _locked()
        self.sems = []
        self.state = []  # 'new' | 'paused' | 'running' | 'blocked' | 'done'
        self.waiting = {}  # thread index -> the CoopLock it is blocked on
        self.line = []  # line number each thread is stopped at
        self.depth = []  # nesting depth inside target code (only depth 1 is scheduled)
        self.outcomes = []
        self.free = False  # abort: let everything run

    def pause(self, i, lineno):
        if self.free:
            return
        self.line[i] = lineno
        self.state[i] = "paused"
        _release(self.ctrl)
        if not self.sems[i].acquire(True, self.timeout * 4):
            self.free = True
            return
        self.state[i] = "running"

    def block(self, i, lock):
        """Thread i found `lock` taken: hand control back until it is scheduled again."""
        self.waiting[i] = lock
        self.state[i] = "blocked"
        _release(self.ctrl)
        if not self.sems[i].acquire(True, self.timeout * 4):
            self.free = True
            return
        self.state[i] = "running"

    def tracer_for(self, i):
        codes = self.codes
        run = self

        def local(frame, event, arg):
            if event == "line":
                run.pause(i, frame.f_lineno)
            return local

        def glob(frame, event, arg):
            if event == "call" and frame.f_code in codes:
                return local
            return None

        return glob

    def worker(self, i, thunk):
        sys.settrace(self.tracer_for(i))
        _REG[threading.get_ident()] = (self, i)
        try:
            try:
                out = ("ok", thunk())
            except BaseException as e:  # the outcome of the call, whatever it is
                out = ("err", type(e).__name__, str(e)[:80])
        finally:
            sys.settrace(None)
            _REG.pop(threading.get_ident(), None)
        self.outcomes[i] = out
        self.state[i] = "done"
        if not self.free:
            _release(self.ctrl)


def run(thunks, prefix, codes, timeout=5.0, between=None, policy=None):
    """Run `thunks` (callables, one per thread) under the schedule `prefix` + default.

    `between(step_index)` (optional) is called by the controller before every step while
    no worker runs (used for clock ticks that are part of a schedule).  `policy(alive, step)`
    chooses the thread after the prefix is exhausted (default: lowest live id).
    Returns dict(trace=[[tid, lineno]..], alive=[[tids]..], outcomes=[..], stuck=bool,
    bad_prefix=index or None).
    """
    codes = frozenset(codes)
    r = _Run(codes, timeout)
    n = len(thunks)
    r.sems = [_locked() for _ in range(n)]
    r.state = ["new"] * n
    r.line = [None] * n
    r.outcomes = [None] * n
    threads = []
    res = {"trace": [], "alive": [], "outcomes": None, "stuck": False, "bad_prefix": None}

    def wait_ctrl():
        if not r.ctrl.acquire(True, timeout):
            raise Stuck()

    try:
        # start the threads one at a time; each runs to its first line event in a target
        for i, th in enumerate(thunks):
            t = threading.Thread(target=r.worker, args=(i, th), daemon=True)
            threads.append(t)
            r.state[i] = "running"
            t.start()
            wait_ctrl()
        step = 0
        while True:
            # a thread blocked on a lock can be scheduled again once the lock is free
            alive = [i for i in range(n) if r.state[i] == "paused"
                     or (r.state[i] == "blocked" and r.waiting[i].owner is None)]
            if not alive:
                if any(st == "blocked" for st in r.state):
                    res["stuck"] = True  # deadlock: every remaining thread waits for a lock
                break
            if step < len(prefix):
                t = prefix[step]
                if t not in alive:
                    res["bad_prefix"] = step
                    t = alive[0]
            elif policy is not None:
                t = policy(alive, step)
            else:
                t = alive[0]
            if between is not None:
                between(step)
            res["alive"].append(alive)
            res["trace"].append([t, r.line[t]])
            r.state[t] = "running"
            _release(r.sems[t])
            wait_ctrl()
            step += 1
        if step < len(prefix) and res["bad_prefix"] is None:
            res["bad_prefix"] = step
    except Stuck:
        res["stuck"] = True
    finally:
        r.free = True
        for s in r.sems:
            _release(s)
        for t in threads:
            t.join(timeout=timeout)
            if t.is_alive():
                res["stuck"] = True
    res["outcomes"] = list(r.outcomes)
    return res


def all_schedules(make_thunks, codes, timeout=5.0, limit=None, between=None, max_preemptions=None):
    """Enumerate every complete schedule by depth-first backtracking over real executions.

    `make_thunks()` must build a fresh, identical initial situation each time and return
    (thunks, context); yields (schedule, result, context) once per distinct complete
    schedule.  With `max_preemptions=k` only schedules with at most k pre-emptive switches
    (switching away from a thread that could have continued) are produced.
    """
    stack = [[]]
    count = 0
    while stack:
        prefix = stack.pop()
        thunks, context = make_thunks()
        res = run(thunks, prefix, codes, timeout=timeout, between=between)
        sched = [t for t, _ in res["trace"]]
        yield sched, res, context
        count += 1
        if limit is not None and count >= limit:
            return
        if res["stuck"] or res["bad_prefix"] is not None:
            continue
        # alternatives at every decision point at or after the end of the prefix
        for pos in range(len(sched) - 1, len(prefix) - 1, -1):
            for alt in res["alive"][pos]:
                if alt == sched[pos]:
                    continue
                cand = sched[:pos] + [alt]
                if max_preemptions is not None and preemptions(cand, res["alive"][: pos + 1]) > max_preemptions:
                    continue
                stack.append(cand)


def preemptions(sched, alive):
    k = 0
    for i in range(1, len(sched)):
        if sched[i] != sched[i - 1] and sched[i - 1] in alive[i]:
            k += 1
    return k
