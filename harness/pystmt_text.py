"""Python statements -> Lean program translator (statement-level companion of harness/pyexpr.py).

pyexpr.py lifts single *expressions* (guards, arithmetic) out of the source; the control flow around them
stays hand-written in the model.  This module translates a *block of statements* of a text-processing
function into a Lean definition in the `Except Exc` monad, so that the sequence of tests, strips, slices,
early returns and fall-throughs of the model is regenerated from the working tree on every run as well.

Supported subset (anything else raises `Untranslatable` -> the extractor degrades to its pinned text):

  statements   `x = e`            let-binding (monadic bind when `e` can raise); re-assignment shadows
               `return e`         `e` is `None` or `datetime.datetime(*map(int, [s1, ...]))`
               `if t: body`       (no `else`/`elif`) in three shapes, chosen from the body:
                                    body always returns      ->  `if t then BODY else REST`
                                    body only assigns (pure) ->  `let x := if t then e else x; REST`
                                    otherwise                ->  REST becomes a separate *join point* definition
                                                                 `<name>_jN (live variables)`, called from the
                                                                 fall-through of BODY and from the else branch
               fall-through at the end of the block = the statements that follow it in the function
  expressions  names (typed: str / int), int constants, one-character str constants (as `Char`),
               `len(s)`, `s[i]` (constant i, negative allowed; may raise IndexError), `s[a:b]`, `s.split(c)[0]`,
               `c in s`, comparisons == != < <= > >= (chains of pure operands), `x in (a, b)`, `x not in (a, b)`,
               `and` / `or` / `not` with Python's short-circuit order also when an operand can raise.

Python semantics of the primitives is defined once in `Model/IsoPrim.lean` (`pyIdx`, `pySlice`, `pySplitHead`,
`pyAnd`, `pyOr`, `datetimeOfStrs`); the translation itself is purely structural.
"""
import ast


class Untranslatable(Exception):
    pass


CMP = {ast.Lt: "<", ast.LtE: "≤", ast.Gt: ">", ast.GtE: "≥", ast.Eq: "=", ast.NotEq: "≠"}
LEAN_TYPE = {"str": "List Char", "int": "Int", "bool": "Bool", "char": "Char"}


def lean_char(c):
    if len(c) != 1:
        raise Untranslatable("string constant %r" % c)
    return {"'": "'\\''", "\\": "'\\\\'", "\n": "'\\n'", "\t": "'\\t'", "\r": "'\\r'"}.get(c, "'%s'" % c if 32 <= ord(c) < 127 else "(Char.ofNat %d)" % ord(c))


def lean_int(n):
    return "%d" % n if n >= 0 else "(%d)" % n


class E:
    """A translated expression: Lean text, type, and whether it is an `Except Exc _` computation."""

    def __init__(self, text, ty, eff=False):
        self.text, self.ty, self.eff = text, ty, eff


class Program:
    def __init__(self, name, params, result_type="Except Exc (Option DateTime)", none_result=".ok none"):
        self.name = name
        self.params = list(params)  # [(python name, type)]
        self.result_type = result_type
        self.none_result = none_result
        self.defs = []  # (def name, doc, params, body text) in dependency order
        self.tmp = 0
        self.joins = 0

    # ------------------------------------------------------------------ expressions

    def fresh(self):
        self.tmp += 1
        return "t%d" % self.tmp

    def const_int(self, n):
        if isinstance(n, ast.Constant) and type(n.value) is int:
            return n.value
        if isinstance(n, ast.UnaryOp) and isinstance(n.op, ast.USub) and isinstance(n.operand, ast.Constant) and type(n.operand.value) is int:
            return -n.operand.value
        raise Untranslatable("not an integer constant: %s" % ast.unparse(n))

    def expr(self, n, env):
        if isinstance(n, ast.Name):
            if n.id not in env:
                raise Untranslatable("unknown name %s" % n.id)
            return E(n.id, env[n.id])
        if isinstance(n, ast.Constant):
            if type(n.value) is int:
                return E(lean_int(n.value), "int")
            if type(n.value) is str and len(n.value) == 1:
                return E(lean_char(n.value), "char")
            raise Untranslatable("constant %r" % (n.value,))
        if isinstance(n, ast.UnaryOp) and isinstance(n.op, ast.USub):
            return E(lean_int(self.const_int(n)), "int")
        if isinstance(n, ast.Call) and isinstance(n.func, ast.Name) and n.func.id == "len" and len(n.args) == 1 and not n.keywords:
            a = self.expr(n.args[0], env)
            if a.ty != "str" or a.eff:
                raise Untranslatable("len of %s" % ast.unparse(n.args[0]))
            return E("(%s.length : Int)" % a.text, "int")
        if isinstance(n, ast.Subscript):
            # s.split(c)[0]
            v = n.value
            if (isinstance(v, ast.Call) and isinstance(v.func, ast.Attribute) and v.func.attr == "split" and len(v.args) == 1 and not v.keywords
                    and not isinstance(n.slice, ast.Slice) and self.const_int(n.slice) == 0):
                s = self.expr(v.func.value, env)
                c = self.expr(v.args[0], env)
                if s.ty != "str" or s.eff or c.ty != "char":
                    raise Untranslatable(ast.unparse(n))
                return E("pySplitHead %s %s" % (s.text, c.text), "str")
            s = self.expr(v, env)
            if s.ty != "str" or s.eff:
                raise Untranslatable("subscript of %s" % ast.unparse(v))
            if isinstance(n.slice, ast.Slice):
                if n.slice.step is not None:
                    raise Untranslatable("slice step")
                b = lambda x: "none" if x is None else "(some %s)" % lean_int(self.const_int(x))
                return E("pySlice %s %s %s" % (s.text, b(n.slice.lower), b(n.slice.upper)), "str")
            return E("pyIdx %s %s" % (s.text, lean_int(self.const_int(n.slice))), "char", eff=True)
        if isinstance(n, ast.Compare):
            return self.compare(n, env)
        if isinstance(n, ast.BoolOp):
            parts = [self.expr(v, env) for v in n.values]
            if any(p.ty != "bool" for p in parts):
                raise Untranslatable("non-boolean operand in %s" % ast.unparse(n))
            if not any(p.eff for p in parts):
                return E("(" + (" && " if isinstance(n.op, ast.And) else " || ").join(p.text for p in parts) + ")", "bool")
            f = "pyAnd" if isinstance(n.op, ast.And) else "pyOr"
            lift = lambda p: "(%s)" % p.text if p.eff else "(.ok (%s))" % p.text
            acc = lift(parts[-1])
            for p in reversed(parts[:-1]):
                acc = "(%s %s %s)" % (f, lift(p), acc)
            return E(acc[1:-1], "bool", eff=True)
        if isinstance(n, ast.UnaryOp) and isinstance(n.op, ast.Not):
            a = self.expr(n.operand, env)
            if a.ty != "bool":
                raise Untranslatable("not of a non-boolean")
            if a.eff:
                t = self.fresh()
                return E("(%s).bind fun %s => .ok (!%s)" % (a.text, t, t), "bool", eff=True)
            return E("!%s" % a.text, "bool")
        raise Untranslatable("%s: %s" % (type(n).__name__, ast.unparse(n)))

    def compare(self, n, env):
        """Comparisons become `decide (<Prop>)`; operands that can raise are bound first, left to right."""
        operands = [n.left] + list(n.comparators)
        if len(n.ops) > 1:
            es = [self.expr(o, env) for o in operands]
            if any(e.eff for e in es):
                raise Untranslatable("comparison chain with an operand that can raise")
            props = [self.relation(op, a, b, an, bn, env) for op, a, b, an, bn in zip(n.ops, es, es[1:], operands, operands[1:])]
            return E("decide (%s)" % " ∧ ".join(props), "bool")
        op, right = n.ops[0], n.comparators[0]
        # `c in s` for a str-typed right operand
        if isinstance(op, (ast.In, ast.NotIn)) and not isinstance(right, (ast.Tuple, ast.List)):
            c, s = self.expr(n.left, env), self.expr(right, env)
            if c.ty != "char" or s.ty != "str" or c.eff or s.eff:
                raise Untranslatable(ast.unparse(n))
            t = "%s.contains %s" % (s.text if s.text.isidentifier() else "(%s)" % s.text, c.text)
            return E(t if isinstance(op, ast.In) else "!(%s)" % t, "bool")
        left = self.expr(n.left, env)
        binds = []
        if left.eff:
            t = self.fresh()
            binds.append((left.text, t))
            left = E(t, left.ty)
        if isinstance(op, (ast.In, ast.NotIn)):
            alts = [self.expr(e, env) for e in right.elts]
            if not alts or any(a.eff or a.ty != left.ty for a in alts):
                raise Untranslatable(ast.unparse(n))
            if isinstance(op, ast.In):
                prop = " ∨ ".join("%s = %s" % (left.text, a.text) for a in alts)
            else:
                prop = " ∧ ".join("%s ≠ %s" % (left.text, a.text) for a in alts)
        else:
            r = self.expr(right, env)
            if r.eff:
                t = self.fresh()
                binds.append((r.text, t))
                r = E(t, r.ty)
            prop = self.relation(op, left, r, n.left, right, env)
        text = "decide (%s)" % prop
        if not binds:
            return E(text, "bool")
        text = ".ok (%s)" % text
        for comp, t in reversed(binds):
            text = "(%s).bind fun %s => %s" % (comp, t, text)
        return E(text, "bool", eff=True)

    def relation(self, op, a, b, an, bn, env):
        if type(op) not in CMP:
            raise Untranslatable("comparison %s" % type(op).__name__)
        if a.ty != b.ty or a.ty not in ("int", "char"):
            raise Untranslatable("comparison of %s with %s" % (a.ty, b.ty))
        if a.ty == "char" and not isinstance(op, (ast.Eq, ast.NotEq)):
            raise Untranslatable("ordering of characters")
        return "%s %s %s" % (a.text, CMP[type(op)], b.text)

    def result(self, n, env):
        """The value of a `return`: None, or datetime.datetime(*map(int, [strs]))."""
        if n is None or (isinstance(n, ast.Constant) and n.value is None):
            return self.none_result
        if (isinstance(n, ast.Call) and ast.unparse(n.func) == "datetime.datetime" and len(n.args) == 1 and not n.keywords
                and isinstance(n.args[0], ast.Starred)):
            m = n.args[0].value
            if (isinstance(m, ast.Call) and isinstance(m.func, ast.Name) and m.func.id == "map" and len(m.args) == 2
                    and ast.unparse(m.args[0]) == "int" and isinstance(m.args[1], (ast.List, ast.Tuple))):
                es = [self.expr(e, env) for e in m.args[1].elts]
                if any(e.ty != "str" or e.eff for e in es):
                    raise Untranslatable("map(int, ...) over something that is not a list of slices")
                return "datetimeOfStrs [%s]" % ", ".join(e.text for e in es)
        raise Untranslatable("return %s" % ast.unparse(n))

    # ------------------------------------------------------------------ statements

    @staticmethod
    def always_returns(stmts):
        return bool(stmts) and isinstance(stmts[-1], ast.Return)

    @staticmethod
    def has_return(stmts):
        return any(isinstance(x, ast.Return) for s in stmts for x in ast.walk(s))

    def block(self, stmts, env, rest, ind):
        """Lean text of `stmts` followed by the fall-through `rest` (a function (indent, env) -> text)."""
        if not stmts:
            if rest is None:
                raise Untranslatable("control reaches the end of a block that was taken to return")
            return rest(ind, env)
        s, tail = stmts[0], stmts[1:]
        pad = "  " * ind
        head = "%s-- %s\n" % (pad, ast.unparse(s).split("\n")[0])
        if isinstance(s, ast.Return):
            return head + pad + self.result(s.value, env) + "\n"
        if isinstance(s, ast.Assign) and len(s.targets) == 1 and isinstance(s.targets[0], ast.Name):
            x = s.targets[0].id
            e = self.expr(s.value, env)
            env2 = dict(env)
            env2[x] = e.ty
            if e.eff:
                return head + "%s(%s).bind fun %s =>\n" % (pad, e.text, x) + self.block(tail, env2, rest, ind)
            return head + "%slet %s : %s := %s\n" % (pad, x, LEAN_TYPE[e.ty], e.text) + self.block(tail, env2, rest, ind)
        if isinstance(s, ast.If) and not s.orelse:
            t = self.expr(s.test, env)
            if t.ty != "bool":
                raise Untranslatable("test is not boolean: %s" % ast.unparse(s.test))
            if t.eff:
                tv = self.fresh()
                open_ = "%s(%s).bind fun %s =>\n" % (pad, t.text, tv)
                cond = tv
            else:
                open_, cond = "", t.text
            if self.always_returns(s.body):
                return (head + open_ + "%sif %s then\n" % (pad, cond) + self.block(s.body, env, None, ind + 1)
                        + "%selse\n" % pad + self.block(tail, env, rest, ind))
            if not self.has_return(s.body):
                # pure assignments to already defined variables: a conditional re-binding
                out = head + open_
                env2 = dict(env)
                names = []
                for a in s.body:
                    if not (isinstance(a, ast.Assign) and len(a.targets) == 1 and isinstance(a.targets[0], ast.Name)):
                        raise Untranslatable("statement in an assign-only if: %s" % ast.unparse(a))
                    names.append(a.targets[0].id)
                if len(set(names)) != 1 or names[0] not in env:
                    raise Untranslatable("conditional assignment to %r" % (names,))
                x = names[0]
                cur = x
                for a in s.body:
                    e = self.expr(a.value, {**env2, x: env[x]})
                    if e.eff or e.ty != env[x]:
                        raise Untranslatable("conditional assignment that can raise / changes type")
                    if len(s.body) > 1:
                        raise Untranslatable("several conditional assignments")
                    cur = e.text
                out += "%s-- %s\n" % (pad, ast.unparse(s.body[0]))
                out += "%slet %s : %s := if %s then %s else %s\n" % (pad, x, LEAN_TYPE[env[x]], cond, cur, x)
                return out + self.block(tail, env2, rest, ind)
            # the body may return or fall through: the continuation becomes a join point, unless it is trivial
            trivial = len(tail) == 0 or (len(tail) == 1 and isinstance(tail[0], ast.Return) and self.result(tail[0].value, env) == self.none_result)
            if trivial:
                cont = lambda i, e: self.block(tail, e, rest, i)
            else:
                self.joins += 1
                jn = "%s_j%d" % (self.name, self.joins)
                live = list(env.items())
                body = self.block(tail, env, rest, 1)
                doc = "statements after `%s: ...` (join point; live variables: %s)" % (ast.unparse(s).split("\n")[0].rstrip(":"), ", ".join(k for k, _ in live))
                self.defs.append((jn, doc, live, body))

                def cont(i, e, jn=jn, live=live):
                    for k, ty in live:
                        if e.get(k) != ty:
                            raise Untranslatable("variable %s changes type before a join point" % k)
                    return "%s%s %s\n" % ("  " * i, jn, " ".join(k for k, _ in live))
            return (head + open_ + "%sif %s then\n" % (pad, cond) + self.block(s.body, env, cont, ind + 1)
                    + "%selse\n" % pad + cont(ind, env))
        raise Untranslatable("statement %s" % ast.unparse(s).split("\n")[0])

    def define(self, stmts, doc):
        env = dict(self.params)

        def end(i, e):
            raise Untranslatable("control reaches the end of the block")

        body = self.block(stmts, env, end, 1)
        self.defs.append((self.name, doc, self.params, body))

    def lean(self):
        out = ""
        for name, doc, params, body in self.defs:
            out += "/-- %s -/\n" % doc.replace("-/", "- /")
            out += "def %s %s : %s :=\n%s\n" % (name, " ".join("(%s : %s)" % (k, LEAN_TYPE[t]) for k, t in params), self.result_type, body)
        return out


# ====================================================================== dynamically typed functions (the casts)


class CastProgram:
    """Statement-level translation of a small, dynamically typed Python function (`parse_date`, `parse_time`,
    `parse_timestamp` of orso/types.py) into a Lean program over the primitives of `Model/IsoCastPrim.lean`.

    Every expression becomes an `Except Exc Val`, every block an `Except Exc (Option Val)` (`.ok (some v)`: returned v,
    `.ok none`: fell off the end, `.error e`: raised e).  Supported subset (anything else raises `Untranslatable`):

      statements   `n = e`, `return e`, `raise C(...)` / `raise C`, `pass`, `if t: ... [else: ...]`,
                   `try: ... except C / (C1, C2): ...` (one handler, no else/finally), a docstring
      expressions  names, `None`, `parse_iso(e)`, `e.date()`, `e.time()`, `e.decode("utf-8")`,
                   `datetime.time.fromisoformat(e)`, `a if t else b`
      tests        `isinstance(n, C)` / `isinstance(n, (C1, C2))`, `n is None`, `n is not None`, `not t`, `and`, `or`
    """

    CALLS = {"parse_iso": "callParseIso", "datetime.time.fromisoformat": "callTimeFromIso"}
    METHODS = {"date": "methDate", "time": "methTime"}

    def __init__(self, name, fn):
        self.defname, self.fn = name, fn
        a = fn.args
        if len(a.args) != 1 or a.vararg or a.kwonlyargs or a.posonlyargs or a.defaults or fn.decorator_list:
            raise Untranslatable("signature / decorators of %s" % fn.name)
        self.param = a.args[0].arg

    def cls(self, n):
        t = ast.unparse(n)
        if not all(p.isidentifier() for p in t.split(".")):
            raise Untranslatable("class expression %s" % t)
        return t

    def classes(self, n):
        elts = n.elts if isinstance(n, ast.Tuple) else [n]
        if not elts:
            raise Untranslatable("empty class tuple")
        return "[%s]" % ", ".join('"%s"' % self.cls(e) for e in elts)

    def var(self, n, env):
        if not isinstance(n, ast.Name) or n.id not in env:
            raise Untranslatable("not a variable in scope: %s" % ast.unparse(n))
        return n.id

    def test(self, n, env):
        if isinstance(n, ast.Call) and isinstance(n.func, ast.Name) and n.func.id == "isinstance" and len(n.args) == 2 and not n.keywords:
            return "pyIsInstance %s %s" % (self.var(n.args[0], env), self.classes(n.args[1]))
        if (isinstance(n, ast.Compare) and len(n.ops) == 1 and isinstance(n.ops[0], (ast.Is, ast.IsNot))
                and isinstance(n.comparators[0], ast.Constant) and n.comparators[0].value is None):
            t = "pyIsNone %s" % self.var(n.left, env)
            return t if isinstance(n.ops[0], ast.Is) else "!(%s)" % t
        if isinstance(n, ast.UnaryOp) and isinstance(n.op, ast.Not):
            return "!(%s)" % self.test(n.operand, env)
        if isinstance(n, ast.BoolOp):
            return "(" + (" && " if isinstance(n.op, ast.And) else " || ").join("(%s)" % self.test(v, env) for v in n.values) + ")"
        raise Untranslatable("test %s" % ast.unparse(n))

    def expr(self, n, env):
        if isinstance(n, ast.Name):
            return "pyVal %s" % self.var(n, env)
        if isinstance(n, ast.Constant) and n.value is None:
            return "pyVal .noneV"
        if isinstance(n, ast.IfExp):
            return "if %s then (%s) else (%s)" % (self.test(n.test, env), self.expr(n.body, env), self.expr(n.orelse, env))
        if isinstance(n, ast.Call) and not n.keywords:
            f = ast.unparse(n.func)
            if f in self.CALLS and len(n.args) == 1:
                return "(%s).bind %s" % (self.expr(n.args[0], env), self.CALLS[f])
            if isinstance(n.func, ast.Attribute):
                if n.func.attr in self.METHODS and not n.args:
                    return "(%s).bind %s" % (self.expr(n.func.value, env), self.METHODS[n.func.attr])
                if (n.func.attr == "decode" and len(n.args) == 1 and isinstance(n.args[0], ast.Constant)
                        and isinstance(n.args[0].value, str) and n.args[0].value.lower().replace("-", "") == "utf8"):
                    return "(%s).bind methDecode" % self.expr(n.func.value, env)
        raise Untranslatable("expression %s" % ast.unparse(n))

    def block(self, stmts, env, ind, top):
        pad = "  " * ind
        if not stmts:
            return pad + ".ok none\n"
        s, rest = stmts[0], stmts[1:]
        head = "%s-- %s\n" % (pad, ast.unparse(s).split("\n")[0])
        if isinstance(s, ast.Expr) and isinstance(s.value, ast.Constant) and isinstance(s.value.value, str):
            return self.block(rest, env, ind, top)
        if isinstance(s, ast.Assign) and len(s.targets) == 1 and isinstance(s.targets[0], ast.Name):
            x = s.targets[0].id
            if x in env and not top:
                raise Untranslatable("re-assignment of %s in a nested block" % x)
            return head + "%s(%s).bind fun %s =>\n" % (pad, self.expr(s.value, env), x) + self.block(rest, env | {x}, ind, top)
        if isinstance(s, ast.Return):
            one = "%spyReturn (%s)\n" % (pad + "  ", self.expr(s.value, env) if s.value is not None else "pyVal .noneV")
        elif isinstance(s, ast.Raise) and s.cause is None and s.exc is not None:
            c = s.exc
            if isinstance(c, ast.Call):
                for a in c.args:
                    if not isinstance(a, (ast.Constant, ast.JoinedStr)) or any(isinstance(v, ast.FormattedValue) for v in getattr(a, "values", [])):
                        raise Untranslatable("raise with a computed argument")
                if c.keywords:
                    raise Untranslatable("raise with keywords")
                c = c.func
            if not isinstance(c, ast.Name):
                raise Untranslatable("raise %s" % ast.unparse(s.exc))
            one = '%s(.error (excOfName "%s"))\n' % (pad + "  ", c.id)
        elif isinstance(s, ast.Pass):
            one = "%s(.ok none)\n" % (pad + "  ")
        elif isinstance(s, ast.If):
            one = ("%s(if %s then\n" % (pad + "  ", self.test(s.test, env)) + self.block(s.body, env, ind + 2, False)
                   + "%selse\n" % (pad + "  ") + self.block(s.orelse, env, ind + 2, False) + "%s)\n" % (pad + "  "))
        elif isinstance(s, ast.Try) and len(s.handlers) == 1 and not s.orelse and not s.finalbody and s.handlers[0].type is not None and s.handlers[0].name is None:
            one = ("%s(pyTry (\n" % (pad + "  ") + self.block(s.body, env, ind + 2, False) + "%s) %s (\n" % (pad + "  ", self.classes(s.handlers[0].type))
                   + self.block(s.handlers[0].body, env, ind + 2, False) + "%s))\n" % (pad + "  "))
        else:
            raise Untranslatable("statement %s" % ast.unparse(s).split("\n")[0])
        if not rest:
            return head + one
        return head + "%spySeq\n" % pad + one + "%s  (\n" % pad + self.block(rest, env, ind + 2, top) + "%s  )\n" % pad

    def lean(self):
        body = self.block(self.fn.body, {self.param}, 1, True)
        doc = "`%s` of orso/types.py, statement by statement" % self.fn.name
        return "/-- %s -/\ndef %s (%s : Val) : Except Exc (Option Val) :=\n%s\n" % (doc, self.defname, self.param, body)
