"""C13: the *control flow* of the streaming histogram's update path, lifted from the AST into Lean terms.

`Generated/DistogramFlow.lean` holds what `orso/profiler/distogram/__init__.py` says now about
  * `_trim`: whether the guard on the bin count is a loop (`while`) or a single test (`if`), and the guard itself;
  * `update`: the count guard, the two range tests that decide `index = 0` / `index = -1`, the count in the
    `bisect_left` key, the exact-hit test and the count it stores, the test that tries the in-place shortcut
    (`index > 0 and len(h.bins) >= h._bin_count`), the test that takes it (`in_place_index > 0`), the two bounds tests;
as Bool/number-valued definitions.  `Model/Distogram.lean` is the skeleton over them, `Lemmas/Distogram.lean` proves the
`*_def` equations that tie each one to the meaning the proofs use — so a changed operator or a loop turned into a
single test breaks a named lemma *and* is followed by the executable model.  A statement that is not found in the
expected shape degrades to the pinned text (`o.item`), never alarms.
"""
import ast
import re

from ..extract import HEADER, Src
from ..pyexpr import find_function, to_lean
from .c13expr import lean as lean_field
from .c13expr import one

PIN = {
    "trim.turns": "n",
    "trim.guard": "(len > cap)",
    "update.count_bad": "(count ≤ 0)",
    "update.first": "(value ≤ first)",
    "update.last": "(value ≥ last)",
    "update.bisect_key_count": "1",
    "update.hit_test": "(eqK vi value)",
    "update.hit_count": "(fi + count)",
    "update.in_place_try": "((index > 0) ∧ (len ≥ cap))",
    "update.in_place_take": "(i > 0)",
    "update.bump_min": "(m > value)",
    "update.bump_max": "(m < value)",
}


def nows(node):
    return ast.unparse(node).replace(" ", "")


def generate(o):
    src = Src("orso/profiler/distogram/__init__.py")

    def fn(name, cls=None):
        return find_function(src.tree, name, cls)

    def body_of(f):
        b = list(f.body)
        if b and isinstance(b[0], ast.Expr) and isinstance(getattr(b[0], "value", None), ast.Constant) and isinstance(b[0].value.value, str):
            b = b[1:]
        return b

    # ---- _trim: `while len(h.bins) > h._bin_count:` ... `return h`
    def trim_head():
        b = body_of(fn("_trim"))
        if len(b) != 2 or not isinstance(b[1], ast.Return) or nows(b[1].value) != "h":
            raise KeyError("_trim: guard statement + return h")
        g = b[0]
        if not isinstance(g, (ast.While, ast.If)) or g.orelse:
            raise KeyError("_trim: while/if without else")
        if "len(h.bins)" not in nows(g.test) or "h._bin_count" not in nows(g.test):
            raise KeyError("_trim: guard on len(h.bins) and h._bin_count")
        return g

    def trim_turns():
        return "n" if isinstance(trim_head(), ast.While) else "(min n 1)"

    def trim_guard():
        return to_lean(trim_head().test, {"len(h.bins)": "len", "h._bin_count": "cap"}, mode="int")

    v = {}
    v["trim.turns"] = o.item("distogram.flow.trim.turns", trim_turns, PIN["trim.turns"])
    v["trim.guard"] = o.item("distogram.flow.trim.guard", trim_guard, PIN["trim.guard"])

    # ---- update
    def upd():
        return body_of(fn("update"))

    def count_bad():
        g = [n for n in upd() if isinstance(n, ast.If) and len(n.body) == 1 and isinstance(n.body[0], ast.Raise) and not n.orelse]
        return lean_field(one(g, "update: if count <= 0: raise").test, {"count": "count"})

    def nonempty_block():
        g = [n for n in upd() if isinstance(n, ast.If) and nows(n.test) == "len(h.bins)>0" and not n.orelse]
        return one(g, "update: if len(h.bins) > 0").body

    def chain():
        c = [n for n in nonempty_block() if isinstance(n, ast.If) and len(n.body) == 1 and nows(n.body[0]) == "index=0"]
        first = one(c, "update: if ...: index = 0")
        if len(first.orelse) != 1 or not isinstance(first.orelse[0], ast.If):
            raise KeyError("update: elif ...: index = -1")
        second = first.orelse[0]
        if len(second.body) != 1 or nows(second.body[0]) != "index=-1" or len(second.orelse) != 1:
            raise KeyError("update: elif ...: index = -1 / else")
        e = second.orelse[0]
        if not (isinstance(e, ast.Assign) and nows(e.targets[0]) == "index" and isinstance(e.value, ast.Call)
                and nows(e.value.func) == "bisect_left" and len(e.value.args) == 2 and nows(e.value.args[0]) == "h.bins"
                and isinstance(e.value.args[1], ast.Tuple) and len(e.value.args[1].elts) == 2
                and nows(e.value.args[1].elts[0]) == "value"):
            raise KeyError("update: index = bisect_left(h.bins, (value, k))")
        return first, second, e.value.args[1].elts[1]

    cenv = {"value": "value", "h.bins[0][0]": "first", "h.bins[-1][0]": "last"}

    def hit():
        blk = nonempty_block()
        unpack = [i for i, n in enumerate(blk) if isinstance(n, ast.Assign) and nows(n) == "vi,fi=h.bins[index]"]
        i = one(unpack, "update: vi, fi = h.bins[index]")
        if i + 1 >= len(blk) or not isinstance(blk[i + 1], ast.If) or blk[i + 1].orelse:
            raise KeyError("update: if vi == value")
        h = blk[i + 1]
        if len(h.body) != 2 or not isinstance(h.body[1], ast.Return) or nows(h.body[1].value) != "h":
            raise KeyError("update: exact hit stores and returns h")
        st = h.body[0]
        if not (isinstance(st, ast.Assign) and nows(st.targets[0]) == "h.bins[index]" and isinstance(st.value, ast.Tuple)
                and len(st.value.elts) == 2 and nows(st.value.elts[0]) in ("_caster(vi)", "vi")):
            raise KeyError("update: h.bins[index] = (_caster(vi), ...)")
        return h.test, st.value.elts[1]

    def in_place():
        g = [n for n in upd() if isinstance(n, ast.If) and not n.orelse and n.body and isinstance(n.body[0], ast.Assign)
             and nows(n.body[0].targets[0]) == "in_place_index"]
        outer = one(g, "update: if index > 0 and len(h.bins) >= h._bin_count")
        if nows(outer.body[0].value) != "_search_in_place_index(h,value,index)" or len(outer.body) != 2:
            raise KeyError("update: in_place_index = _search_in_place_index(h, value, index)")
        inner = outer.body[1]
        if not isinstance(inner, ast.If) or inner.orelse or "in_place_index" not in nows(inner.test):
            raise KeyError("update: if in_place_index > 0")
        if not (len(inner.body) == 2 and nows(inner.body[0]) == "h=_trim_in_place(h,value,count,in_place_index)"
                and isinstance(inner.body[1], ast.Return)):
            raise KeyError("update: h = _trim_in_place(...); return h")
        return outer.test, inner.test

    def bump(attr):
        def sets(n, a):
            return isinstance(n, ast.If) and len(n.body) == 1 and nows(n.body[0]) == "h.%s=value" % a

        other = "max" if attr == "min" else "min"
        top = upd()
        # two independent statements, or one `if … elif …` chain over the two bounds (which of the two it is is
        # `Gen.DistogramOps.bumpChained`, harness/extractors/c13ops.py): the test is lifted either way
        g = [n for n in top if sets(n, attr) and (not n.orelse or (len(n.orelse) == 1 and sets(n.orelse[0], other) and not n.orelse[0].orelse))]
        g += [n.orelse[0] for n in top if sets(n, other) and len(n.orelse) == 1 and sets(n.orelse[0], attr) and not n.orelse[0].orelse]
        t = one(g, "update: if (h.%s is None) or ...: h.%s = value" % (attr, attr)).test
        if not (isinstance(t, ast.BoolOp) and isinstance(t.op, ast.Or) and len(t.values) == 2 and nows(t.values[0]) == "h.%sisNone" % attr):
            raise KeyError("update: (h.%s is None) or (...)" % attr)
        return lean_field(t.values[1], {"h.%s" % attr: "m", "value": "value"})

    v["update.count_bad"] = o.item("distogram.flow.update.count_bad", count_bad, PIN["update.count_bad"])
    v["update.first"] = o.item("distogram.flow.update.first", lambda: lean_field(chain()[0].test, cenv), PIN["update.first"])
    v["update.last"] = o.item("distogram.flow.update.last", lambda: lean_field(chain()[1].test, cenv), PIN["update.last"])
    v["update.bisect_key_count"] = o.item("distogram.flow.update.bisect_key_count", lambda: lean_field(chain()[2], {}), PIN["update.bisect_key_count"])
    v["update.hit_test"] = o.item("distogram.flow.update.hit_test", lambda: lean_field(hit()[0], {"vi": "vi", "value": "value"}), PIN["update.hit_test"])
    v["update.hit_count"] = o.item("distogram.flow.update.hit_count", lambda: lean_field(hit()[1], {"fi": "fi", "count": "count"}), PIN["update.hit_count"])
    ienv = {"index": "index", "len(h.bins)": "len", "h._bin_count": "cap", "in_place_index": "i"}
    v["update.in_place_try"] = o.item("distogram.flow.update.in_place_try", lambda: to_lean(in_place()[0], ienv, mode="int"), PIN["update.in_place_try"])
    v["update.in_place_take"] = o.item("distogram.flow.update.in_place_take", lambda: to_lean(in_place()[1], ienv, mode="int"), PIN["update.in_place_take"])
    v["update.bump_min"] = o.item("distogram.flow.update.bump_min", lambda: bump("min"), PIN["update.bump_min"])
    v["update.bump_max"] = o.item("distogram.flow.update.bump_max", lambda: bump("max"), PIN["update.bump_max"])

    # ---- emit
    hdr = HEADER + '''import OrsoVerif.Generated.DistogramExpr
/-!
Control flow of `orso/profiler/distogram/__init__.py` (`_trim`, `update`): loop kind, guards and tests, translated from
the working tree (harness/extractors/c13flow.py).
-/
namespace Gen.DistogramFlow
open Gen.DistogramExpr (eqK)
set_option linter.unusedVariables false

variable {K : Type} [Add K] [Sub K] [Mul K] [Div K] [LT K] [LE K]
  [DecidableLT K] [DecidableLE K] [OfNat K 0] [OfNat K 1] [OfNat K 2]

'''
    defs = []

    def d(doc, name, params, pty, ty, key, prop=False):
        text = v[key]
        free = set(re.findall(r"[A-Za-z_][A-Za-z0-9_]*", text)) - {"eqK", "if", "then", "else", "min", "max"}
        if not free <= set(params):
            o.degraded.append("distogram.flow.%s (uses %s)" % (key, sorted(free - set(params))))
            text = PIN[key]
        if prop:
            ty, text = "Bool", "decide %s" % text
        sig = (" (%s : %s)" % (" ".join(params), pty)) if params else ""
        defs.append("/-- %s -/\ndef %s%s : %s := %s\n" % (doc, name, sig, ty, text))

    d("`_trim`: turns of the guard for `n` bins — `n` for a `while` loop (one bin disappears per turn), at most one for an `if`",
      "trimTurns", ["n"], "Nat", "Nat", "trim.turns")
    d("`_trim`: the guard on the number of bins", "trimGuard", ["len", "cap"], "Nat", "Prop", "trim.guard", True)
    d("`update`: the count is rejected", "updCountBad", ["count"], "K", "Prop", "update.count_bad", True)
    d("`update`: the value is not above the first centre (`index = 0`)", "updFirst", ["value", "first", "last"], "K", "Prop", "update.first", True)
    d("`update`: the value is not below the last centre (`index = -1`)", "updLast", ["value", "first", "last"], "K", "Prop", "update.last", True)
    d("`update`: the count in the `bisect_left` key `(value, k)`", "bisectKeyCount", [], "K", "K", "update.bisect_key_count")
    d("`update`: the bin found holds exactly the value", "hitTest", ["vi", "value"], "K", "Bool", "update.hit_test")
    d("`update`: the count stored by an exact hit", "hitCount", ["fi", "count"], "K", "K", "update.hit_count")
    d("`update`: the in-place shortcut is tried (`index` is Python's: -1 for an append)", "inPlaceTry", ["index", "len", "cap"], "Int", "Prop", "update.in_place_try", True)
    d("`update`: the in-place answer is taken", "inPlaceTake", ["i"], "Int", "Prop", "update.in_place_take", True)
    d("`update`: the minimum is replaced by the value", "bumpMin", ["m", "value"], "K", "Prop", "update.bump_min", True)
    d("`update`: the maximum is replaced by the value", "bumpMax", ["m", "value"], "K", "Prop", "update.bump_max", True)
    o.files["DistogramFlow.lean"] = hdr + "\n".join(defs) + "\nend Gen.DistogramFlow\n"
