/-- statements after `if '+' in value: ...` (join point; live variables: value) -/
def textBranch_j1 (value : List Char) : Except Exc (Option DateTime) :=
  -- val_len = len(value)
  let val_len : Int := (value.length : Int)
  -- if value[4] != '-' or value[7] != '-':
  (pyOr ((pyIdx value 4).bind fun t3 => .ok (decide (t3 ≠ '-'))) ((pyIdx value 7).bind fun t4 => .ok (decide (t4 ≠ '-')))).bind fun t5 =>
  if t5 then
    -- return None
    .ok none
  else
  -- if val_len == 10:
  if decide (val_len = 10) then
    -- return datetime.datetime(*map(int, [value[:4], value[5:7], value[8:10]]))
    datetimeOfStrs [pySlice value none (some 4), pySlice value (some 5) (some 7), pySlice value (some 8) (some 10)]
  else
  -- if val_len >= 16:
  if decide (val_len ≥ 16) then
    -- if value[10] not in ('T', ' ') and value[13] != ':':
    (pyAnd ((pyIdx value 10).bind fun t6 => .ok (decide (t6 ≠ 'T' ∧ t6 ≠ ' '))) ((pyIdx value 13).bind fun t7 => .ok (decide (t7 ≠ ':')))).bind fun t8 =>
    if t8 then
      -- return None
      .ok none
    else
    -- if val_len >= 19 and value[16] == ':':
    (pyAnd (.ok (decide (val_len ≥ 19))) ((pyIdx value 16).bind fun t9 => .ok (decide (t9 = ':')))).bind fun t10 =>
    if t10 then
      -- return datetime.datetime(*map(int, [value[:4], value[5:7], value[8:10], value[11:13], value[14:16], value[17:19]]))
      datetimeOfStrs [pySlice value none (some 4), pySlice value (some 5) (some 7), pySlice value (some 8) (some 10), pySlice value (some 11) (some 13), pySlice value (some 14) (some 16), pySlice value (some 17) (some 19)]
    else
    -- if val_len == 16:
    if decide (val_len = 16) then
      -- return datetime.datetime(*map(int, [value[:4], value[5:7], value[8:10], value[11:13], value[14:16]]))
      datetimeOfStrs [pySlice value none (some 4), pySlice value (some 5) (some 7), pySlice value (some 8) (some 10), pySlice value (some 11) (some 13), pySlice value (some 14) (some 16)]
    else
    -- return None
    .ok none
  else
  -- return None
  .ok none

/-- `parse_iso`'s string branch: `if input_type == str and 10 <= len(value) <= 33: ...` and the statements after it -/
def textBranch (value : List Char) : Except Exc (Option DateTime) :=
  -- if 10 <= len(value) <= 33:
  if decide (10 ≤ (value.length : Int) ∧ (value.length : Int) ≤ 33) then
    -- if value[-1] == 'Z':
    ((pyIdx value (-1)).bind fun t1 => .ok (decide (t1 = 'Z'))).bind fun t2 =>
    -- value = value[:-1]
    let value : List Char := if t2 then pySlice value none (some (-1)) else value
    -- if '+' in value:
    if value.contains '+' then
      -- value = value.split('+')[0]
      let value : List Char := pySplitHead value '+'
      -- if not 10 <= len(value) <= 28:
      if !decide (10 ≤ (value.length : Int) ∧ (value.length : Int) ≤ 28) then
        -- return None
        .ok none
      else
      textBranch_j1 value
    else
    textBranch_j1 value
  else
  -- return None
  .ok none

