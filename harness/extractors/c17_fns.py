"""C17: the schema operations of orso/schema.py translated *function by function* into Lean
(`Generated/SchemaFns.lean`, namespace `Gen.SchemaFns`) by harness/pystmt.py on every run.

`Props/C17.lean` proves each generated function equal to the hand-written model in Model/SchemaOps.lean
(`generated_*_eq_model`), so every C17 theorem is a theorem about what the source says now.  A shape the
translator does not know degrades to the pinned text below (the translation of the pinned tree).
"""
import ast
import json
import os

from .. import core, pystmt
from ..extract import HEADER, Src, lean_str
from ..pyexpr import Untranslatable

PINNED = {}


MUTABLE = {"self.columns": "cols_"}


# what a `str` can be asked besides being compared: the translation passes these on as *parameters* (`S : StrOps ν`)
STR_PREDS = {"isdigit", "isdecimal", "isnumeric", "isalpha", "isalnum", "isascii", "isidentifier", "islower", "isupper", "isspace",
             "istitle", "isprintable", "startswith", "endswith"}
STR_FNS = {"strip", "lstrip", "rstrip", "upper", "lower", "casefold", "title", "capitalize", "swapcase", "removeprefix", "removesuffix",
           "zfill", "replace", "ljust", "rjust", "center", "expandtabs"}


def _str_method(n):
    """`x.isdecimal()`, `x.startswith('_')`, `x.strip()` …: (kind, label) with constant arguments inside the label"""
    if not (isinstance(n, ast.Call) and isinstance(n.func, ast.Attribute) and not n.keywords):
        return None
    a = n.func.attr
    if a not in STR_PREDS and a not in STR_FNS:
        return None
    if not all(isinstance(x, ast.Constant) and isinstance(x.value, (str, int)) and not isinstance(x.value, bool) for x in n.args):
        return None
    label = a if not n.args else "%s(%s)" % (a, ", ".join(repr(x.value) for x in n.args))
    return ("pred" if a in STR_PREDS else "fn"), label


def _is_find_call(n):
    return isinstance(n, ast.Call) and ast.unparse(n.func) == "self.find_column" and 1 <= len(n.args) <= 2 and not n.keywords


# what a column carries besides its name and aliases: in the functions that look columns up *by name* these are not
# names; the translation reads them through the parameter `T : ColText ι ν` (`T.attr "identity" column`)
COL_TEXT_ATTRS = {"identity", "description", "type", "element_type", "origin", "default", "disposition", "expectations", "nullable",
                  "length", "precision", "scale", "highest_value", "lowest_value", "null_count"}


def _hook_factory(state):
    """`state`: a dict the statement hooks write to (`key_kind`: what the argument of `column(i)` is known to be)."""
    def hook(n, go):
        if state.get("strops"):
            # a string literal / a question asked of a string: parameters of the translation (`StrOps`)
            if isinstance(n, ast.Constant) and isinstance(n.value, str):
                return "(S.lit %s)" % lean_str(n.value)
            sm = _str_method(n)
            if sm is not None and not (sm[1] == "lower" and state.get("has_lower")):
                return "(S.%s %s %s)" % (sm[0], lean_str(sm[1]), go(n.func.value))
            # int(x): in a branch where x is known to be an int it is x; on a name it is `S.toInt` (hoisted by the
            # statement hook, which also renders the ValueError); anywhere else it is not translated
            if isinstance(n, ast.Call) and isinstance(n.func, ast.Name) and n.func.id == "int" and len(n.args) == 1 and not n.keywords \
                    and isinstance(n.args[0], ast.Name):
                x = n.args[0].id
                if state.get("key_kind", {}).get(x) == "int":
                    return go(n.args[0])
                if x in state.get("int_of", {}):
                    return state["int_of"][x]
                raise Untranslatable("int(%s) outside a statement the translator can guard" % x)
        if state.get("strops"):
            ex_ = state["ex"]
            # column.identity, column.description, str(column), repr(column) … where columns are looked up by name
            if isinstance(n, ast.Attribute) and n.attr in COL_TEXT_ATTRS and isinstance(n.value, ast.Name) \
                    and (n.value.id in ex_.bound or n.value.id in ex_.records) and n.value.id not in ("self", "other"):
                return "(T.attr %s %s)" % (lean_str(n.attr), go(n.value))
            if isinstance(n, ast.Call) and isinstance(n.func, ast.Name) and n.func.id in ("str", "repr") and len(n.args) == 1 and not n.keywords \
                    and isinstance(n.args[0], ast.Name) and n.args[0].id in ex_.bound and n.args[0].id not in state.get("key_kind", {}) \
                    and n.args[0].id not in ("column_name",):
                return "(T.attr %s %s)" % (lean_str("__%s__" % n.func.id), go(n.args[0]))
        # column.all_names  ->  the generated all_names applied to the column
        if isinstance(n, ast.Attribute) and n.attr == "all_names":
            return "(all_names %s)" % go(n.value)
        # self.find_column(name[, case_insensitive])  ->  the generated find_column (on the schema as it is *now*)
        if _is_find_call(n):
            ex = state["ex"]
            if "self.columns" in ex.mutated:
                raise Untranslatable("find_column after the column list was changed")
            if len(n.args) == 2 and not (isinstance(n.args[1], ast.Constant) and n.args[1].value is False):
                ci, low = go(n.args[1]), "lower"
                if not state.get("has_lower"):
                    raise Untranslatable("case-insensitive lookup in a function without `lower`")
            else:
                ci, low = "false", ("lower" if state.get("has_lower") else "id")
            a = n.args[0]
            if isinstance(a, ast.Name) and state.get("key_kind", {}).get(a.id) == "int":
                return "none"  # an int is never among the names: `5 in column.all_names` is False for every column
            return "(find_column S T %s self_ %s %s)" % (low, go(a), ci)
        # properties / methods of the schema that are generated too
        if isinstance(n, ast.Attribute) and ast.unparse(n) in ("self.column_names", "self.num_columns"):
            return "(%s self_)" % n.attr
        if isinstance(n, ast.Call) and ast.unparse(n.func) == "self.all_column_names" and not n.args and not n.keywords:
            return "(all_column_names self_)"
        # iter(xs) is the list it iterates
        if isinstance(n, ast.Call) and isinstance(n.func, ast.Name) and n.func.id == "iter" and len(n.args) == 1 and not n.keywords:
            return go(n.args[0])
        # RelationSchema(name=…, aliases=…, columns=…)
        if isinstance(n, ast.Call) and isinstance(n.func, ast.Name) and n.func.id == "RelationSchema":
            kw = {k.arg: go(k.value) for k in n.keywords}
            for pos, a in zip(("name", "aliases", "columns"), n.args):
                if pos in kw:
                    raise Untranslatable("RelationSchema: %s given twice" % pos)
                kw[pos] = go(a)
            if len(n.args) > 3 or set(kw) != {"name", "aliases", "columns"}:
                raise Untranslatable("RelationSchema(%s)" % ", ".join(sorted(k for k in kw if k)))
            return "({ name := %s, aliases := %s, columns := %s } : Schema ι ν)" % (kw["name"], kw["aliases"], kw["columns"])
        return None
    return hook


def _ex(extra_env=None, records=(), listy=(), has_lower=False, strops=False):
    env = {"self.columns": "self_.columns", "self.name": "self_.name", "self.aliases": "self_.aliases",
           "other.columns": "other.columns", "other.name": "other.name", "other.aliases": "other.aliases", "self": "self_"}
    env.update(extra_env or {})
    state = {"has_lower": has_lower, "strops": strops}
    ex = pystmt.Expr(env=env, records=set(records) | {"column", "col", "c"}, methods={"lower": "lower"},
                     hook=_hook_factory(state), listy=set(listy) | {"self.columns", "other.columns", "self.aliases", "other.aliases"},
                     optlist_attrs={"aliases"}, opt_hook=_is_find_call)
    state["ex"] = ex
    ex.c17 = state
    return ex


def t_all_names(sch):
    fn = sch.func("all_names", "FlatColumn")
    # `self.aliases` is Optional[List[str]]: under `is not None` the list is its payload
    ex = pystmt.Expr(env={"self.name": "self_.name"}, listy={"self.aliases"},
                     hook=lambda n, go: ("(self_.aliases.getD [])" if ast.unparse(n) == "self.aliases" else None))
    saved_go = ex.go

    def go(n):
        if isinstance(n, ast.Compare) and ast.unparse(n.left) == "self.aliases" and len(n.ops) == 1 \
                and isinstance(n.comparators[0], ast.Constant) and n.comparators[0].value is None:
            if isinstance(n.ops[0], ast.IsNot):
                return "(self_.aliases ≠ none)"
            if isinstance(n.ops[0], ast.Is):
                return "(self_.aliases = none)"
        return saved_go(n)
    ex.go = go
    return pystmt.function(fn, "all_names", [(None, "(self_ : Col ι ν)")], "List ν", ex, k="[]", fold_redex=True)


def _opt_ret(v, ex):
    """a returned Optional[FlatColumn]"""
    if v is None or ast.unparse(v) == "None":
        return "none"
    if ex.is_opt(v):
        return ex.go(v)
    return "some %s" % ex.go(v)


def t_find_column(sch):
    fn = sch.func("find_column", "RelationSchema")
    args = [a.arg for a in fn.args.args]
    if args != ["self", "column_name", "case_insensitive"]:
        raise Untranslatable("find_column%r" % (args,))
    ex = _ex(has_lower=True, strops=True)
    return pystmt.function(fn, "find_column",
                           [(None, "(S : StrOps ν)"), (None, "(T : ColText ι ν)"), (None, "(lower : ν → ν)"), (None, "(self_ : Schema ι ν)"),
                            ("column_name", "(column_name : ν)"),
                            ("case_insensitive", "(case_insensitive : Bool)")],
                           "Option (Col ι ν)", ex, ret=_opt_ret, k="none", fold_redex=True)


def t_pop_column(sch):
    fn = sch.func("pop_column", "RelationSchema")
    if [a.arg for a in fn.args.args] != ["self", "column_name"]:
        raise Untranslatable("pop_column signature")
    ex = _ex(strops=True)

    def ret(v, ex):
        cols = ex.env["self.columns"]
        if v is None or ast.unparse(v) == "None":
            return "(none, %s)" % cols
        if isinstance(v, ast.Call) and isinstance(v.func, ast.Attribute) and v.func.attr == "pop" \
                and ast.unparse(v.func.value) == "self.columns" and len(v.args) == 1 and not v.keywords:
            i = ex.go(v.args[0])
            return "((%s)[%s]?, (%s).eraseIdx %s)" % (cols, i, cols, i)
        return "(%s, %s)" % (_opt_ret(v, ex), cols)
    return pystmt.function(fn, "pop_column", [(None, "(S : StrOps ν)"), (None, "(T : ColText ι ν)"), (None, "(self_ : Schema ι ν)"),
                                                     ("column_name", "(column_name : ν)")],
                           "Option (Col ι ν) × List (Col ι ν)", ex, ret=ret, k=lambda ex: "(none, %s)" % ex.env["self.columns"],
                           mutable=MUTABLE, fold_redex=True)


def t_add(sch):
    fn = sch.func("__add__", "RelationSchema")
    if [a.arg for a in fn.args.args] != ["self", "other"]:
        raise Untranslatable("__add__ signature")
    ex = _ex(records={"other"})
    return pystmt.function(fn, "add", [(None, "(self_ : Schema ι ν)"), ("other", "(other : Schema ι ν)")], "Schema ι ν", ex,
                           ret=lambda v, ex: ex.go(v), k="self_", fold_redex=True)


def t_column_names(sch):
    fn = sch.func("column_names", "RelationSchema")
    return pystmt.function(fn, "column_names", [(None, "(self_ : Schema ι ν)")], "List ν", _ex(), ret=lambda v, ex: ex.go(v), k="[]", fold_redex=True)


def t_num_columns(sch):
    fn = sch.func("num_columns", "RelationSchema")
    return pystmt.function(fn, "num_columns", [(None, "(self_ : Schema ι ν)")], "Nat", _ex(), ret=lambda v, ex: ex.go(v), k="0", fold_redex=True)


def t_iter(sch):
    fn = sch.func("__iter__", "RelationSchema")
    return pystmt.function(fn, "iter_names", [(None, "(self_ : Schema ι ν)")], "List ν", _ex(), ret=lambda v, ex: ex.go(v), k="[]", fold_redex=True)


def t_iter_src(sch):
    """`__iter__` as the *iterator* it builds (`IterSrc`): an iterator over a list made when `__iter__` is called
    (`.eager names`: a snapshot nobody else can reach) or a lazy walk over the schema's own column list (`.walk item`:
    a generator expression, `map`, a `for … yield` body), which reads `self.columns[pos]` only when asked for the next
    name -- so a removal between two steps shows through.  `iter_names` above is what an uninterrupted iteration lists;
    this is what an interrupted one does."""
    fn = sch.func("__iter__", "RelationSchema")
    if [a.arg for a in fn.args.args] != ["self"]:
        raise Untranslatable("__iter__ signature")
    body = [b for b in fn.body if not (isinstance(b, ast.Expr) and isinstance(b.value, ast.Constant))]
    ex = _ex()

    def walk(target, elt, it, ifs=()):
        if ast.unparse(it) != "self.columns":
            raise Untranslatable("a lazy walk over %s" % ast.unparse(it))
        if ifs:
            raise Untranslatable("a filtered lazy walk")
        if not isinstance(target, ast.Name):
            raise Untranslatable("a lazy walk with the target %s" % ast.unparse(target))
        saved = ex.typestate()
        ex.bound.add(target.id)
        try:
            e = ex.go(elt)
        finally:
            ex.restore(saved)
        return ".walk (fun %s => %s)" % (target.id, e)

    def lazy(e):
        if isinstance(e, ast.GeneratorExp) and len(e.generators) == 1 and not e.generators[0].is_async:
            g = e.generators[0]
            return walk(g.target, e.elt, g.iter, g.ifs)
        if isinstance(e, ast.Call) and isinstance(e.func, ast.Name) and e.func.id == "map" and len(e.args) == 2 and not e.keywords \
                and isinstance(e.args[0], ast.Lambda):
            a = e.args[0].args
            if len(a.args) == 1 and not (a.posonlyargs or a.kwonlyargs or a.vararg or a.kwarg or a.defaults):
                return walk(ast.Name(id=a.args[0].arg, ctx=ast.Load()), e.args[0].body, e.args[1])
        return None

    def own_list(e):
        """an expression that builds a list nobody else holds"""
        if isinstance(e, (ast.ListComp, ast.List)):
            return True
        if isinstance(e, ast.BinOp) and isinstance(e.op, ast.Add):
            return True
        if isinstance(e, ast.Call) and isinstance(e.func, ast.Name) and e.func.id in ("list", "sorted", "tuple") and not e.keywords:
            return True
        if isinstance(e, ast.Subscript) and isinstance(e.slice, ast.Slice):
            return True
        return ast.unparse(e) in ("self.column_names", "self.all_column_names()")

    sig = "def iter_src (self_ : Schema ι ν) : IterSrc ι ν :=\n  %s\n"
    inner = [n for b in body for n in ast.walk(b)]
    if any(isinstance(n, (ast.Yield, ast.YieldFrom)) for n in inner):
        if len(body) == 1 and isinstance(body[0], ast.For) and not body[0].orelse and len(body[0].body) == 1 \
                and isinstance(body[0].body[0], ast.Expr) and isinstance(body[0].body[0].value, ast.Yield) \
                and body[0].body[0].value.value is not None:
            return sig % walk(body[0].target, body[0].body[0].value.value, body[0].iter)
        raise Untranslatable("__iter__ is a generator function of a shape the translator does not know")
    if len(body) != 1 or not isinstance(body[0], ast.Return) or body[0].value is None:
        raise Untranslatable("__iter__ is not a single return")
    e = body[0].value
    if isinstance(e, ast.Call) and isinstance(e.func, ast.Name) and e.func.id == "iter" and len(e.args) == 1 and not e.keywords:
        e = e.args[0]
        term = lazy(e)
        if term is None:
            if not own_list(e):
                raise Untranslatable("iter(%s): not known to be a list of its own" % ast.unparse(e))
            term = ".eager (%s)" % ex.go(e)
    else:
        term = lazy(e)
        if term is None:
            raise Untranslatable("__iter__ returns %s" % ast.unparse(e))
    return sig % term


def t_column(sch):
    """`column(i)`: the run-time type test on the argument becomes a `match` on `Key` (`int` / `bool` / `str`).

    Inside an arm the constructor is known, so every further type test on the argument is *decided* (with Python's
    short-circuit rules), whatever else the test asks of the name (`i.isdecimal()`, `i.startswith('#')` …) goes to the
    `StrOps` parameter, and `int(i)` on a name is `S.toInt i`, evaluated where Python evaluates it, `ValueError` being a
    value (`.error "ValueError"`): the function returns `Except String (Out ι ν)`."""
    fn = sch.func("column", "RelationSchema")
    args = [a.arg for a in fn.args.args]
    if len(args) != 2 or args[0] != "self":
        raise Untranslatable("column%r" % (args,))
    arg = args[1]
    for n in ast.walk(fn):
        if isinstance(n, ast.Name) and n.id == arg and not isinstance(n.ctx, ast.Load):
            raise Untranslatable("%s is assigned to" % arg)
    ex = _ex(strops=True)
    state = ex.c17
    state["key_kind"] = {}   # python name -> "int" / "str": what it is known to be in the arm being translated
    state["key_ctor"] = {}   # the argument -> constructor of `Key` of the arm being translated
    state["int_of"] = {}     # python name x -> Lean name of the value of int(x), where it has been evaluated

    def type_test(t):
        """(class names, how) for isinstance(i, C) / isinstance(i, (C, D)) / type(i) is C / type(i) in (C, D); else None"""
        if isinstance(t, ast.Call) and isinstance(t.func, ast.Name) and t.func.id == "isinstance" and len(t.args) == 2 and not t.keywords \
                and isinstance(t.args[0], ast.Name) and t.args[0].id == arg:
            c = t.args[1]
            if isinstance(c, ast.Name):
                return (True, [c.id], "isinstance")
            if isinstance(c, ast.Tuple) and c.elts and all(isinstance(e, ast.Name) for e in c.elts):
                return (True, [e.id for e in c.elts], "isinstance")
            raise Untranslatable("type test %s" % ast.unparse(t))
        if isinstance(t, ast.Compare) and len(t.ops) == 1 and ast.unparse(t.left) == "type(%s)" % arg:
            op, c = t.ops[0], t.comparators[0]
            if isinstance(op, (ast.Is, ast.Eq, ast.IsNot, ast.NotEq)) and isinstance(c, ast.Name):
                return (isinstance(op, (ast.Is, ast.Eq)), [c.id], "type")
            if isinstance(op, (ast.In, ast.NotIn)) and isinstance(c, (ast.Tuple, ast.List, ast.Set)) and c.elts \
                    and all(isinstance(e, ast.Name) for e in c.elts):
                return (isinstance(op, ast.In), [e.id for e in c.elts], "type")
            raise Untranslatable("type test %s" % ast.unparse(t))
        return None

    def has_type_test(t):
        for n in ast.walk(t):
            try:
                if type_test(n) is not None:
                    return True
            except Untranslatable:
                return True
        return False

    # which constructors of Key pass the test: isinstance(True, int) holds, type(True) is int does not
    PASS = {("isinstance", "int"): {"idx", "flag"}, ("isinstance", "bool"): {"flag"}, ("isinstance", "str"): {"name"},
            ("type", "int"): {"idx"}, ("type", "bool"): {"flag"}, ("type", "str"): {"name"}}

    def const(v):
        return ast.copy_location(ast.Constant(value=v), ast.parse("0").body[0])

    def simplify(t):
        """decide the type tests of the current arm; fold and / or / not the way Python short-circuits (what stands
        before a decided operand is still evaluated: it may raise)"""
        if isinstance(t, ast.UnaryOp) and isinstance(t.op, ast.Not):
            x = simplify(t.operand)
            if isinstance(x, ast.Constant) and isinstance(x.value, bool):
                return const(not x.value)
            return ast.UnaryOp(op=ast.Not(), operand=x)
        if isinstance(t, ast.BoolOp):
            absorbing = isinstance(t.op, ast.Or)   # `or` stops at the first true operand, `and` at the first false one
            vals = []
            for v in t.values:
                x = simplify(v)
                if isinstance(x, ast.Constant) and isinstance(x.value, bool):
                    if x.value is absorbing:
                        vals.append(x)
                        break
                    continue
                vals.append(x)
            if not vals:
                return const(not absorbing)
            return vals[0] if len(vals) == 1 else ast.BoolOp(op=t.op, values=vals)
        tt = type_test(t)
        if tt is None:
            # the argument itself as a condition: a number is true unless it is 0, a string unless it is empty
            if isinstance(t, ast.Name) and t.id == arg and arg in state["key_kind"]:
                zero = ast.Constant(value=0) if state["key_kind"][arg] == "int" else ast.Constant(value="")
                return ast.Compare(left=t, ops=[ast.NotEq()], comparators=[zero])
            return t
        pos, classes, how = tt
        passing = set()
        for cls in classes:
            if (how, cls) not in PASS:
                raise Untranslatable("type test against %s" % cls)
            passing |= PASS[(how, cls)]
        return const((state["key_ctor"][arg] in passing) == pos)

    def int_calls(e):
        """the `int(x)` calls on a *name* in expression e that Python evaluates whenever it evaluates e (not under and /
        or / a conditional expression / a comprehension / a lambda); any other one is refused"""
        plain, guarded = [], []

        def walk(n, under):
            if isinstance(n, ast.Call) and isinstance(n.func, ast.Name) and n.func.id == "int" and len(n.args) == 1 and not n.keywords \
                    and isinstance(n.args[0], ast.Name) and state["key_kind"].get(n.args[0].id) == "str" \
                    and n.args[0].id not in state["int_of"]:
                (guarded if under else plain).append(n.args[0].id)
                return
            if isinstance(n, ast.Call) and isinstance(n.func, ast.Name) and n.func.id == "int":
                a0 = n.args[0] if len(n.args) == 1 and not n.keywords else None
                if not (isinstance(a0, ast.Name) and (state["key_kind"].get(a0.id) == "int" or a0.id in state["int_of"])):
                    raise Untranslatable("int(...) of something that is not a plain name")
            for f, v in ast.iter_fields(n):
                for c in (v if isinstance(v, list) else [v]):
                    if isinstance(c, ast.AST):
                        walk(c, under or isinstance(n, (ast.BoolOp, ast.IfExp, ast.ListComp, ast.SetComp, ast.DictComp, ast.GeneratorExp, ast.Lambda)))

        walk(e, False)
        if guarded:
            raise Untranslatable("int(%s) under and / or / a conditional expression" % guarded[0])
        return list(dict.fromkeys(plain))

    def with_ints(names, depth, st, inner):
        """`match S.toInt x with | none => ValueError | some x_int => …` around what `inner(depth)` renders"""
        if not names:
            return inner(depth)
        x, more = names[0], names[1:]
        pad = st.ind * depth
        saved = ex.typestate()
        ex.bound.add(x + "_int")
        state["int_of"][x] = x + "_int"
        state["key_kind"][x + "_int"] = "int"
        try:
            body = with_ints(more, depth + 1, st, inner)
        finally:
            state["int_of"].pop(x, None)
            state["key_kind"].pop(x + "_int", None)
            ex.restore(saved)
        return "match S.toInt %s with\n%s| none => .error \"ValueError\"\n%s| some %s_int =>\n%s%s%s" % (
            ex.go(ast.Name(id=x, ctx=ast.Load())), pad, pad, x, pad, st.ind, body)

    def stmt_hook(s, rest, k, depth, st):
        pad = st.ind * depth
        if isinstance(s, ast.If) and arg not in state["key_ctor"]:
            if not has_type_test(s.test):
                return None
            # the first statement that asks what the argument is: one arm per constructor, this statement and
            # everything after it translated again inside each arm, where the answer is known
            arms = []
            for ctor, binder, kind, pre in (("idx", arg, "int", ""), ("flag", arg + "_flag", "int", "let %s := boolIndex %s_flag\n" % (arg, arg)),
                                            ("name", arg, "str", "")):
                state["key_kind"][arg] = kind
                state["key_ctor"][arg] = ctor
                try:
                    body = st.block([s] + rest, k, depth + 1)
                finally:
                    state["key_kind"].pop(arg, None)
                    state["key_ctor"].pop(arg, None)
                if pre:
                    body = pre + pad + st.ind + body
                arms.append("%s| .%s %s =>\n%s%s%s" % (pad, ctor, binder, pad, st.ind, body))
            return "match %s with\n%s" % (arg, "\n".join(arms))
        if arg not in state["key_ctor"]:
            return None
        if isinstance(s, ast.If) and not getattr(s, "_c17_done", False):
            t = simplify(s.test)
            if isinstance(t, ast.Constant) and isinstance(t.value, bool):
                return st.block(list(s.body if t.value else s.orelse) + rest, k, depth)
            if isinstance(t, ast.BoolOp) and isinstance(t.op, ast.And) and any(_has_int_call(v) for v in t.values):
                # `if a and b: X else: Y` is `if a: (if b: X else: Y) else: Y` -- so that int() in `b` runs only after `a`
                inner = ast.If(test=t.values[-1], body=s.body, orelse=s.orelse)
                for v in reversed(t.values[:-1]):
                    inner = ast.If(test=v, body=[inner], orelse=s.orelse)
                return st.block([inner] + rest, k, depth)
            new = ast.If(test=t, body=s.body, orelse=s.orelse)
            new._c17_done = True
            names = int_calls(t)
            return with_ints(names, depth, st, lambda d: st.block([new] + rest, k, d))
        if isinstance(s, (ast.Return, ast.Assign)) and s.value is not None and not getattr(s, "_c17_done", False):
            names = int_calls(s.value)
            if names:
                s._c17_done = True
                try:
                    return with_ints(names, depth, st, lambda d: st.block([s] + rest, k, d))
                finally:
                    s._c17_done = False
        return None

    def ret(v, ex):
        if v is None or ast.unparse(v) == "None":
            return ".ok (.col none)"
        # self.columns[i]: Python list indexing (negative indexes, IndexError)
        if isinstance(v, ast.Subscript) and ast.unparse(v.value) == "self.columns" and not isinstance(v.slice, ast.Slice):
            sl = v.slice
            known = (isinstance(sl, ast.Name) and state["key_kind"].get(sl.id) == "int") or (
                isinstance(sl, ast.Call) and isinstance(sl.func, ast.Name) and sl.func.id == "int" and len(sl.args) == 1
                and isinstance(sl.args[0], ast.Name) and (sl.args[0].id in state["int_of"] or state["key_kind"].get(sl.args[0].id) == "int"))
            if not known:
                raise Untranslatable("index %s is not known to be an int" % ast.unparse(sl))
            return ".ok (Out.ofIndex (pyIndex %s %s))" % (ex.go(v.value), ex.go(sl))
        return ".ok (.col (%s))" % _opt_ret(v, ex)

    real_go = ex.go

    def go(n):
        # the argument used as a value must be used at the type the branch knows
        if isinstance(n, ast.Name) and n.id == arg and arg not in state["key_kind"]:
            raise Untranslatable("%s used before its type is tested" % arg)
        return real_go(n)
    ex.go = go
    return pystmt.function(fn, "column", [(None, "(S : StrOps ν)"), (None, "(T : ColText ι ν)"), (None, "(self_ : Schema ι ν)"), (arg, "(%s : Key ν)" % arg)],
                           "Except String (Out ι ν)", ex, ret=ret, k=".ok (.col none)", stmt_hook=stmt_hook, fold_redex=True)


def _has_int_call(e):
    return any(isinstance(n, ast.Call) and isinstance(n.func, ast.Name) and n.func.id == "int" for n in ast.walk(e))


def t_all_column_names(sch):
    fn = sch.func("all_column_names", "RelationSchema")
    body = [b for b in fn.body if not (isinstance(b, ast.Expr) and isinstance(b.value, ast.Constant))]
    ex = _ex()
    if len(body) == 2 and isinstance(body[0], ast.FunctionDef) and isinstance(body[1], ast.Return):
        r = body[1].value
        if isinstance(r, ast.Call) and isinstance(r.func, ast.Name) and r.func.id == "list" and len(r.args) == 1 \
                and isinstance(r.args[0], ast.Call) and isinstance(r.args[0].func, ast.Name) and r.args[0].func.id == body[0].name:
            term = pystmt.generator_as_list(body[0], ex)
            return "def all_column_names (self_ : Schema ι ν) : List ν :=\n  %s\n" % term
    # a plain body (comprehension / loop with appends)
    return pystmt.function(fn, "all_column_names", [(None, "(self_ : Schema ι ν)")], "List ν", ex, ret=lambda v, ex: ex.go(v), k="[]", fold_redex=True)


PINNED_FILE = os.path.join(os.path.dirname(os.path.abspath(__file__)), "pinned", "c17_fns.json")


def _pinned():
    try:
        return json.load(open(PINNED_FILE))
    except OSError:
        return {}


# in dependency order: a later function may call an earlier one
TRANSLATORS = (("all_names", t_all_names), ("column_names", t_column_names), ("all_column_names", t_all_column_names),
               ("num_columns", t_num_columns), ("find_column", t_find_column), ("column", t_column), ("pop_column", t_pop_column),
               ("add", t_add), ("iter_names", t_iter), ("iter_src", t_iter_src))


# which translated functions each equivalence theorem of Props/C17.lean talks about, and how the battery
# (Lemmas/SchemaBattery.lean) runs them against the model
THEOREMS = {
    "generated_all_names_eq_model": (["all_names"], "checkAllNames (fun c => Gen.SchemaFns.all_names c)"),
    "generated_find_column_eq_model": (["find_column", "all_names"],
                                       "checkFind (fun S T lower s k ci => Gen.SchemaFns.find_column S T lower s k ci)"),
    "generated_column_eq_model": (["column", "find_column", "all_names"], "checkColumn (fun S T s k => Gen.SchemaFns.column S T s k)"),
    "generated_pop_column_eq_model": (["pop_column", "find_column", "all_names"], "checkPop (fun S T s k => Gen.SchemaFns.pop_column S T s k)"),
    "generated_add_eq_model": (["add"], "checkAdd (fun a b => Gen.SchemaFns.add a b)"),
    "generated_names_eq_model": (["column_names", "iter_names", "all_column_names", "num_columns", "all_names"],
                                 "checkNames (fun s => Gen.SchemaFns.column_names s) (fun s => Gen.SchemaFns.iter_names s) "
                                 "(fun s => Gen.SchemaFns.all_column_names s) (fun s => Gen.SchemaFns.num_columns s)"),
    "generated_iter_eq_model": (["iter_src", "column_names", "all_column_names", "all_names"], "checkIter (fun s => Gen.SchemaFns.iter_src s)"),
}

# the functions a theorem is *about* (the others in its list are only called by them)
PRIMARY = {"generated_all_names_eq_model": ["all_names"], "generated_find_column_eq_model": ["find_column"],
           "generated_column_eq_model": ["column"], "generated_pop_column_eq_model": ["pop_column"],
           "generated_add_eq_model": ["add"],
           "generated_names_eq_model": ["column_names", "iter_names", "all_column_names", "num_columns"],
           "generated_iter_eq_model": ["iter_src"]}

GEN_PRELUDE = ("/-! The schema operations of orso/schema.py, translated statement by statement (harness/pystmt.py). -/\n"
               "set_option linter.unusedVariables false\nopen _root_.SchemaOps\nnamespace Gen.SchemaFns\n"
               "variable {ι ν : Type} [DecidableEq ι] [DecidableEq ν]\n\n")
GEN_FOOTER = "\nend Gen.SchemaFns\n"


def _eq_section():
    """the equivalence theorems, as they stand in Props/C17.lean (between the BEGIN/END markers)"""
    text = open(os.path.join(core.LEAN, "OrsoVerif", "Props", "C17.lean"), encoding="utf-8").read()
    a = text.index("-- BEGIN generated-eq")
    b = text.index("-- END generated-eq")
    return text[a:b]


def _lean(text, tag):
    import subprocess
    import tempfile

    d = os.path.join(core.LEAN, ".lake")
    os.makedirs(d, exist_ok=True)
    with tempfile.NamedTemporaryFile("w", suffix=".lean", prefix=tag, dir=d, delete=False, encoding="utf-8") as f:
        f.write(text)
        tmp = f.name
    try:
        p = subprocess.run(["lake", "env", "lean", tmp], cwd=core.LEAN, capture_output=True, text=True, timeout=900)
        return p.returncode, p.stdout + p.stderr, os.path.basename(tmp)
    finally:
        os.unlink(tmp)


def trial(parts):
    """Elaborate the equivalence theorems against a candidate translation.

    Returns {theorem: None (checks) | "differs: <input>" | "same"}: for a theorem that no longer checks the battery
    says whether the translated function differs from the model on some small input or agrees on the whole scope."""
    import hashlib
    import re

    defs = GEN_PRELUDE + "\n".join(t for _, t in parts) + GEN_FOOTER
    section = _eq_section()
    head = ("import OrsoVerif.Model.SchemaOps\nimport OrsoVerif.Lemmas.SchemaOps\nimport OrsoVerif.Lemmas.SchemaFns\n"
            "import OrsoVerif.Lemmas.SchemaBattery\n" + defs)
    body = ("set_option linter.unusedSectionVars false\nset_option linter.unusedSimpArgs false\nnamespace C17\nopen SchemaOps\n"
            "variable {ι ν : Type} [DecidableEq ι] [DecidableEq ν]\n")
    text = head + body + section + "\nend C17\n"
    deps = ""
    for rel in ("Lemmas/SchemaFns.lean", "Lemmas/SchemaBattery.lean", "Lemmas/SchemaOps.lean", "Model/SchemaOps.lean", "Generated/SchemaOps.lean"):
        try:
            deps += open(os.path.join(core.LEAN, "OrsoVerif", rel), encoding="utf-8").read()
        except OSError:
            pass
    key = hashlib.sha256((text + deps).encode()).hexdigest()
    cache_file = os.path.join(core.LEAN, ".lake", "SchemaFns.trial.json")
    try:
        cache = json.load(open(cache_file))
    except (OSError, ValueError):
        cache = {}
    if key in cache:
        return cache[key]
    core.lake_build(["OrsoVerif.Lemmas.SchemaFns", "OrsoVerif.Lemmas.SchemaBattery"])
    rc, out, base = _lean(text, "SchemaFnsTrial")
    # theorem spans inside the trial file
    lines = text.split("\n")
    starts = [(i + 1, m.group(1)) for i, l in enumerate(lines) for m in [re.match(r"theorem (\w+)", l)] if m]
    spans = [(nm, lo, (starts[j + 1][0] - 1) if j + 1 < len(starts) else len(lines)) for j, (lo, nm) in enumerate(starts)]
    bad_lines = [int(m.group(1)) for m in re.finditer(re.escape(base) + r":(\d+):\d+: error", out)]
    first_def_line = head.count("\n") + 1
    if rc != 0 and (not bad_lines or min(bad_lines) < first_def_line):
        # the definitions themselves do not elaborate here: nothing can be said (compile_checked decides)
        return {nm: None for nm in THEOREMS}
    verdict = {}
    failing = [nm for nm, lo, hi in spans if any(lo <= b <= hi for b in bad_lines) and nm in THEOREMS]
    for nm in THEOREMS:
        verdict[nm] = None
    if failing:
        # later theorems use earlier ones (`simp [generated_all_names_eq_model]`): judge each failing one by running it
        btext = head + "open SchemaBattery\n" + "".join("#eval %s\n" % THEOREMS[nm][1] for nm in failing)
        rc2, out2, _ = _lean(btext, "SchemaFnsBattery")
        res = re.findall(r"^(none|some \".*\")$", out2, re.M)
        if len(res) != len(failing):
            return {nm: None for nm in THEOREMS}  # the battery could not run: leave everything to the real build
        for nm, r in zip(failing, res):
            verdict[nm] = "same" if r == "none" else "differs: " + r[6:-1][:400]
    cache[key] = verdict
    try:
        json.dump(cache, open(cache_file, "w"))
    except OSError:
        pass
    return verdict


def _flush_schema_ops(o):
    """The trial elaborates against Generated/SchemaOps.lean (`aliasesFirst` …, written by extractors/c17.py, which runs
    first): put this run's text on disk before the trial, as extract.run() would at the end, so that the trial sees what
    the real build will see (otherwise a harmless `[self.name] + self.aliases` is reported as a difference)."""
    from ..extract import GEN_DIR
    text = o.files.get("SchemaOps.lean")
    if text is None:
        return
    path = os.path.join(GEN_DIR, "SchemaOps.lean")
    try:
        old = open(path).read()
    except OSError:
        old = None
    if old != text:
        with core.BuildLock():
            with open(path, "w") as f:
                f.write(text)


def generate(o):
    sch = Src("orso/schema.py")
    pinned = _pinned()
    fresh = {}
    for key, fn in TRANSLATORS:
        # degraded (a shape the translator does not know): the translation of the pinned tree is written instead
        fresh[key] = o.item("schema.fn." + key, lambda fn=fn: fn(sch), pinned.get(key, "-- %s: not translated\n" % key))
    if os.environ.get("ORSO_VERIF_WRITE_PINNED") == "c17_fns":
        os.makedirs(os.path.dirname(PINNED_FILE), exist_ok=True)
        json.dump(fresh, open(PINNED_FILE, "w"), indent=1, sort_keys=True)
        pinned = dict(fresh)
    header = HEADER + "import OrsoVerif.Model.SchemaOps\n" + GEN_PRELUDE
    keys = [k for k, _ in TRANSLATORS]
    text, bad = pystmt.compile_checked(header, [(k, fresh[k]) for k in keys], GEN_FOOTER, pinned, core.LEAN, "SchemaFns")
    for k in bad:
        o.degraded.append("schema.fn.%s (the translation does not elaborate in Lean; pinned text used)" % k)
    eff = {k: (pinned.get(k, fresh[k]) if k in bad else fresh[k]) for k in keys}
    differs = {}
    for _ in range(3):
        changed = [k for k in keys if eff[k] != pinned.get(k)]
        if not changed:
            break
        _flush_schema_ops(o)
        try:
            verdict = trial([(k, eff[k]) for k in keys])
        except Exception as e:  # the trial is an optimisation of the verdict's wording, never a reason to stop
            o.degraded.append("schema.fn trial failed (%s: %s)" % (type(e).__name__, str(e)[:80]))
            break
        again = False
        for nm, v in verdict.items():
            if v == "same":
                # the proof script does not recognise this spelling, the battery finds no difference on the whole small
                # scope: as for any unknown shape, the pinned translation stands in and the correspondence carries it
                own = [k for k in THEOREMS[nm][0] if k in PRIMARY[nm] and k in changed and eff[k] != pinned.get(k)]
                for k in own or [k for k in THEOREMS[nm][0] if k in changed and eff[k] != pinned.get(k)]:
                    eff[k] = pinned[k]
                    again = True
                    o.degraded.append("schema.fn.%s (translated, but %s does not recognise the spelling; no difference from "
                                      "the model on the small scope; pinned text used)" % (k, nm))
            elif v:
                differs[nm] = v
        if not again:
            break
    o.json["schema.fn.differs_from_model"] = differs
    o.files["SchemaFns.lean"] = header + "\n".join(eff[k] for k in keys) + GEN_FOOTER
