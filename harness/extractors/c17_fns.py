"""C17: the schema operations of orso/schema.py translated *function by function* into Lean
(`Generated/SchemaFns.lean`, namespace `Gen.SchemaFns`) by harness/pystmt.py on every run.

`Props/C17.lean` proves each generated function equal to the hand-written model in Model/SchemaOps.lean
(`generated_*_eq_model`), so every C17 theorem is a theorem about what the source says now.  A shape the
translator does not know degrades to the pinned text below (the translation of the pinned tree).
"""
import ast
import json
import os

from .. import core, pystmt
from ..extract import HEADER, Src
from ..pyexpr import Untranslatable

PINNED = {}


def _hook_factory(cols_name):
    def hook(n, go):
        # column.all_names  ->  the generated all_names applied to the column
        if isinstance(n, ast.Attribute) and n.attr == "all_names":
            return "(all_names %s)" % go(n.value)
        # self.find_column(name[, case_insensitive])  ->  the generated find_column
        if isinstance(n, ast.Call) and ast.unparse(n.func) == "self.find_column" and 1 <= len(n.args) <= 2 and not n.keywords:
            ci = go(n.args[1]) if len(n.args) == 2 else "false"
            return "(find_column lower self_ %s %s)" % (go(n.args[0]), ci)
        # iter(xs) is the list it iterates
        if isinstance(n, ast.Call) and isinstance(n.func, ast.Name) and n.func.id == "iter" and len(n.args) == 1 and not n.keywords:
            return go(n.args[0])
        # RelationSchema(name=…, aliases=…, columns=…)
        if isinstance(n, ast.Call) and isinstance(n.func, ast.Name) and n.func.id == "RelationSchema" and not n.args:
            kw = {k.arg: go(k.value) for k in n.keywords}
            if set(kw) != {"name", "aliases", "columns"}:
                raise Untranslatable("RelationSchema(%s)" % ", ".join(sorted(kw)))
            return "({ name := %s, aliases := %s, columns := %s } : Schema ι ν)" % (kw["name"], kw["aliases"], kw["columns"])
        return None
    return hook


def _ex(extra_env=None, records=(), listy=()):
    env = {"self.columns": "self_.columns", "self.name": "self_.name", "self.aliases": "self_.aliases",
           "other.columns": "other.columns"}
    env.update(extra_env or {})
    return pystmt.Expr(env=env, records=set(records) | {"column", "col", "c"}, methods={"lower": "lower"},
                       hook=_hook_factory("self_.columns"), listy=set(listy) | {"self.columns", "other.columns"})


def t_all_names(sch):
    fn = sch.func("all_names", "FlatColumn")
    # `self.aliases` is Optional[List[str]]: under `is not None` the list is its payload
    ex = pystmt.Expr(env={"self.name": "self_.name"}, listy={"self.aliases"},
                     hook=lambda n, go: ("(self_.aliases.getD [])" if ast.unparse(n) == "self.aliases" else None))
    saved_go = ex.go

    def go(n):
        if isinstance(n, ast.Compare) and ast.unparse(n.left) == "self.aliases" and len(n.ops) == 1 \
                and isinstance(n.comparators[0], ast.Constant) and n.comparators[0].value is None:
            if isinstance(n.ops[0], ast.IsNot):
                return "(self_.aliases ≠ none)"
            if isinstance(n.ops[0], ast.Is):
                return "(self_.aliases = none)"
        return saved_go(n)
    ex.go = go
    return pystmt.function(fn, "all_names", [(None, "(self_ : Col ι ν)")], "List ν", ex, k="[]")


def t_find_column(sch):
    fn = sch.func("find_column", "RelationSchema")
    args = [a.arg for a in fn.args.args]
    if args != ["self", "column_name", "case_insensitive"]:
        raise Untranslatable("find_column%r" % (args,))
    ex = _ex()
    return pystmt.function(fn, "find_column",
                           [(None, "(lower : ν → ν)"), (None, "(self_ : Schema ι ν)"), ("column_name", "(column_name : ν)"),
                            ("case_insensitive", "(case_insensitive : Bool)")],
                           "Option (Col ι ν)", ex, ret=lambda v, ex: "none" if v is None or ast.unparse(v) == "None" else "some %s" % ex.go(v),
                           k="none")


def t_pop_column(sch):
    fn = sch.func("pop_column", "RelationSchema")
    if [a.arg for a in fn.args.args] != ["self", "column_name"]:
        raise Untranslatable("pop_column signature")
    ex = _ex()

    def ret(v, ex):
        if v is None or ast.unparse(v) == "None":
            return "(none, self_.columns)"
        if isinstance(v, ast.Call) and isinstance(v.func, ast.Attribute) and v.func.attr == "pop" \
                and ast.unparse(v.func.value) == "self.columns" and len(v.args) == 1:
            i = ex.go(v.args[0])
            return "((self_.columns)[%s]?, (self_.columns).eraseIdx %s)" % (i, i)
        raise Untranslatable("pop_column returns %s" % ast.unparse(v))
    return pystmt.function(fn, "pop_column", [(None, "(self_ : Schema ι ν)"), ("column_name", "(column_name : ν)")],
                           "Option (Col ι ν) × List (Col ι ν)", ex, ret=ret, k="(none, self_.columns)")


def t_add(sch):
    fn = sch.func("__add__", "RelationSchema")
    if [a.arg for a in fn.args.args] != ["self", "other"]:
        raise Untranslatable("__add__ signature")
    ex = _ex(records={"other"})
    return pystmt.function(fn, "add", [(None, "(self_ : Schema ι ν)"), (None, "(other : Schema ι ν)")], "Schema ι ν", ex,
                           ret=lambda v, ex: ex.go(v), k="self_")


def t_column_names(sch):
    fn = sch.func("column_names", "RelationSchema")
    return pystmt.function(fn, "column_names", [(None, "(self_ : Schema ι ν)")], "List ν", _ex(), ret=lambda v, ex: ex.go(v), k="[]")


def t_iter(sch):
    fn = sch.func("__iter__", "RelationSchema")
    return pystmt.function(fn, "iter_names", [(None, "(self_ : Schema ι ν)")], "List ν", _ex(), ret=lambda v, ex: ex.go(v), k="[]")


def t_all_column_names(sch):
    fn = sch.func("all_column_names", "RelationSchema")
    body = [b for b in fn.body if not (isinstance(b, ast.Expr) and isinstance(b.value, ast.Constant))]
    ex = _ex()
    if len(body) == 2 and isinstance(body[0], ast.FunctionDef) and isinstance(body[1], ast.Return):
        r = body[1].value
        if isinstance(r, ast.Call) and isinstance(r.func, ast.Name) and r.func.id == "list" and len(r.args) == 1 \
                and isinstance(r.args[0], ast.Call) and isinstance(r.args[0].func, ast.Name) and r.args[0].func.id == body[0].name:
            term = pystmt.generator_as_list(body[0], ex)
            return "def all_column_names (self_ : Schema ι ν) : List ν :=\n  %s\n" % term
    # a plain body (comprehension / loop with appends)
    return pystmt.function(fn, "all_column_names", [(None, "(self_ : Schema ι ν)")], "List ν", ex, ret=lambda v, ex: ex.go(v), k="[]")


PINNED_FILE = os.path.join(os.path.dirname(os.path.abspath(__file__)), "pinned", "c17_fns.json")


def _pinned():
    try:
        return json.load(open(PINNED_FILE))
    except OSError:
        return {}


TRANSLATORS = (("all_names", t_all_names), ("find_column", t_find_column), ("pop_column", t_pop_column), ("add", t_add),
               ("column_names", t_column_names), ("iter_names", t_iter), ("all_column_names", t_all_column_names))


def generate(o):
    sch = Src("orso/schema.py")
    parts = []
    pinned = _pinned()
    fresh = {}
    for key, fn in TRANSLATORS:
        # degraded (a shape the translator does not know): the translation of the pinned tree is written instead
        parts.append(o.item("schema.fn." + key, lambda fn=fn: fn(sch), pinned.get(key, "-- %s: not translated\n" % key)))
        fresh[key] = parts[-1]
    if os.environ.get("ORSO_VERIF_WRITE_PINNED") == "c17_fns":
        os.makedirs(os.path.dirname(PINNED_FILE), exist_ok=True)
        json.dump(fresh, open(PINNED_FILE, "w"), indent=1, sort_keys=True)
    header = HEADER + "import OrsoVerif.Model.SchemaOps\n"
    header += "/-! The schema operations of orso/schema.py, translated statement by statement (harness/pystmt.py). -/\n"
    header += "set_option linter.unusedVariables false\nopen _root_.SchemaOps\nnamespace Gen.SchemaFns\nvariable {ι ν : Type} [DecidableEq ι] [DecidableEq ν]\n\n"
    text, bad = pystmt.compile_checked(header, [(k, fresh[k]) for k, _ in TRANSLATORS], "\nend Gen.SchemaFns\n", pinned,
                                       core.LEAN, "SchemaFns")
    for k in bad:
        o.degraded.append("schema.fn.%s (the translation does not elaborate in Lean; pinned text used)" % k)
    o.files["SchemaFns.lean"] = text
