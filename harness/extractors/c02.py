"""C02: the statements of the dictionary-to-row path, lifted from the working tree into Generated/DictCode.lean.

* `extract_dict_columns` (orso/compute/compiled.pyx): the `.pyx` function is de-cythonised by
  `pyxshadow.translate` (pure text -> Python source, nothing is imported or run) and the loop is read off the
  AST: iteration count, buffer size, the index of the looked-up field, the NULL test, what each branch stores
  and where.  Index expressions are translated with `pyexpr.to_lean`.
* `Row.__new__`, `create_class`, `get`, `as_map` / `as_dict` / `values` / `keys` / `as_json` (orso/row.py).
* the dictionaries branch of `DataFrame.__init__` and `append` (orso/dataframe.py).

Every item goes through `o.item(key, getter, pinned)`: a statement that is not in the expected shape keeps the
pinned text and is listed under `extraction_degraded` (the correspondence then carries it); a statement that IS
in a recognised shape but says something else changes the generated definition, and the theorem of
Props/C02.lean that mentions it stops checking.
"""
import ast
import re

from ..extract import HEADER, Src
from ..pyexpr import Untranslatable, to_lean


class Shape(Exception):
    pass


def _inline(node, defs):
    """Replace names by the expressions they were assigned (straight-line assignments before the loop)."""

    class T(ast.NodeTransformer):
        def visit_Name(self, n):
            if n.id in defs:
                return self.visit(defs[n.id])
            return n

    import copy

    return T().visit(copy.deepcopy(node))


def pyx_loop(pyx_text):
    from .. import pyxshadow

    m = re.search(r"^cpdef[^\n]*\bextract_dict_columns\s*\(.*?(?=^cpdef |^def |\Z)", pyx_text, re.S | re.M)
    if not m:
        raise Shape("extract_dict_columns not found")
    _, py = pyxshadow.translate(m.group(0).rstrip("\n").split("\n"))
    fn = ast.parse(py).body[0]
    defs, loop, buf = {}, None, None
    for st in fn.body:
        if isinstance(st, ast.For):
            loop = st
            break
        for sub in ([st] if not isinstance(st, ast.Expr) else []):
            if isinstance(sub, ast.Assign) and len(sub.targets) == 1 and isinstance(sub.targets[0], ast.Name):
                name = sub.targets[0].id
                if name in ("data", "fields"):
                    continue  # the argument type checks of the shadow
                val = sub.value
                if isinstance(val, ast.Call) and ast.unparse(val.func) == "_cdef_cast" and val.args:
                    val = val.args[0]  # `cdef list x = <expr>`: the shadow's exact-type check around the initialiser
                if name == "field_data":
                    buf = val
                else:
                    defs[name] = val
    if loop is None or buf is None:
        raise Shape("loop or buffer not found")
    if not (isinstance(loop.target, ast.Name) and loop.target.id == "i" and isinstance(loop.iter, ast.Call)
            and ast.unparse(loop.iter.func) == "range" and len(loop.iter.args) == 1 and not loop.orelse):
        raise Shape("for i in range(n)")
    env_len = {"len(fields)": "lenFields"}
    count = to_lean(_inline(loop.iter.args[0], defs), env_len)
    if not (isinstance(buf, ast.BinOp) and isinstance(buf.op, ast.Mult) and ast.unparse(buf.left) == "[None]"):
        raise Shape("[None] * n")
    size = to_lean(_inline(buf.right, defs), env_len)
    body = loop.body
    if len(body) != 2 or not isinstance(body[0], ast.Assign) or not isinstance(body[1], ast.If):
        raise Shape("loop body")
    look = body[0].value
    if not (ast.unparse(body[0].targets[0]) == "value_ptr" and isinstance(look, ast.Call) and ast.unparse(look.func) == "_dict_getitem"
            and len(look.args) == 2 and ast.unparse(look.args[0]) == "data"):
        raise Shape("value_ptr = PyDict_GetItem(data, fields[..])")
    key = look.args[1]
    if not (isinstance(key, ast.Call) and ast.unparse(key.func) == "_uget" and ast.unparse(key.args[0]) == "fields"):
        raise Shape("fields[..]")
    env_i = {"i": "i", "len(fields)": "lenFields"}
    key_index = to_lean(_inline(key.args[1], defs), env_i)
    test = ast.unparse(body[1].test)
    if test == "value_ptr is not _NULL":
        found = "found"
    elif test == "value_ptr is _NULL":
        found = "(!found)"
    else:
        raise Shape("NULL test")

    def branch(stmts):
        if len(stmts) != 1 or not isinstance(stmts[0], ast.Expr) or not isinstance(stmts[0].value, ast.Call):
            raise Shape("branch")
        c = stmts[0].value
        if ast.unparse(c.func) != "_uset" or ast.unparse(c.args[0]) != "field_data":
            raise Shape("field_data[..] = ..")
        val = ast.unparse(c.args[2])
        if val not in ("value_ptr", "None"):
            raise Shape("stored value")
        return to_lean(_inline(c.args[1], defs), env_i), "true" if val == "value_ptr" else "false"

    t_idx, t_val = branch(body[1].body)
    e_idx, e_val = branch(body[1].orelse)
    rest = fn.body[fn.body.index(loop) + 1:]
    if len(rest) != 1 or not isinstance(rest[0], ast.Return) or ast.unparse(rest[0].value) != "tuple(field_data)":
        raise Shape("return tuple(field_data)")
    return {"count": count, "size": size, "key": key_index, "found": found, "then": [t_idx, t_val], "else": [e_idx, e_val]}


PINNED_LOOP = {"count": "lenFields", "size": "lenFields", "key": "i", "found": "found", "then": ["i", "true"], "else": ["i", "false"]}


# ----------------------------------------------------------------------------- row.py


def row_new(row):
    fn = row.func("__new__", "Row")
    for st in fn.body:
        if isinstance(st, ast.If):
            def find(stmts):
                for s0 in stmts:
                    for sub in ast.walk(s0):
                        if (isinstance(sub, ast.Assign) and isinstance(sub.value, ast.Call)
                                and ast.unparse(sub.value.func) == "extract_dict_columns"):
                            return sub
                return None

            in_body, in_else = find(st.body), find(st.orelse)
            call = in_body or in_else
            if call is None:
                continue
            t = ast.unparse(st.test)
            if t == "isinstance(data, dict)":
                guard = "true" if in_body is not None else "false"
            elif t == "not isinstance(data, dict)":
                guard = "true" if in_else is not None else "false"
            else:
                raise Shape("guard %s" % t)
            if ast.unparse(call.targets[0]) != "data" or call.value.keywords:
                raise Shape("data = extract_dict_columns(..)")
            args = [ast.unparse(a) for a in call.value.args]
            if args == ["data", "cls._fields"]:
                order = "true"
            elif args == ["cls._fields", "data"]:
                order = "false"
            else:
                raise Shape("extractor arguments %s" % args)
            # before the call: is an instance of a SUBCLASS of dict copied into an exact dict (the compiled
            # helper is typed `dict data`, which refuses subclasses)?
            branch = st.body if in_body is not None else st.orelse
            copies = "false"
            for s0 in branch:
                if s0 is call or any(sub is call for sub in ast.walk(s0)):
                    break
                u = ast.unparse(s0)
                if u == "data = dict(data)":
                    copies = "true"
                elif isinstance(s0, ast.If) and ast.unparse(s0.test) in ("type(data) is not dict", "not type(data) is dict",
                                                                         "type(data) != dict") and not s0.orelse:
                    if [ast.unparse(x) for x in s0.body if not isinstance(x, ast.Expr)] == ["data = dict(data)"]:
                        copies = "true"
                    else:
                        raise Shape("subclass branch")
                elif isinstance(s0, (ast.If, ast.Assign)) and "data" in u:
                    raise Shape("statement before the extractor call: %s" % u[:40])
            return [guard, order, copies]
    raise Shape("no dictionary branch in Row.__new__")


def create_class(row):
    fn = row.func("create_class", "Row")
    names = [a.arg for a in fn.args.args]
    if "tuples_only" not in names:
        raise Shape("tuples_only parameter")
    d = fn.args.defaults[names.index("tuples_only") - (len(names) - len(fn.args.defaults))]
    if not (isinstance(d, ast.Constant) and isinstance(d.value, bool)):
        raise Shape("tuples_only default")

    def handles(ret):
        v = ret.value
        if not (isinstance(v, ast.Call) and ast.unparse(v.func) == "type" and len(v.args) == 3 and isinstance(v.args[2], ast.Dict)
                and ast.unparse(v.args[1]) == "(Row,)"):
            raise Shape("return type(name, (Row,), {...})")
        keys = [k.value for k in v.args[2].keys if isinstance(k, ast.Constant)]
        if "_fields" not in keys:
            raise Shape("_fields in the class dictionary")
        return "false" if "__new__" in keys else "true"

    branch, tail = None, None
    for i, st in enumerate(fn.body):
        if isinstance(st, ast.If) and "tuples_only" in ast.unparse(st.test):
            t = ast.unparse(st.test)
            if t not in ("tuples_only", "not tuples_only") or st.orelse:
                raise Shape("if tuples_only:")
            rets = [s for s in st.body if isinstance(s, ast.Return)]
            if len(rets) != 1 or not isinstance(fn.body[i + 1] if i + 1 < len(fn.body) else None, ast.Return) or i + 2 != len(fn.body):
                raise Shape("two returns")
            branch, tail = (t, handles(rets[0])), handles(fn.body[i + 1])
    if branch is None:
        raise Shape("if tuples_only: return …; return …")
    if branch[0] == "tuples_only":
        expr = "(if tuplesOnly then %s else %s)" % (branch[1], tail)
    else:
        expr = "(if tuplesOnly then %s else %s)" % (tail, branch[1])
    return ["true" if d.value else "false", expr]


VIEW_TYPES = {"as_map": "pairs", "as_dict": "pairs", "values": "vals", "keys": "names", "as_json": "pairs"}
VIEW_DEFS = {"as_map": "asMapExpr", "as_dict": "asDictExpr", "values": "valuesExpr", "keys": "keysExpr", "as_json": "asJsonViewExpr"}


def view_expr(node, deps):
    """(lean term, type) of a view expression; `deps` collects the other views it reads."""
    u = ast.unparse(node)
    if u == "self._fields":
        return "fields", "names"
    if u == "self":
        return "row", "vals"
    if isinstance(node, ast.Attribute) and ast.unparse(node.value) == "self" and node.attr in ("as_map", "as_dict", "values"):
        deps.add(node.attr)
        return "(%s fields row)" % VIEW_DEFS[node.attr], VIEW_TYPES[node.attr]
    if isinstance(node, ast.Call) and not node.keywords:
        f = ast.unparse(node.func)
        if f == "self.keys" and not node.args:
            deps.add("keys")
            return "(keysExpr fields row)", "names"
        if f in ("tuple", "list") and len(node.args) == 1:
            return view_expr(node.args[0], deps)
        if f == "zip" and len(node.args) == 2:
            (a, ta), (b, tb) = view_expr(node.args[0], deps), view_expr(node.args[1], deps)
            if (ta, tb) != ("names", "vals"):
                raise Shape("zip(%s, %s)" % (ta, tb))
            return "(List.zip %s %s)" % (a, b), "pairs"
        if f == "dict" and len(node.args) == 1:
            a, ta = view_expr(node.args[0], deps)
            if ta != "pairs":
                raise Shape("dict(%s)" % ta)
            return "(ofPairs %s)" % a, "pairs"
        if isinstance(node.func, ast.Attribute) and node.func.attr == "items" and not node.args:
            a, ta = view_expr(node.func.value, deps)
            if ta != "pairs":
                raise Shape("%s.items()" % ta)
            return a, "pairs"
    raise Shape("view expression %s" % u)


def views(row):
    out, deps = {}, {}
    for name in ("as_map", "as_dict", "values", "keys", "as_json"):
        fn = row.func(name, "Row")
        body = [s for s in fn.body if not (isinstance(s, ast.Expr) and isinstance(s.value, ast.Constant))]
        if len(body) != 1 or not isinstance(body[0], ast.Return):
            raise Shape("%s: one return" % name)
        e = body[0].value
        if name == "as_json":
            if not (isinstance(e, ast.Call) and ast.unparse(e.func) == "orjson.dumps" and len(e.args) == 1):
                raise Shape("orjson.dumps(view, ...)")
            e = e.args[0]
        d = set()
        term, ty = view_expr(e, d)
        if ty != VIEW_TYPES[name]:
            raise Shape("%s has type %s" % (name, ty))
        out[name], deps[name] = term, d
    # definitional order; a cycle has no translation
    order, done = [], set()
    while len(order) < len(out):
        ready = [n for n in out if n not in done and deps[n] <= done]
        if not ready:
            raise Shape("views defined in terms of each other")
        for n in ready:
            order.append(n)
            done.add(n)
    return {"order": order, "terms": out}


def as_json_call(row):
    """The keyword arguments of the `orjson.dumps` call of `as_json` that decide how a VALUE is written: the flags of
    `option=` (names after `orjson.`; none when the argument is absent) and the `default=` callable."""
    fn = row.func("as_json", "Row")
    body = [s for s in fn.body if not (isinstance(s, ast.Expr) and isinstance(s.value, ast.Constant))]
    if len(body) != 1 or not isinstance(body[0], ast.Return):
        raise Shape("as_json: one return")
    e = body[0].value
    if not (isinstance(e, ast.Call) and ast.unparse(e.func) == "orjson.dumps"):
        raise Shape("orjson.dumps(view, ...)")
    flags, default = [], "none"
    if len(e.args) > 3:
        raise Shape("orjson.dumps arguments")
    kw = {k.arg: k.value for k in e.keywords}
    if len(e.args) >= 2:
        kw["default"] = e.args[1]
    if len(e.args) == 3:
        kw["option"] = e.args[2]
    if set(kw) - {"default", "option"}:
        raise Shape("orjson.dumps keywords")

    def walk(n):
        if isinstance(n, ast.BinOp) and isinstance(n.op, ast.BitOr):
            walk(n.left)
            walk(n.right)
        elif isinstance(n, ast.Attribute) and ast.unparse(n.value) == "orjson" and n.attr.startswith("OPT_"):
            flags.append(n.attr)
        elif isinstance(n, ast.Name) and n.id.startswith("OPT_"):
            flags.append(n.id)
        elif isinstance(n, ast.Constant) and n.value in (None, 0):
            pass
        else:
            raise Shape("option %s" % ast.unparse(n)[:40])

    if "option" in kw:
        walk(kw["option"])
    if "default" in kw:
        if not isinstance(kw["default"], ast.Name):
            raise Shape("default %s" % ast.unparse(kw["default"])[:40])
        default = kw["default"].id
    return {"options": flags, "default": default}


PINNED_JSON_CALL = {"options": [], "default": "str"}


PINNED_VIEWS = {"order": ["as_map", "values", "keys", "as_dict", "as_json"],
                "terms": {"as_map": "(List.zip fields row)", "as_dict": "(ofPairs (asMapExpr fields row))", "values": "row",
                          "keys": "fields", "as_json": "(asDictExpr fields row)"}}


VIEW_CTOR = {"as_map": "asMap", "as_dict": "asDict", "values": "values", "keys": "keys", "as_json": "asJson"}
VIEW_PARAM = {"as_map": "mapV", "as_dict": "dictV", "values": "valsV", "keys": "keysV"}
VIEW_NAMES = ("as_map", "as_dict", "values", "keys", "as_json")


def view_objects(row):
    """What kind of OBJECT each view hands out: evaluated on every read (`@property`, plain method) or once and
    stored on the row (`@cached_property`); of a kind the caller can change (dict, list) or not (tuple, bytes,
    the row itself); the class's own field tuple; and which other views its expression reads, in order."""
    vw = views(row)  # the expressions themselves (raises Shape when they are not in a recognised form)
    cached, mutable, alias = {}, {}, {}
    for name in VIEW_NAMES:
        fn = row.func(name, "Row")
        decos = [ast.unparse(d) for d in fn.decorator_list]
        if decos in (["property"], []):
            cached[name] = "false"
        elif decos in (["cached_property"], ["functools.cached_property"]):
            cached[name] = "true"
        else:
            raise Shape("%s decorated %s" % (name, decos))
        if (decos == []) != (name == "keys"):
            raise Shape("%s: method/property" % name)
        body = [s for s in fn.body if not (isinstance(s, ast.Expr) and isinstance(s.value, ast.Constant))]
        e = body[0].value
        u = ast.unparse(e)
        alias[name] = "true" if u == "self._fields" else "false"
        if u == "self._fields":
            mutable[name] = "fieldsMutable"
        elif u == "self" or isinstance(e, ast.Tuple):
            mutable[name] = "false"
        elif isinstance(e, ast.Call) and ast.unparse(e.func) in ("tuple", "orjson.dumps", "bytes", "frozenset"):
            mutable[name] = "false"
        elif (isinstance(e, ast.Call) and ast.unparse(e.func) in ("dict", "list")) or isinstance(
                e, (ast.ListComp, ast.List, ast.Dict, ast.DictComp)):
            mutable[name] = "true"
        else:
            raise Shape("%s returns %s" % (name, u[:40]))
    cc = row.func("create_class", "Row")
    fm = None
    for st in ast.walk(cc):
        if isinstance(st, ast.Assign) and len(st.targets) == 1 and ast.unparse(st.targets[0]) == "fields":
            v = st.value
            if isinstance(v, ast.Call) and ast.unparse(v.func) == "tuple":
                fm = "false"
            elif (isinstance(v, ast.Call) and ast.unparse(v.func) == "list") or isinstance(v, (ast.ListComp, ast.List)):
                fm = "true"
            else:
                raise Shape("fields = %s" % ast.unparse(v)[:40])
    if fm is None:
        raise Shape("fields = tuple(...)")
    ref = {"(%s fields row)" % VIEW_DEFS[n]: VIEW_PARAM[n] for n in VIEW_PARAM}
    deps, frm = {}, {}
    for name in VIEW_NAMES:
        t = vw["terms"][name]
        found = sorted((t.index(k), n) for n in VIEW_PARAM for k in ["(%s fields row)" % VIEW_DEFS[n]] if k in t)
        deps[name] = [n for _, n in found]
        for k, v in ref.items():
            t = t.replace(k, v)
        frm[name] = t
    rank = {n: vw["order"].index(n) for n in VIEW_NAMES}
    return {"cached": cached, "mutable": mutable, "alias": alias, "fields_mutable": fm, "deps": deps, "from": frm, "rank": rank}


PINNED_OBJECTS = {
    "cached": {"as_map": "true", "as_dict": "false", "values": "false", "keys": "false", "as_json": "false"},
    "mutable": {"as_map": "false", "as_dict": "true", "values": "false", "keys": "fieldsMutable", "as_json": "false"},
    "alias": {"as_map": "false", "as_dict": "false", "values": "false", "keys": "true", "as_json": "false"},
    "fields_mutable": "false",
    "deps": {"as_map": [], "as_dict": ["as_map"], "values": [], "keys": [], "as_json": ["as_dict"]},
    "from": {"as_map": "(List.zip fields row)", "as_dict": "(ofPairs mapV)", "values": "row", "keys": "fields", "as_json": "dictV"},
    "rank": {"as_map": 0, "values": 1, "keys": 2, "as_dict": 3, "as_json": 4},
}


def row_get(row):
    fn = row.func("get", "Row")
    body = [s for s in fn.body if not (isinstance(s, ast.Expr) and isinstance(s.value, ast.Constant))]
    if [a.arg for a in fn.args.args] != ["self", "item", "default"]:
        raise Shape("get(self, item, default)")
    if len(body) != 2 or not isinstance(body[0], ast.Try) or not isinstance(body[1], ast.Return):
        raise Shape("try/return")
    tr = body[0]
    if (len(tr.body) != 1 or ast.unparse(tr.body[0]) != "index = self._fields.index(item)" or len(tr.handlers) != 1
            or ast.unparse(tr.handlers[0].type) != "ValueError" or tr.orelse or tr.finalbody):
        raise Shape("index = self._fields.index(item) / except ValueError")
    h = tr.handlers[0].body
    if len(h) != 1 or not isinstance(h[0], ast.Return):
        raise Shape("handler")
    hv = ast.unparse(h[0].value) if h[0].value is not None else "None"
    if hv == "default":
        absent = "true"
    elif hv == "None":
        absent = "false"
    else:
        raise Shape("handler returns %s" % hv)
    r = body[1].value
    if not (isinstance(r, ast.Subscript) and ast.unparse(r.value) == "self"):
        raise Shape("return self[..]")
    return [absent, to_lean(r.slice, {"index": "index"})]


# ----------------------------------------------------------------------------- dataframe.py


def _tuples_only_arg(call):
    if not (isinstance(call, ast.Call) and ast.unparse(call.func) == "Row.create_class" and len(call.args) == 1
            and ast.unparse(call.args[0]) == "self._schema"):
        raise Shape("Row.create_class(self._schema)")
    for kw in call.keywords:
        if kw.arg == "tuples_only" and isinstance(kw.value, ast.Constant) and isinstance(kw.value.value, bool):
            return "true" if kw.value.value else "false"
        raise Shape("create_class keyword")
    return "tuplesOnlyDefault"


def frame_init(df):
    fn = df.func("__init__", "DataFrame")
    top = None
    for st in fn.body:
        if isinstance(st, ast.If) and ast.unparse(st.test) == "dictionaries is not None":
            top = st
    if top is None:
        raise Shape("if dictionaries is not None")
    assigns = {}
    for st in top.body:
        if isinstance(st, ast.Assign) and len(st.targets) == 1:
            assigns[ast.unparse(st.targets[0])] = st.value
    for need in ("dicts", "first_dict", "self._schema", "self._row_factory", "self._rows"):
        if need not in assigns:
            raise Shape("assignment to %s" % need)
    rows0 = assigns["self._rows"]
    whole = (isinstance(rows0, ast.ListComp) and isinstance(rows0.elt, ast.Call) and ast.unparse(rows0.elt.func) == "self._row_factory"
             and [ast.unparse(a) for a in rows0.elt.args] in (["row"], ["dict(row)"]) and not rows0.elt.keywords)
    if "keys" not in assigns and not whole:
        raise Shape("assignment to keys")
    if ast.unparse(assigns["dicts"]) != "iter(dictionaries)" or ast.unparse(assigns["first_dict"]) != "next(dicts)":
        raise Shape("dicts = iter(dictionaries); first_dict = next(dicts)")
    schema = ast.unparse(assigns["self._schema"])
    if schema not in ("[str(k) for k in first_dict]", "[str(k) for k in first_dict.keys()]", "list(first_dict)", "list(first_dict.keys())"):
        raise Shape("schema %s" % schema)
    if not whole:
        keys = ast.unparse(assigns["keys"])
        if keys not in ("list(first_dict.keys())", "list(first_dict)", "[k for k in first_dict]"):
            raise Shape("keys %s" % keys)
    t_dicts = _tuples_only_arg(assigns["self._row_factory"])
    rows = assigns["self._rows"]
    if not (isinstance(rows, ast.ListComp) and len(rows.generators) == 1 and ast.unparse(rows.generators[0].target) == "row"):
        raise Shape("rows comprehension")
    it = ast.unparse(rows.generators[0].iter)
    if it in ("chain([first_dict], dicts)", "itertools.chain([first_dict], dicts)"):
        first = "true"
    elif it == "dicts":
        first = "false"
    elif isinstance(rows.generators[0].iter, ast.Name):
        first = "true"  # a local name: which records it stands for is `c02.dataframe.init_source` (frameSourceSegs)
    else:
        raise Shape("rows source %s" % it)
    ifs = rows.generators[0].ifs
    if not ifs:
        kept = "true"
    elif len(ifs) == 1:
        t = ast.unparse(ifs[0])
        if t in ("row", "len(row) > 0", "len(row) != 0", "bool(row)"):
            kept = "(!d.isEmpty)"
        elif t in ("row is not None", "isinstance(row, dict)"):
            kept = "true"
        elif t in ("not row", "len(row) == 0"):
            kept = "d.isEmpty"
        else:
            raise Shape("row filter %s" % t)
    else:
        raise Shape("row filters")
    elt = rows.elt
    if not (isinstance(elt, ast.Call) and ast.unparse(elt.func) == "self._row_factory" and len(elt.args) == 1 and not elt.keywords):
        raise Shape("self._row_factory([...])")
    if whole:
        # `self._row_factory(row)`: the record itself goes to Row.__new__, which probes it with the class's field
        # names (the TEXTS str(k)), not with the first dictionary's key objects
        other = None
        for st in top.orelse:
            if isinstance(st, ast.Assign) and ast.unparse(st.targets[0]) == "self._row_factory":
                other = _tuples_only_arg(st.value)
        if other is None:
            raise Shape("row factory of the rows branch")
        return {"schema": "true", "keys": "false", "cell": "true", "first": first, "kept": kept, "t_dicts": t_dicts, "t_rows": other}
    cells = elt.args[0]
    if isinstance(cells, ast.Call) and ast.unparse(cells.func) in ("tuple", "list") and len(cells.args) == 1:
        cells = cells.args[0]
    if not (isinstance(cells, (ast.ListComp, ast.GeneratorExp)) and len(cells.generators) == 1 and not cells.generators[0].ifs
            and ast.unparse(cells.generators[0].target) == "k" and ast.unparse(cells.generators[0].iter) == "keys"):
        raise Shape("cells comprehension over keys")
    cell = ast.unparse(cells.elt)
    if cell in ("row.get(k, None)", "row.get(k)"):
        cell_ok = "true"
    elif cell == "row[k]" or re.fullmatch(r"row\.get\(k, [^)]+\)", cell):
        cell_ok = "false"
    else:
        raise Shape("cell %s" % cell)
    other = None
    for st in top.orelse:
        if isinstance(st, ast.Assign) and ast.unparse(st.targets[0]) == "self._row_factory":
            other = _tuples_only_arg(st.value)
    if other is None:
        raise Shape("row factory of the rows branch")
    return {"schema": "true", "keys": "true", "cell": cell_ok, "first": first, "kept": kept, "t_dicts": t_dicts, "t_rows": other}


def _segs(node, local):
    """The records an expression iterates over, as segments: `first` (the record taken off with next()), `rest`
    (what the iterator `dicts` still has), `again` (a NEW iteration of the caller's object `dictionaries`)."""
    u = ast.unparse(node)
    if isinstance(node, ast.Name) and node.id in local:
        return local[node.id]
    if u == "dicts":
        return ".rest"
    if u in ("dictionaries", "iter(dictionaries)"):
        return ".again"
    if u in ("[first_dict]", "(first_dict,)"):
        return ".first"
    if isinstance(node, ast.Call) and ast.unparse(node.func) in ("list", "tuple", "iter") and len(node.args) == 1 and not node.keywords:
        return _segs(node.args[0], local)
    if isinstance(node, ast.Call) and ast.unparse(node.func) in ("chain", "itertools.chain") and not node.keywords:
        out = []
        for a in node.args:
            x = _segs(a, local)
            if not isinstance(x, str):
                raise Shape("conditional source inside chain")
            out += [y for y in x.split(", ") if y]
        return ", ".join(out)
    if isinstance(node, ast.BinOp) and isinstance(node.op, ast.Add):
        a, b = _segs(node.left, local), _segs(node.right, local)
        if isinstance(a, str) and isinstance(b, str):
            return ", ".join([y for y in (a + ", " + b).split(", ") if y])
    raise Shape("rows source %s" % u[:50])


def frame_source(df):
    """The source of the row comprehension of `DataFrame(dictionaries)`, as a function of "the caller's object is
    its own iterator" (`dicts is dictionaries`): a Lean term `fun selfIter => [segments]`."""
    fn = df.func("__init__", "DataFrame")
    top = [st for st in fn.body if isinstance(st, ast.If) and ast.unparse(st.test) == "dictionaries is not None"]
    if not top:
        raise Shape("if dictionaries is not None")
    local, rows = {}, None
    for st in top[0].body:
        if isinstance(st, ast.Assign) and len(st.targets) == 1 and ast.unparse(st.targets[0]) == "self._rows":
            rows = st.value
            break
        if isinstance(st, ast.Assign) and len(st.targets) == 1 and isinstance(st.targets[0], ast.Name):
            name = st.targets[0].id
            if name in ("dicts", "first_dict", "keys"):
                continue
            try:
                local[name] = _segs(st.value, local)
            except Shape:
                local.pop(name, None)
        elif isinstance(st, ast.If):
            t = ast.unparse(st.test)
            if t in ("dicts is dictionaries", "dictionaries is dicts", "iter(dictionaries) is dictionaries"):
                pos, neg = st.body, st.orelse
            elif t in ("dicts is not dictionaries", "dictionaries is not dicts"):
                pos, neg = st.orelse, st.body
            else:
                continue

            def assigned(stmts):
                d = {}
                for s0 in stmts:
                    if isinstance(s0, ast.Assign) and len(s0.targets) == 1 and isinstance(s0.targets[0], ast.Name):
                        d[s0.targets[0].id] = s0.value
                return d

            a, b = assigned(pos), assigned(neg)
            for name in set(a) & set(b):
                x, y = _segs(a[name], local), _segs(b[name], local)
                if not (isinstance(x, str) and isinstance(y, str)):
                    raise Shape("nested conditional source")
                local[name] = ("cond", x, y)
    if not (isinstance(rows, ast.ListComp) and len(rows.generators) == 1):
        raise Shape("rows comprehension")
    r = _segs(rows.generators[0].iter, local)
    if isinstance(r, tuple):
        return "if selfIter then [%s] else [%s]" % (r[1], r[2])
    return "[%s]" % r


PINNED_SOURCE = "[.first, .rest]"


def frame_streams(df):
    """Does the constructor read a record when the caller's iterable hands it over (`true`), or does it run the iterable
    to its end first and read the records afterwards (`false`: `list(dicts)` / `list(dictionaries)` / `tuple(…)` / `sorted(…)`
    before or inside the source of the row comprehension)?  Only the unguarded form and the guards `not isinstance(dictionaries,
    (list, tuple))` / `dicts is dictionaries` are read as "drains a lazy producer"; other guards are not understood."""
    fn = df.func("__init__", "DataFrame")
    top = [st for st in fn.body if isinstance(st, ast.If) and ast.unparse(st.test) == "dictionaries is not None"]
    if not top:
        raise Shape("if dictionaries is not None")

    def drains(node):
        for sub in ast.walk(node):
            if (isinstance(sub, ast.Call) and ast.unparse(sub.func) in ("list", "tuple", "sorted", "deque", "collections.deque")
                    and len(sub.args) == 1 and any(isinstance(x, ast.Name) and x.id in ("dicts", "dictionaries") for x in ast.walk(sub.args[0]))):
                return True
        return False

    for st in top[0].body:
        if isinstance(st, ast.Assign) and len(st.targets) == 1 and ast.unparse(st.targets[0]) == "self._rows":
            if not (isinstance(st.value, ast.ListComp) and len(st.value.generators) == 1):
                raise Shape("rows comprehension")
            return "false" if drains(st.value.generators[0].iter) else "true"
        if isinstance(st, ast.If):
            if drains(st):
                t = ast.unparse(st.test)
                if t in ("not isinstance(dictionaries, (list, tuple))", "not isinstance(dictionaries, list)", "dicts is dictionaries",
                         "iter(dictionaries) is dictionaries") and not any(drains(x) for x in st.orelse):
                    return "false"
                raise Shape("records collected under %s" % t[:40])
        elif drains(st):
            return "false"
    raise Shape("rows comprehension")


def _kind_test(node, var):
    """A test on the KIND of the object `var` -> Lean Bool term over isDict / isExact / isSeq / isMutable / isMapping."""
    if isinstance(node, ast.BoolOp):
        op = " && " if isinstance(node.op, ast.And) else " || "
        return "(" + op.join(_kind_test(v, var) for v in node.values) + ")"
    if isinstance(node, ast.UnaryOp) and isinstance(node.op, ast.Not):
        return "(!%s)" % _kind_test(node.operand, var)
    u = ast.unparse(node)
    if u in ("type(%s) is not dict" % var, "type(%s) != dict" % var):
        return "(!isExact)"
    if u in ("type(%s) is dict" % var, "type(%s) == dict" % var):
        return "isExact"
    if isinstance(node, ast.Call) and ast.unparse(node.func) == "isinstance" and len(node.args) == 2 and ast.unparse(node.args[0]) == var:
        cl = node.args[1]
        names = [ast.unparse(e) for e in cl.elts] if isinstance(cl, ast.Tuple) else [ast.unparse(cl)]
        atom = {"dict": "isDict", "tuple": "isSeq", "list": "isSeq", "Mapping": "isMapping", "collections.abc.Mapping": "isMapping",
                "MutableMapping": "isMutable", "collections.abc.MutableMapping": "isMutable", "typing.MutableMapping": "isMutable"}
        if names and all(n in atom for n in names):
            return "(" + " || ".join(dict.fromkeys(atom[n] for n in names)) + ")"
    raise Shape("test on the kind of record: %s" % u[:50])


def row_new_mapping(row):
    """`Row.__new__`: the statement in front of the dictionary guard that turns a mapping which is not a dict into one
    (`if <test>: data = dict(data)`); `false` when there is none."""
    fn = row.func("__new__", "Row")
    for st in fn.body:
        if isinstance(st, ast.If):
            if any(isinstance(sub, ast.Call) and ast.unparse(sub.func) == "extract_dict_columns" for sub in ast.walk(st)):
                # the dictionary branch is reached: nothing in front of it.  A second branch of the same statement that
                # also reaches the extractor or copies into a dict (`elif isinstance(data, Mapping): …`) is another way of
                # writing the conversion, which this reader does not follow.
                other = st.orelse if ast.unparse(st.test) == "isinstance(data, dict)" else st.body
                if any(isinstance(sub, ast.Call) and ast.unparse(sub.func) in ("extract_dict_columns", "dict") for x in other for sub in ast.walk(x)):
                    raise Shape("a second branch of the dictionary guard converts")
                return "false"
            body = [ast.unparse(x) for x in st.body if not isinstance(x, ast.Expr)]
            if body == ["data = dict(data)"] and not st.orelse:
                return _kind_test(st.test, "data")
            if any("data" == ast.unparse(t) for x in ast.walk(st) if isinstance(x, ast.Assign) for t in x.targets):
                raise Shape("statement in front of the dictionary guard")
        elif isinstance(st, ast.Assign) and any(ast.unparse(t) == "data" for t in st.targets):
            raise Shape("statement in front of the dictionary guard")
    return "false"


def append_copy(df):
    """`DataFrame.append`: the statement that copies a record which is not an exact dict (`if <test>: entry = dict(entry)`), its
    test as a function of the record's kind, and where it stands: at the top of the method (every frame) or inside the
    `isinstance(self._schema, RelationSchema)` branch (schema-bound frames only).  [test, on names-only frames, on bound frames]"""
    fn = df.func("append", "DataFrame")

    def copy_in(stmts):
        for st in stmts:
            if isinstance(st, ast.If) and not st.orelse and [ast.unparse(x) for x in st.body if not isinstance(x, ast.Expr)] == ["entry = dict(entry)"]:
                return st
        return None

    for st in fn.body:
        if isinstance(st, ast.Assign) and isinstance(st.value, ast.Call) and ast.unparse(st.value.func) == "self._row_factory":
            break
        c = copy_in([st])
        if c is not None:
            return [_kind_test(c.test, "entry"), "true", "true"]
        if isinstance(st, ast.If) and ast.unparse(st.test) == "isinstance(self._schema, RelationSchema)":
            c = copy_in(st.body)
            if c is not None:
                return [_kind_test(c.test, "entry"), "false", "true"]
        if any(isinstance(x, ast.Assign) and any(ast.unparse(t) == "entry" for t in x.targets) for x in ast.walk(st)):
            raise Shape("entry reassigned: %s" % ast.unparse(st)[:40])
    return ["false", "false", "false"]


def record_guard(row):
    """`Row.as_bytes`: the record-size guard `if <test>: raise DataError(…)` with the module's constants, and what
    `record_size` measures."""
    consts = {}
    for name in ("HEADER_SIZE", "MAXIMUM_RECORD_SIZE"):
        node = None
        for st in row.tree.body:
            if isinstance(st, ast.AnnAssign) and isinstance(st.target, ast.Name) and st.target.id == name:
                node = st.value
            elif isinstance(st, ast.Assign) and len(st.targets) == 1 and ast.unparse(st.targets[0]) == name:
                node = st.value
        if node is None:
            raise Shape("constant %s" % name)
        consts[name] = to_lean(node, {})
    fn = row.func("as_bytes", "Row")
    assigns, guard = {}, None
    for st in fn.body:
        if isinstance(st, ast.Assign) and len(st.targets) == 1:
            assigns[ast.unparse(st.targets[0])] = ast.unparse(st.value)
        if isinstance(st, ast.If) and any(isinstance(x, ast.Raise) for x in st.body):
            if guard is not None or st.orelse or len(st.body) != 1:
                raise Shape("one size guard")
            guard = st.test
    if guard is None:
        raise Shape("if …: raise DataError")
    if assigns.get("record_size") != "len(record_bytes)" or not assigns.get("record_bytes", "").startswith("packb(tuple(self)"):
        raise Shape("record_size = len(packb(tuple(self), …))")
    env = {"record_size": "recordSize", "len(record_bytes)": "recordSize", "MAXIMUM_RECORD_SIZE": "maximumRecordSize",
           "HEADER_SIZE": "headerSize"}
    return [consts["HEADER_SIZE"], consts["MAXIMUM_RECORD_SIZE"], to_lean(guard, env)]


PINNED_GUARD = ["14", "((16 * 1024) * 1024)", "(recordSize > maximumRecordSize)"]


def append_sizes(df):
    """`DataFrame.append`: is the new row sized (`new_row.nbytes()`, which packs it and applies the record guard)
    before it is stored?  A row that cannot be sized is then not kept."""
    fn = df.func("append", "DataFrame")
    sized_at, stored_at = None, None
    for i, st in enumerate(fn.body):
        u = ast.unparse(st)
        if "new_row.nbytes()" in u or "new_row.as_bytes" in u:
            sized_at = i if sized_at is None else sized_at
        if "self._rows.append(" in u:
            stored_at = i
    if stored_at is None:
        raise Shape("self._rows.append")
    return "true" if sized_at is not None and sized_at < stored_at else "false"



PINNED_FRAME = {"schema": "true", "keys": "true", "cell": "true", "first": "true", "kept": "true",
                "t_dicts": "tuplesOnlyDefault", "t_rows": "tuplesOnlyDefault"}


def frame_append(df):
    fn = df.func("append", "DataFrame")
    made, stored = None, None
    for st in ast.walk(fn):
        if isinstance(st, ast.Assign) and isinstance(st.value, ast.Call) and ast.unparse(st.value.func) == "self._row_factory":
            if ast.unparse(st.targets[0]) != "new_row" or [ast.unparse(a) for a in st.value.args] != ["entry"] or st.value.keywords:
                raise Shape("new_row = self._row_factory(entry)")
            made = "true"
        if isinstance(st, ast.Call) and ast.unparse(st.func) == "self._rows.append":
            a = [ast.unparse(x) for x in st.args]
            if a == ["new_row"]:
                stored = "true"
            elif a == ["entry"]:
                stored = "false"
            else:
                raise Shape("self._rows.append(%s)" % a)
    if made is None or stored is None:
        raise Shape("append")
    copies = "false"
    for st in fn.body:
        if isinstance(st, ast.If) and not st.orelse and [ast.unparse(x) for x in st.body if not isinstance(x, ast.Expr)] == ["entry = dict(entry)"]:
            t = ast.unparse(st.test)
            if t in ("isinstance(entry, MutableMapping) and type(entry) is not dict", "type(entry) is not dict and isinstance(entry, MutableMapping)",
                     "isinstance(entry, dict) and type(entry) is not dict"):
                copies = "true"
            else:
                raise Shape("entry = dict(entry) under %s" % t[:40])
    return [made, stored, copies]


# ----------------------------------------------------------------------------- schema.py: the routes to a schema's names


def _names_route(node, obj):
    """Where an expression takes the column names of the schema object `obj` (`self`, `schema`, `self._schema`)
    from: 'columns' (the column objects as they are now), 'columnNames' (the accessor), 'iter' (iteration over the
    object).  `list(…)` / `tuple(…)` / `set(…)` / `iter(…)` around it and `str(…)` around an element do not matter."""
    while isinstance(node, ast.Call) and ast.unparse(node.func) in ("list", "tuple", "set", "iter", "sorted") and len(node.args) == 1 \
            and not node.keywords:
        if ast.unparse(node.func) == "sorted":
            raise Shape("sorted names")
        node = node.args[0]
    u = ast.unparse(node)
    if u == obj + ".column_names":
        return "columnNames"
    if u == obj:
        return "iter"
    if isinstance(node, (ast.ListComp, ast.GeneratorExp, ast.SetComp)) and len(node.generators) == 1:
        g = node.generators[0]
        if g.ifs or not isinstance(g.target, ast.Name):
            raise Shape("filtered names")
        v = g.target.id
        e = node.elt
        if isinstance(e, ast.Call) and ast.unparse(e.func) == "str" and len(e.args) == 1:
            e = e.args[0]
        src = ast.unparse(g.iter)
        eu = ast.unparse(e)
        if src == obj + ".columns" and eu == v + ".name":
            return "columns"
        if src == obj + ".column_names" and eu == v:
            return "columnNames"
        if src == obj and eu == v:
            return "iter"
    raise Shape("names expression %s" % u[:50])


def _body(fn):
    return [s for s in fn.body if not (isinstance(s, ast.Expr) and isinstance(s.value, ast.Constant))]


def schema_column_names(sch):
    """`RelationSchema.column_names`: computed from the column objects on every call, or kept on the instance.

    Recognised: `return [column.name for column in self.columns]` (and equivalents); a caching decorator
    (`cached_property`, `lru_cache`, `cache`: kept for ever); the memo
    `x = <instance state>; if x is None [or <test on lengths>]: x = <instance state> = <fresh names>; return x`."""
    fn = sch.func("column_names", "RelationSchema")
    decos = [ast.unparse(d) for d in fn.decorator_list]
    body = _body(fn)
    caching = [d for d in decos if d.split("(")[0].split(".")[-1] in ("cached_property", "lru_cache", "cache")]
    if caching:
        if len(body) == 1 and isinstance(body[0], ast.Return) and _names_route(body[0].value, "self") == "columns":
            return ["true", "true"]
        raise Shape("cached column_names of another form")
    if decos != ["property"]:
        raise Shape("column_names decorated %s" % decos)
    if len(body) == 1 and isinstance(body[0], ast.Return):
        if _names_route(body[0].value, "self") == "columns":
            return ["false", "true"]
        raise Shape("column_names does not read self.columns")
    if len(body) == 3 and isinstance(body[0], ast.Assign) and isinstance(body[1], ast.If) and isinstance(body[2], ast.Return):
        x = ast.unparse(body[0].targets[0])
        state = ast.unparse(body[0].value)
        if not (len(body[0].targets) == 1 and isinstance(body[0].targets[0], ast.Name)
                and (state.startswith("self.__dict__.get(") or state.startswith("getattr(self, ") or re.fullmatch(r"self\._\w+", state))):
            raise Shape("memo read %s" % state[:40])
        test = body[1].test
        conds = test.values if isinstance(test, ast.BoolOp) and isinstance(test.op, ast.Or) else [test]
        if ast.unparse(conds[0]) != "%s is None" % x or body[1].orelse or len(body[1].body) != 1:
            raise Shape("memo test")
        st = body[1].body[0]
        if not (isinstance(st, ast.Assign) and x in [ast.unparse(tg) for tg in st.targets] and len(st.targets) == 2
                and _names_route(st.value, "self") == "columns"):
            raise Shape("memo store")
        other = [ast.unparse(tg) for tg in st.targets if ast.unparse(tg) != x][0]
        if not (other.startswith("self.__dict__[") or re.fullmatch(r"self\._\w+", other)):
            raise Shape("memo store target %s" % other[:40])
        r = body[2].value
        if ast.unparse(r) not in (x, "list(%s)" % x, "%s[:]" % x, "%s.copy()" % x, "tuple(%s)" % x):
            raise Shape("memo return")
        env = {"len(%s)" % x: "(Int.ofNat kept.length)", "len(self.columns)": "(Int.ofNat cols.length)"}
        stale = [to_lean(c, env) for c in conds[1:]]  # Untranslatable -> degraded
        valid = "true" if not stale else "(!(decide (%s)))" % " ∨ ".join(stale)
        return ["true", valid]
    raise Shape("column_names body")


def schema_iter(sch):
    fn = sch.func("__iter__", "RelationSchema")
    body = _body(fn)
    if len(body) == 1 and isinstance(body[0], ast.Return):
        r = _names_route(body[0].value, "self")
    elif (len(body) == 1 and isinstance(body[0], ast.For) and len(body[0].body) == 1 and isinstance(body[0].body[0], ast.Expr)
          and isinstance(body[0].body[0].value, ast.Yield) and isinstance(body[0].target, ast.Name) and not body[0].orelse):
        v, src, y = body[0].target.id, ast.unparse(body[0].iter), ast.unparse(body[0].body[0].value.value)
        if src == "self.columns" and y == v + ".name":
            r = "columns"
        elif src == "self.column_names" and y == v:
            r = "columnNames"
        else:
            raise Shape("__iter__ loop")
    elif len(body) == 1 and isinstance(body[0], ast.Expr) and isinstance(body[0].value, ast.YieldFrom):
        r = _names_route(body[0].value.value, "self")
    else:
        raise Shape("__iter__ body")
    if r == "iter":
        raise Shape("__iter__ iterates itself")
    return r


def class_fields_route(row):
    """`Row.create_class(schema)`: the assignment to `fields` that is in force for a RelationSchema when the class
    is made (a later unconditional assignment replaces an earlier one)."""
    fn = row.func("create_class", "Row")
    route = None
    for st in fn.body:
        if isinstance(st, ast.Assign) and [ast.unparse(t) for t in st.targets] == ["fields"]:
            route = _names_route(st.value, "schema")
        elif isinstance(st, ast.If) and ast.unparse(st.test) == "isinstance(schema, RelationSchema)":
            for s0 in st.body:
                if isinstance(s0, ast.Assign) and [ast.unparse(t) for t in s0.targets] == ["fields"]:
                    route = _names_route(s0.value, "schema")
                elif isinstance(s0, ast.Return):
                    raise Shape("return in the RelationSchema branch")
        elif isinstance(st, ast.Return):
            break
    if route is None:
        raise Shape("fields = …")
    return route


def validate_route(sch):
    fn = sch.func("validate", "RelationSchema")
    extra, loop = None, None
    for st in fn.body:
        if isinstance(st, ast.Assign) and ast.unparse(st.targets[0]) == "extra_fields":
            v = st.value
            if not (isinstance(v, ast.BinOp) and isinstance(v.op, ast.Sub) and ast.unparse(v.left) in ("set(data.keys())", "set(data)")):
                raise Shape("extra_fields")
            extra = _names_route(v.right, "self")
        if isinstance(st, ast.For):
            src = ast.unparse(st.iter)
            if src == "self.columns":
                loop = "columns"
            else:
                raise Shape("validate loops over %s" % src[:30])
    if extra is None or loop is None:
        raise Shape("validate: extra_fields / for column in self.columns")
    if extra != loop:
        raise Shape("validate reads the names two ways")
    return extra


def frame_names_route(df):
    fn = df.func("column_names", "DataFrame")
    rets = sorted((s for s in ast.walk(fn) if isinstance(s, ast.Return)), key=lambda s: s.lineno)
    if len(rets) != 2:
        raise Shape("DataFrame.column_names: two returns")
    return _names_route(rets[1].value, "self._schema")


def append_refresh(df):
    """`DataFrame.append`: after validation, is the row factory re-made when its `_fields` are no longer the
    schema's names?  [refreshes, route by which the names are read]"""
    fn = df.func("append", "DataFrame")
    for st in fn.body:
        if isinstance(st, ast.If) and ast.unparse(st.test) == "isinstance(self._schema, RelationSchema)":
            seen_validate = False
            local = {}
            for s0 in st.body:
                u = ast.unparse(s0)
                if "validate(" in u and not isinstance(s0, ast.If):
                    seen_validate = True
                    continue
                if (isinstance(s0, ast.Assign) and len(s0.targets) == 1 and isinstance(s0.targets[0], ast.Name)
                        and "_row_factory" not in u):
                    local[s0.targets[0].id] = s0.value  # e.g. `fields = tuple(str(c.name) for c in self._schema.columns)`
                    continue
                if isinstance(s0, ast.If) and "_row_factory" in ast.unparse(s0.test):
                    t = s0.test
                    if not (isinstance(t, ast.Compare) and len(t.ops) == 1 and isinstance(t.ops[0], ast.NotEq)):
                        raise Shape("refresh test")
                    a, b = t.left, t.comparators[0]
                    if ast.unparse(b) == "self._row_factory._fields":
                        a, b = b, a
                    if ast.unparse(a) != "self._row_factory._fields":
                        raise Shape("refresh test")
                    b_name = b.id if isinstance(b, ast.Name) else None
                    if b_name in local:
                        b = local[b_name]
                    route = _names_route(b, "self._schema")
                    body = [ast.unparse(x) for x in s0.body]
                    if s0.orelse:
                        raise Shape("refresh body")
                    if body == ["self._row_factory = Row.create_class(self._schema)"]:
                        fresh = "true"   # a NEW class; the rows built so far keep theirs
                    elif b_name is not None and body == ["self._row_factory._fields = %s" % b_name] or (
                            len(s0.body) == 1 and isinstance(s0.body[0], ast.Assign)
                            and ast.unparse(s0.body[0].targets[0]) == "self._row_factory._fields"
                            and _names_route(s0.body[0].value, "self._schema") == route):
                        fresh = "false"  # the names are written onto the EXISTING class, which the earlier rows share
                    else:
                        raise Shape("refresh body")
                    if not seen_validate:
                        raise Shape("refresh before validation")
                    return ["true", route, fresh]
                if "_row_factory" in u:
                    raise Shape("row factory statement %s" % u[:40])
            return ["false", "columns", "true"]
    raise Shape("if isinstance(self._schema, RelationSchema)")


PINNED_SCHEMA = {"names": ["false", "true"], "iter": "columns", "class": "iter", "validate": "columns", "frame": "columns",
                 "refresh": ["true", "columns", "true"]}


def schema_routes(sch, row, df):
    return {"names": schema_column_names(sch), "iter": schema_iter(sch), "class": class_fields_route(row),
            "validate": validate_route(sch), "frame": frame_names_route(df), "refresh": append_refresh(df)}


PINNED = {
    "c02.pyx.extract_loop": PINNED_LOOP,
    "c02.row.new": ["true", "true", "true"],
    "c02.row.create_class": ["false", "(if tuplesOnly then false else true)"],
    "c02.row.views": PINNED_VIEWS,
    "c02.row.view_objects": PINNED_OBJECTS,
    "c02.row.as_json_call": PINNED_JSON_CALL,
    "c02.row.get": ["true", "index"],
    "c02.dataframe.init_dictionaries": PINNED_FRAME,
    "c02.dataframe.append": ["true", "true", "true"],
    "c02.dataframe.init_source": PINNED_SOURCE,
    "c02.dataframe.init_streams": "true",
    "c02.row.new_mapping": "((!(isDict || isSeq)) && (isMapping))",
    "c02.dataframe.append_copy": ["((isMutable) && (!isExact))", "true", "true"],
    "c02.row.record_guard": PINNED_GUARD,
    "c02.dataframe.append_sizes": "true",
    "c02.schema.routes": PINNED_SCHEMA,
}

# ----------------------------------------------------------------------------- text


def generate(o):
    pyx = Src("orso/compute/compiled.pyx")
    row = Src("orso/row.py")
    df = Src("orso/dataframe.py")
    lp = o.item("c02.pyx.extract_loop", lambda: pyx_loop(pyx.text), PINNED["c02.pyx.extract_loop"])
    nw = o.item("c02.row.new", lambda: row_new(row), PINNED["c02.row.new"])
    cc = o.item("c02.row.create_class", lambda: create_class(row), PINNED["c02.row.create_class"])
    vw = o.item("c02.row.views", lambda: views(row), PINNED["c02.row.views"])
    vo = o.item("c02.row.view_objects", lambda: view_objects(row), PINNED["c02.row.view_objects"])
    gt = o.item("c02.row.get", lambda: row_get(row), PINNED["c02.row.get"])
    jc = o.item("c02.row.as_json_call", lambda: as_json_call(row), PINNED["c02.row.as_json_call"])
    fr = o.item("c02.dataframe.init_dictionaries", lambda: frame_init(df), PINNED["c02.dataframe.init_dictionaries"])
    ap = o.item("c02.dataframe.append", lambda: frame_append(df), PINNED["c02.dataframe.append"])
    sg = o.item("c02.dataframe.init_source", lambda: frame_source(df), PINNED["c02.dataframe.init_source"])
    fs = o.item("c02.dataframe.init_streams", lambda: frame_streams(df), PINNED["c02.dataframe.init_streams"])
    nm = o.item("c02.row.new_mapping", lambda: row_new_mapping(row), PINNED["c02.row.new_mapping"])
    ac = o.item("c02.dataframe.append_copy", lambda: append_copy(df), PINNED["c02.dataframe.append_copy"])
    rg = o.item("c02.row.record_guard", lambda: record_guard(row), PINNED["c02.row.record_guard"])
    az = o.item("c02.dataframe.append_sizes", lambda: append_sizes(df), PINNED["c02.dataframe.append_sizes"])
    sig = {"as_map": "List (String × α)", "as_dict": "List (String × α)", "values": "List α", "keys": "List String",
           "as_json": "List (String × α)"}
    doc = {"as_json": "/-- the object `as_json` serialises: first argument of `orjson.dumps` -/\n"}
    t = HEADER + "import OrsoVerif.Model.DictRow\n"
    t += ("/-! Statements of `extract_dict_columns` (orso/compute/compiled.pyx), `Row.__new__` / `get` / the views /\n"
          "`create_class` (orso/row.py) and the dictionary constructor / `append` of orso/dataframe.py, lifted from the\n"
          "source (harness/extractors/c02.py).  Model/DictRowCode.lean assembles them; Props/C02.lean proves the\n"
          "assembled code equal to the specification functions of Model/DictRow.lean. -/\n")
    t += "set_option linter.unusedVariables false\nnamespace Gen.DictCode\nopen DictRow (ofPairs View Seg)\n\n"
    t += "/-! ### compiled.pyx — extract_dict_columns -/\n"
    t += "/-- number of iterations: `range(num_fields)` with `num_fields = len(fields)` -/\n"
    t += "def loopCount (lenFields : Int) : Int := %s\n" % lp["count"]
    t += "/-- size of the result buffer: `[None] * num_fields` -/\n"
    t += "def bufferSize (lenFields : Int) : Int := %s\n" % lp["size"]
    t += "/-- which field is looked up in iteration `i`: `PyDict_GetItem(data, fields[i])` -/\n"
    t += "def keyIndex (lenFields i : Int) : Int := %s\n" % lp["key"]
    t += "/-- the test that selects the first branch, as a function of \"the key was found\": `value_ptr != NULL` -/\n"
    t += "def foundTest (found : Bool) : Bool := %s\n" % lp["found"]
    t += "/-- first branch: `field_data[i] = <object>value_ptr` -/\n"
    t += "def thenStoreIndex (lenFields i : Int) : Int := %s\n" % lp["then"][0]
    t += "def thenStoresValue : Bool := %s\n" % lp["then"][1]
    t += "/-- second branch: `field_data[i] = None` -/\n"
    t += "def elseStoreIndex (lenFields i : Int) : Int := %s\n" % lp["else"][0]
    t += "def elseStoresValue : Bool := %s\n" % lp["else"][1]
    t += "\n/-! ### row.py — Row.__new__, create_class -/\n"
    t += "/-- `if isinstance(data, dict):` guards the extractor call -/\n"
    t += "def newGuardIsDict : Bool := %s\n" % nw[0]
    t += "/-- `data = extract_dict_columns(data, cls._fields)`: the dictionary first, the class's field tuple second -/\n"
    t += "def newExtractorArgsInOrder : Bool := %s\n" % nw[1]
    t += "/-- `if type(data) is not dict: data = dict(data)` before the call (the compiled helper takes exact dictionaries only) -/\n"
    t += "def newCopiesSubclass : Bool := %s\n" % nw[2]
    t += "/-- default of `create_class(..., tuples_only=…)` -/\n"
    t += "def tuplesOnlyDefault : Bool := %s\n" % cc[0]
    t += "/-- whether the class returned for a given `tuples_only` keeps `Row.__new__` (the one that handles dictionaries) -/\n"
    t += "def classHandlesDict (tuplesOnly : Bool) : Bool := %s\n" % cc[1]
    t += "\n/-! ### row.py — the views and get -/\n"
    for name in vw["order"]:
        t += doc.get(name, "")
        t += "def %s {α : Type} (fields : List String) (row : List α) : %s := %s\n" % (VIEW_DEFS[name], sig[name], vw["terms"][name])
    t += "\n/-! ### row.py — the OBJECT each view hands out -/\n"
    t += "/-- `@cached_property`: evaluated on the first read, the object stored on the row and handed out again -/\n"
    t += "def viewCached : View → Bool\n" + "".join("  | .%s => %s\n" % (VIEW_CTOR[n], vo["cached"][n]) for n in VIEW_NAMES)
    t += "/-- the class's field tuple (`fields = tuple(...)` in create_class) is of a kind that can be changed in place -/\n"
    t += "def fieldsMutable : Bool := %s\n" % vo["fields_mutable"]
    t += "/-- the returned object is of a kind the caller can change in place (dict, list; not tuple, bytes) -/\n"
    t += "def viewMutable : View → Bool\n" + "".join("  | .%s => %s\n" % (VIEW_CTOR[n], vo["mutable"][n]) for n in VIEW_NAMES)
    t += "/-- the returned object is the class's own `_fields` -/\n"
    t += "def viewAliasesFields : View → Bool\n" + "".join("  | .%s => %s\n" % (VIEW_CTOR[n], vo["alias"][n]) for n in VIEW_NAMES)
    t += "/-- the other views the expression reads (`self.as_map`, …), in evaluation order -/\n"
    t += "def viewDeps : View → List View\n" + "".join(
        "  | .%s => [%s]\n" % (VIEW_CTOR[n], ", ".join("." + VIEW_CTOR[d] for d in vo["deps"][n])) for n in VIEW_NAMES)
    t += "/-- position in the order in which the views can be defined (a view only reads views of lower rank) -/\n"
    t += "def viewRank : View → Nat\n" + "".join("  | .%s => %d\n" % (VIEW_CTOR[n], vo["rank"][n]) for n in VIEW_NAMES)
    t += "/-- the return expressions again, with what the other views returned as parameters -/\n"
    for name in VIEW_NAMES:
        t += ("def %s {α : Type} (fields : List String) (row : List α) (mapV dictV : List (String × α)) (valsV : List α) "
              "(keysV : List String) : %s := %s\n" % (VIEW_DEFS[name].replace("Expr", "From").replace("asJsonViewFrom", "asJsonFrom"),
                                                       sig[name], vo["from"][name]))
    t += "/-- the flags of the `option=` argument of the `orjson.dumps` call of `as_json` (none: no such argument) -/\n"
    t += "def asJsonOptions : List String := [%s]\n" % ", ".join('"%s"' % f for f in jc["options"])
    t += "/-- its `default=` argument: the callable that renders what orjson has no rendering for -/\n"
    t += "def asJsonDefault : String := \"%s\"\n" % jc["default"]
    t += "/-- `except ValueError: return default` -/\n"
    t += "def getAbsentReturnsDefault : Bool := %s\n" % gt[0]
    t += "/-- `return self[index]` -/\n"
    t += "def getIndex (index : Int) : Int := %s\n" % gt[1]
    t += "\n/-! ### dataframe.py — DataFrame(dictionaries), append -/\n"
    t += "/-- `self._schema = [str(k) for k in first_dict]` -/\n"
    t += "def frameSchemaIsFirstKeys : Bool := %s\n" % fr["schema"]
    t += "/-- `keys = list(first_dict.keys())` -/\n"
    t += "def frameLookupKeysAreFirstKeys : Bool := %s\n" % fr["keys"]
    t += "/-- the cell expression is `row.get(k, None)` (absent key gives null, never raises) -/\n"
    t += "def frameCellIsGetWithNullDefault : Bool := %s\n" % fr["cell"]
    t += "/-- rows are built `for row in chain([first_dict], dicts)` -/\n"
    t += "def frameSourceIncludesFirst : Bool := %s\n" % fr["first"]
    t += "/-- filter of the row comprehension (`true`: none in the source) -/\n"
    t += "def frameRowKept {α : Type} (d : List (String × α)) : Bool := %s\n" % fr["kept"]
    t += "/-- `tuples_only` at `Row.create_class(self._schema)` in the dictionaries branch / the rows branch -/\n"
    t += "def frameDictsTuplesOnly : Bool := %s\n" % fr["t_dicts"]
    t += "def frameRowsTuplesOnly : Bool := %s\n" % fr["t_rows"]
    t += "/-- `new_row = self._row_factory(entry)` … `self._rows.append(new_row)` -/\n"
    t += "def appendBuildsRowWithFactory : Bool := %s\n" % ap[0]
    t += "def appendStoresNewRow : Bool := %s\n" % ap[1]
    t += "/-- `if isinstance(entry, MutableMapping) and type(entry) is not dict: entry = dict(entry)` -/\n"
    t += "def appendCopiesSubclass : Bool := %s\n" % ap[2]
    t += "\n/-! ### dataframe.py — how the constructor walks the caller's sequence of dictionaries -/\n"
    t += "/-- the source of the row comprehension (`for row in chain([first_dict], dicts)`), as a function of \"the caller's object\n"
    t += "is its own iterator\" (`dicts is dictionaries`): `first` = the record `next(dicts)` took off, `rest` = what the iterator\n"
    t += "`dicts` still has, `again` = a NEW iteration of the caller's object -/\n"
    t += "def frameSourceSegs (selfIter : Bool) : List Seg := %s\n" % sg
    t += "/-- `true`: a record is read when the caller's iterable hands it over (the rows are built while the iterable is walked);\n"
    t += "`false`: the iterable is run to its end first (`list(dicts)`) and the records are read afterwards -/\n"
    t += "def frameSourceStreams : Bool := %s\n" % fs
    t += "\n/-! ### the KIND of object a record is held in (dict, subclass of dict, other mutable mapping, read-only mapping) -/\n"
    t += "/-- `Row.__new__`: `if not isinstance(data, (dict, tuple, list)) and isinstance(data, Mapping): data = dict(data)` in front of\n"
    t += "the dictionary guard -/\n"
    t += "def newConvertsMapping (isDict isExact isSeq isMutable isMapping : Bool) : Bool := %s\n" % nm
    t += "/-- `DataFrame.append`: the test of `if …: entry = dict(entry)` -/\n"
    t += "def appendCopiesKind (isDict isExact isSeq isMutable isMapping : Bool) : Bool := %s\n" % ac[0]
    t += "/-- … and whether that statement is reached on a frame whose schema is a list of names / a RelationSchema -/\n"
    t += "def appendCopyOnNames : Bool := %s\n" % ac[1]
    t += "def appendCopyOnBound : Bool := %s\n" % ac[2]
    t += "\n/-! ### row.py — the record-size guard of `as_bytes`, reached from `append` through `nbytes` -/\n"
    t += "def headerSize : Int := %s\n" % rg[0]
    t += "def maximumRecordSize : Int := %s\n" % rg[1]
    t += "/-- `if record_size > MAXIMUM_RECORD_SIZE: raise DataError(…)` with `record_size = len(packb(tuple(self), …))` -/\n"
    t += "def recordRefused (recordSize : Int) : Bool := decide %s\n" % rg[2]
    t += "/-- `row_size = new_row.nbytes()` stands before `self._rows.append(new_row)` -/\n"
    t += "def appendSizesRowFirst : Bool := %s\n" % az
    t += "end Gen.DictCode\n"
    o.files["DictCode.lean"] = t
    sch = Src("orso/schema.py")
    rt = {}
    for key, getter in (("names", lambda: schema_column_names(sch)), ("iter", lambda: schema_iter(sch)),
                        ("class", lambda: class_fields_route(row)), ("validate", lambda: validate_route(sch)),
                        ("frame", lambda: frame_names_route(df)), ("refresh", lambda: append_refresh(df))):
        rt[key] = o.item("c02.schema.routes." + key, getter, PINNED_SCHEMA[key])
    o.json["c02.schema.routes"] = rt
    for key in PINNED_SCHEMA:
        o.json.pop("c02.schema.routes." + key, None)
    s = HEADER + "import OrsoVerif.Model.DictRow\n"
    s += ("/-! How the code gets at the column names of a `RelationSchema` object (orso/schema.py `column_names`, `__iter__`,\n"
          "`validate`; orso/row.py `create_class`; orso/dataframe.py `column_names`, `append`), lifted from the source\n"
          "(harness/extractors/c02.py).  Model/DictSchema.lean assembles them as `codeCfg`. -/\n")
    s += "set_option linter.unusedVariables false\nnamespace Gen.SchemaCode\nopen DictRow (IterVia Via)\n\n"
    s += "/-- `RelationSchema.column_names` keeps its result on the instance (a memo, a caching decorator) -/\n"
    s += "def schemaNamesKept : Bool := %s\n" % rt["names"][0]
    s += "/-- (kept list, column names now) ↦ the kept list is handed out again (`true` when nothing revalidates it) -/\n"
    s += "def schemaKeptValid (kept cols : List String) : Bool := %s\n" % rt["names"][1]
    s += "/-- `RelationSchema.__iter__` -/\n"
    s += "def schemaIterVia : IterVia := .%s\n" % rt["iter"]
    s += "/-- `Row.create_class(schema)`: the assignment to `fields` in force when the class is made -/\n"
    s += "def classFieldsVia : Via := .%s\n" % rt["class"]
    s += "/-- `RelationSchema.validate`: the names the record's keys are compared with -/\n"
    s += "def validateNamesVia : Via := .%s\n" % rt["validate"]
    s += "/-- `DataFrame.column_names` on a frame bound to a RelationSchema -/\n"
    s += "def frameNamesVia : Via := .%s\n" % rt["frame"]
    s += "/-- `DataFrame.append`: `if self._row_factory._fields != <names>: self._row_factory = Row.create_class(self._schema)` -/\n"
    s += "def appendRefreshesFactory : Bool := %s\n" % rt["refresh"][0]
    s += "def appendRefreshVia : Via := .%s\n" % rt["refresh"][1]
    s += "/-- … and the factory re-made is a NEW class (`self._row_factory = Row.create_class(…)`), not new names written onto the\n"
    s += "class the rows built so far are instances of (`self._row_factory._fields = …`) -/\n"
    s += "def appendRefreshMakesNewClass : Bool := %s\n" % (rt["refresh"] + ["true"])[2]
    s += "end Gen.SchemaCode\n"
    o.files["SchemaCode.lean"] = s
