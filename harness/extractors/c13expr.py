"""C13/C14: the arithmetic of the streaming histogram, lifted from the AST into Lean terms.

`Generated/DistogramExpr.lean` holds the *expressions* `orso/profiler/distogram/__init__.py` and
`orso/profiler/profiler.py` contain now — the weighted-centroid merge of `_trim` and of
`_trim_in_place`, the bulk-load midpoint, the cached difference of `load`, the in-place search,
the three branches of `count_at` and of `quantile` with their guards, `estimate_values_above` —
as definitions polymorphic over the carrier (`+ - * / < ≤`, Mathlib-free).  `Model/Distogram.lean`
and `Model/Estimators.lean` assemble them in a hand-written skeleton, so the C13/C14 theorems are
re-checked against the arithmetic in the code.  A statement that is not found in the expected
shape degrades to the pinned text (`o.item`) and is then carried by correspondence only.
"""
import ast
import re

from ..extract import HEADER, Src
from ..pyexpr import Untranslatable, find_function, to_lean


class _Eq(ast.NodeTransformer):
    """`a == b` on numbers -> eqK(a, b) (decided through the order; there is no DecidableEq Float)."""

    def visit_Compare(self, n):
        self.generic_visit(n)
        if len(n.ops) == 1 and isinstance(n.ops[0], ast.Eq):
            return ast.Call(func=ast.Name(id="eqK", ctx=ast.Load()), args=[n.left, n.comparators[0]], keywords=[])
        return n


def lean(node, env):
    node = ast.fix_missing_locations(_Eq().visit(ast.parse(ast.unparse(node), mode="eval").body))
    return to_lean(node, env, mode="field", funcs={"eqK": "eqK"})


def order_only(test, what):
    """A guard the carrier can state: comparisons through the order (and `==`, decided through the order) only — `!=`, `is`, `in`,
    calls (`math.isnan(value)`) are outside it: the item degrades to the pinned guard instead of a definition that does not build."""
    for n in ast.walk(test):
        if isinstance(n, ast.Compare) and not all(isinstance(op, (ast.Lt, ast.LtE, ast.Gt, ast.GtE, ast.Eq)) for op in n.ops):
            raise KeyError("%s: comparison outside the order" % what)
        if isinstance(n, (ast.Call, ast.IfExp, ast.Lambda)):
            raise KeyError("%s: not a plain comparison" % what)
    return test


def stmts(nodes):
    return ast.Module(body=list(nodes), type_ignores=[])


def assigned(nodes, target):
    """Expressions assigned (or aug-assigned) to `target` in the statements `nodes`, in source order."""
    out = []
    for n in ast.walk(stmts(nodes)):
        if isinstance(n, ast.Assign) and len(n.targets) == 1 and ast.unparse(n.targets[0]) == target:
            out.append((n.lineno, n.col_offset, n.value))
        elif isinstance(n, ast.AugAssign) and ast.unparse(n.target) == target:
            out.append((n.lineno, n.col_offset, ast.BinOp(left=n.target, op=n.op, right=n.value)))
    out.sort(key=lambda t: t[:2])
    return [t[2] for t in out]


def one(xs, what):
    if len(xs) != 1:
        raise KeyError("%s: expected one statement, found %d" % (what, len(xs)))
    return xs[0]


def sum_keys(expr):
    """unparse texts of the `sum(...)` calls inside an expression."""
    return [ast.unparse(n) for n in ast.walk(expr) if isinstance(n, ast.Call) and ast.unparse(n.func) == "sum"]


PIN = {
    "trim.centre": "(((v1 * f1) + (v2 * f2)) / (f1 + f2))",
    "trim.count": "(f1 + f2)",
    "inplace.centre": "(((cv * cf) + (nv * nc)) / (cf + nc))",
    "inplace.count": "(cf + nc)",
    "bulk.mid": "((a + b) / 2)",
    "load.diff": "(next - cur)",
    "search.diff1": "(nv - left)",
    "search.diff2": "(right - nv)",
    "search.pick_left": "(diff1 < diff2)",
    "search.in_place": "(diff < minDiff)",
    "count.outside": "(¬ ((lo ≤ x) ∧ (x ≤ hi)))",
    "count.at_min": "(eqK x lo)",
    "count.at_max": "(eqK x hi)",
    "count.left_test": "(x ≤ v0)",
    "count.left_ratio": "((x - lo) / (v0 - lo))",
    "count.left_result": "((ratio * v0) / 2)",
    "count.right_test": "(x ≥ vl)",
    "count.right_ratio": "((x - vl) / (hi - vl))",
    "count.right_result": "((((1 + ratio) * fl) / 2) + S)",
    "count.mb": "(fi + (((fj - fi) / (vj - vi)) * (x - vi)))",
    "count.interior_result": "((((((fi + mb) / 2) * (x - vi)) / (vj - vi)) + S) + (fi / 2))",
    "quant.in_range": "((0 ≤ p) ∧ (p ≤ 1))",
    "quant.qcount_arg": "(total * p)",
    "quant.left_test": "(q ≤ (f0 / 2))",
    "quant.left_fraction": "(q / (f0 / 2))",
    "quant.left_result": "(lo + (fraction * (v0 - lo)))",
    "quant.right_test": "(q ≥ (total - (fl / 2)))",
    "quant.right_base": "(q - (total - (fl / 2)))",
    "quant.right_fraction": "(base / (fl / 2))",
    "quant.right_result": "(vl + (fraction * (hi - vl)))",
    "quant.mb": "(q - (f0 / 2))",
    "quant.mid": "((fi + fj) / 2)",
    "quant.walk_test": "(mb < cum)",
    "quant.interior_fraction": "((mb - acc) / mid)",
    "quant.interior_result": "(vi + (fraction * (vj - vi)))",
    "above": "((count - missing) - c)",
}


def generate(o):
    src = Src("orso/profiler/distogram/__init__.py")
    prof = Src("orso/profiler/profiler.py")

    def fn(name, cls=None):
        return find_function(src.tree, name, cls)

    # ---- _trim / _trim_in_place: the tuple stored into bins[...]
    def stored_tuple(fname, target_prefix):
        f = fn(fname)
        hits = [n for n in ast.walk(f) if isinstance(n, ast.Assign) and len(n.targets) == 1
                and isinstance(n.targets[0], ast.Subscript) and ast.unparse(n.targets[0].value).endswith("bins")
                and isinstance(n.value, ast.Tuple) and len(n.value.elts) == 2]
        return one(hits, fname + ": bins[...] = (centre, count)").value.elts

    def computed_centre(fname):
        """The centre a merge *computes*: the first component of the stored tuple, seen through `min(max(E, lo), hi)` (the
        stored centre is kept within the pair it replaces — that wrapper is `Gen.DistogramOps.trimStored` /
        `inPlaceStored`, harness/extractors/c13ops.py) and through one local name (`centre = E`)."""
        e = stored_tuple(fname, None)[0]
        if (isinstance(e, ast.Call) and ast.unparse(e.func) == "min" and len(e.args) == 2 and not e.keywords
                and isinstance(e.args[0], ast.Call) and ast.unparse(e.args[0].func) == "max" and len(e.args[0].args) == 2):
            e = e.args[0].args[0]
        if isinstance(e, ast.Name):
            e = one(assigned(fn(fname).body, e.id), fname + ": %s = ..." % e.id)
        return e

    trim_env = {"v1": "v1", "f1": "f1", "v2": "v2", "f2": "f2"}
    inpl_env = {"current_value": "cv", "current_frequency": "cf", "new_value": "nv", "new_count": "nc"}
    v = {}
    v["trim.centre"] = o.item("distogram.expr.trim.centre", lambda: lean(computed_centre("_trim"), trim_env), PIN["trim.centre"])
    v["trim.count"] = o.item("distogram.expr.trim.count", lambda: lean(stored_tuple("_trim", "h")[1], trim_env), PIN["trim.count"])
    v["inplace.centre"] = o.item("distogram.expr.inplace.centre", lambda: lean(computed_centre("_trim_in_place"), inpl_env), PIN["inplace.centre"])
    v["inplace.count"] = o.item("distogram.expr.inplace.count", lambda: lean(stored_tuple("_trim_in_place", "distogram")[1], inpl_env), PIN["inplace.count"])

    # ---- bulkload midpoint: the element of the list comprehension over range(len(bin_values) - 1)
    def bulk_mid():
        f = fn("bulkload", "Distogram")
        comps = [n for n in ast.walk(f) if isinstance(n, ast.ListComp) and "bin_values" in ast.unparse(n.elt)
                 and ast.unparse(n.generators[0].iter).replace(" ", "") == "range(len(bin_values)-1)"]
        c = one(comps, "bulkload midpoint comprehension")
        i = ast.unparse(c.generators[0].target)
        return lean(c.elt, {"bin_values[%s]" % i: "a", "bin_values[%s + 1]" % i: "b"})

    v["bulk.mid"] = o.item("distogram.expr.bulk.mid", bulk_mid, PIN["bulk.mid"])

    # ---- load: diff over range(len(bins) - 1); bins[i - 1] is the *previous* bin (Python wraps at i = 0)
    def load_diff():
        f = fn("load")
        loops = [n for n in f.body if isinstance(n, ast.For) and ast.unparse(n.iter).replace(" ", "") == "range(len(dgram.bins)-1)"]
        lp = one(loops, "load: for i in range(len(bins) - 1)")
        i = ast.unparse(lp.target)
        e = one(assigned(lp.body, "diff"), "load: diff = ...")
        app = [n for n in ast.walk(stmts(lp.body)) if isinstance(n, ast.Call) and ast.unparse(n.func) == "dgram.diffs.append" and ast.unparse(n.args[0]) == "diff"]
        one(app, "load: diffs.append(diff)")
        return lean(e, {"dgram.bins[%s - 1][0]" % i: "prev", "dgram.bins[%s][0]" % i: "cur", "dgram.bins[%s + 1][0]" % i: "next"})

    v["load.diff"] = o.item("distogram.expr.load.diff", load_diff, PIN["load.diff"])

    # ---- _search_in_place_index
    def search(what):
        f = fn("_search_in_place_index")
        env = {"new_value": "nv", "h.bins[index - 1][0]": "left", "h.bins[index][0]": "right"}
        if what == "diff1":
            return lean(one(assigned(f.body, "diff1"), "diff1"), env)
        if what == "diff2":
            return lean(one(assigned(f.body, "diff2"), "diff2"), env)
        if what == "pick_left":
            hits = [n for n in ast.walk(f) if isinstance(n, ast.IfExp) and isinstance(n.body, ast.Tuple)]
            ie = one(hits, "(index - 1, diff1) if ... else (index, diff2)")
            if ast.unparse(ie.body).replace(" ", "") != "(index-1,diff1)" or ast.unparse(ie.orelse).replace(" ", "") != "(index,diff2)":
                raise KeyError("in-place candidates")
            return lean(ie.test, {"diff1": "diff1", "diff2": "diff2"})
        hits = [n for n in ast.walk(f) if isinstance(n, ast.IfExp) and ast.unparse(n.body) == "i_bin"]
        ie = one(hits, "return i_bin if ... else -1")
        if ast.unparse(ie.orelse).replace(" ", "") != "-1":
            raise KeyError("in-place refusal value")
        return lean(ie.test, {"diff": "diff", "h.min_diff": "minDiff"})

    for k in ("diff1", "diff2", "pick_left", "in_place"):
        v["search." + k] = o.item("distogram.expr.search." + k, (lambda k=k: search(k)), PIN["search." + k])

    # ---- count_at
    cenv = {"value": "x", "h.min": "lo", "h.max": "hi", "v0": "v0", "f0": "f0", "vl": "vl", "fl": "fl",
            "vi": "vi", "fi": "fi", "vj": "vj", "fj": "fj", "ratio": "ratio", "mb": "mb"}

    def count_chain():
        f = fn("count_at")
        top = [n for n in f.body if isinstance(n, ast.If) and "v0" in ast.unparse(n.test)]
        left = one(top, "count_at: if value <= v0")
        if len(left.orelse) != 1 or not isinstance(left.orelse[0], ast.If):
            raise KeyError("count_at: elif value >= vl")
        right = left.orelse[0]
        return f, left, right

    def count(what):
        f, left, right = count_chain()
        guards = [n for n in f.body if isinstance(n, ast.If) and len(n.body) == 1 and isinstance(n.body[0], ast.Return)]
        if what == "outside":
            # the guard on the query point, in whichever spelling: `value < h.min or value > h.max`, `not (h.min <= value <= h.max)`, …
            # (translated as written: the two agree on numbers, not on NaN — C14.countAt_nan is stated over a carrier with NaN)
            g = [n for n in guards if ast.unparse(n.body[0].value) == "None" and "value" in ast.unparse(n.test) and "h.bins" not in ast.unparse(n.test)]
            return lean(order_only(one(g, "count_at: outside guard").test, "count_at: outside guard"), cenv)
        if what == "at_min":
            g = [n for n in guards if ast.unparse(n.body[0].value) == "0"]
            return lean(one(g, "count_at: value == min").test, cenv)
        if what == "at_max":
            g = [n for n in guards if ast.unparse(n.body[0].value) in ("count(h)", "h.count()")]
            return lean(one(g, "count_at: value == max").test, cenv)
        if what == "left_test":
            return lean(left.test, cenv)
        if what == "right_test":
            return lean(right.test, cenv)
        if what == "left_ratio":
            return lean(one(assigned(left.body, "ratio"), "left ratio"), cenv)
        if what == "left_result":
            return lean(one(assigned(left.body, "result"), "left result"), cenv)
        if what == "right_ratio":
            return lean(one(assigned(right.body, "ratio"), "right ratio"), cenv)
        if what == "right_result":
            rs = assigned(right.body, "result")
            if len(rs) != 2:
                raise KeyError("right result statements")
            env = dict(cenv)
            ks = sum_keys(rs[1])
            if len(ks) != 1 or "h.bins[:-1]" not in ks[0]:
                raise KeyError("right: sum over bins[:-1]")
            env[ks[0]] = "S"
            env["result"] = lean(rs[0], cenv)
            return lean(rs[1], env)
        inner = right.orelse
        if what == "mb":
            return lean(one(assigned(inner, "mb"), "interior mb"), cenv)
        if what == "interior_result":
            rs = assigned(inner, "result")
            if len(rs) != 3:
                raise KeyError("interior result statements")
            idx = one(assigned(inner, "i"), "interior index")
            if ast.unparse(idx).replace(" ", "") != "sum((value>vforv,_inh.bins))-1":
                raise KeyError("interior index expression")
            env = dict(cenv)
            ks = sum_keys(rs[1])
            if len(ks) != 1 or "h.bins[:i]" not in ks[0]:
                raise KeyError("interior: sum over bins[:i]")
            env[ks[0]] = "S"
            env["result"] = lean(rs[0], cenv)
            env["result"] = lean(rs[1], env)
            return lean(rs[2], env)
        raise KeyError(what)

    for k in ("outside", "at_min", "at_max", "left_test", "left_ratio", "left_result", "right_test", "right_ratio",
              "right_result", "mb", "interior_result"):
        v["count." + k] = o.item("distogram.expr.count_at." + k, (lambda k=k: count(k)), PIN["count." + k])

    # ---- quantile
    qenv = {"value": "p", "q_count": "q", "total_count": "total", "h.min": "lo", "h.max": "hi", "v0": "v0", "f0": "f0",
            "vl": "vl", "fl": "fl", "vi": "vi", "vj": "vj", "fi": "fi", "fj": "fj", "fraction": "fraction", "base": "base",
            "mb": "mb", "mids[i]": "mid", "sum(mids[:i])": "acc", "i_f[1]": "cum"}

    def quant(what):
        f = fn("quantile")
        top = [n for n in f.body if isinstance(n, ast.If) and "q_count" in ast.unparse(n.test)]
        left = one(top, "quantile: if q_count <= f0 / 2")
        if len(left.orelse) != 1 or not isinstance(left.orelse[0], ast.If):
            raise KeyError("quantile: elif")
        right = left.orelse[0]
        inner = right.orelse
        if what == "in_range":
            # the guard on the level, in whichever spelling; `quantInRange` is the condition under which the function goes on:
            # the operand of a `not (…)`, else the negation of the test as written (the two agree on numbers, not on NaN —
            # C14.quantile_nan is stated over a carrier with NaN)
            g = [n for n in f.body if isinstance(n, ast.If) and len(n.body) == 1 and ast.unparse(n.body[0]) == "return None" and not n.orelse
                 and "value" in ast.unparse(n.test) and "h.bins" not in ast.unparse(n.test)]
            t = order_only(one(g, "quantile: guard on the level").test, "quantile: guard on the level")
            if isinstance(t, ast.UnaryOp) and isinstance(t.op, ast.Not):
                return lean(t.operand, qenv)
            return "(¬%s)" % lean(t, qenv)
        if what == "qcount_arg":
            e = one(assigned(f.body, "q_count"), "q_count")
            if not (isinstance(e, ast.Call) and ast.unparse(e.func) == "int" and len(e.args) == 1):
                raise KeyError("q_count = int(...)")
            return lean(e.args[0], qenv)
        if what == "left_test":
            return lean(left.test, qenv)
        if what == "right_test":
            return lean(right.test, qenv)
        if what == "left_fraction":
            return lean(one(assigned(left.body, "fraction"), "left fraction"), qenv)
        if what == "left_result":
            return lean(one(assigned(left.body, "result"), "left result"), qenv)
        if what == "right_base":
            return lean(one(assigned(right.body, "base"), "right base"), qenv)
        if what == "right_fraction":
            return lean(one(assigned(right.body, "fraction"), "right fraction"), qenv)
        if what == "right_result":
            return lean(one(assigned(right.body, "result"), "right result"), qenv)
        if what == "mb":
            return lean(one(assigned(inner, "mb"), "interior mb"), qenv)
        if what == "mid":
            comps = [n for n in ast.walk(stmts(inner)) if isinstance(n, ast.ListComp)]
            c = one(comps, "mids comprehension")
            if ast.unparse(c.generators[0].iter).replace(" ", "") != "zip(h.bins[:-1],h.bins[1:])":
                raise KeyError("mids pairs")
            return lean(c.elt, qenv)
        if what == "walk_test":
            lam = [n for n in ast.walk(stmts(inner)) if isinstance(n, ast.Lambda)]
            l = one(lam, "filter lambda")
            if "accumulate(mids)" not in ast.unparse(stmts(inner)):
                raise KeyError("accumulate(mids)")
            return lean(l.body, qenv)
        if what == "interior_fraction":
            return lean(one(assigned(inner, "fraction"), "interior fraction"), qenv)
        if what == "interior_result":
            return lean(one(assigned(inner, "result"), "interior result"), qenv)
        raise KeyError(what)

    for k in ("in_range", "qcount_arg", "left_test", "left_fraction", "left_result", "right_test", "right_base",
              "right_fraction", "right_result", "mb", "mid", "walk_test", "interior_fraction", "interior_result"):
        v["quant." + k] = o.item("distogram.expr.quantile." + k, (lambda k=k: quant(k)), PIN["quant." + k])

    # ---- profiler: estimate_values_above
    def above():
        f = find_function(prof.tree, "estimate_values_above", "ColumnProfile")
        ret = one([s for s in f.body if isinstance(s, ast.Return)], "estimate_values_above: return")
        calls = [ast.unparse(n) for n in ast.walk(ret.value) if isinstance(n, ast.Call) and ast.unparse(n.func) == "distogram.count_at"]
        k = one(calls, "count_at call")
        env = {"self.count": "count", "self.missing": "missing", k: "c"}
        # the histogram's own total (`distogram.count(<the Distogram>)`, `<the Distogram>.count()`) is the parameter `total`
        for n in ast.walk(ret.value):
            if isinstance(n, ast.Call) and not n.keywords and ((ast.unparse(n.func) == "distogram.count" and len(n.args) == 1)
                                                               or (isinstance(n.func, ast.Attribute) and n.func.attr == "count" and not n.args
                                                                   and "gram" in ast.unparse(n.func.value))):
                env[ast.unparse(n)] = "total"
        return lean(ret.value, env)

    v["above"] = o.item("distogram.expr.estimate_values_above", above, PIN["above"])

    # ---- emit
    hdr = HEADER + '''/-!
Arithmetic of `orso/profiler/distogram/__init__.py` and of `ColumnProfile.estimate_values_above`,
translated expression by expression from the working tree (harness/extractors/c13expr.py).
-/
namespace Gen.DistogramExpr
set_option linter.unusedVariables false

variable {K : Type} [Add K] [Sub K] [Mul K] [Div K] [LT K] [LE K]
  [DecidableLT K] [DecidableLE K] [OfNat K 0] [OfNat K 1] [OfNat K 2]

/-- Python `a == b` on numbers, through the order (no `DecidableEq Float`). -/
def eqK (a b : K) : Bool := decide (a ≤ b) && decide (b ≤ a)

'''
    defs = []
    degraded_shape = []

    def d(doc, name, params, ty, key, prop=False):
        text = v[key]
        free = set(re.findall(r"[A-Za-z_][A-Za-z0-9_]*", text)) - {"eqK", "if", "then", "else", "min", "max"}
        if not free <= set(params):
            # the source uses a quantity the skeleton does not pass: keep the pinned expression, report it
            o.degraded.append("distogram.expr.%s (uses %s)" % (key, sorted(free - set(params))))
            text = PIN[key]
        lits = set(re.findall(r"(?<![A-Za-z_0-9.])\d+(?![A-Za-z_0-9])", text)) - {"0", "1", "2"}
        if lits:
            # the carrier only promises the numerals 0, 1 and 2 (`OfNat K n`): another constant cannot be stated over every
            # ordered field without changing the models' signature -> pinned expression, carried by correspondence
            o.degraded.append("distogram.expr.%s (numeric literal %s)" % (key, sorted(lits)))
            text = PIN[key]
        if prop:
            # guards are Bool-valued (`decide` of the translated proposition): `if guard then …` in the models
            # then carries the standard Bool instance and unfolds cleanly in proofs
            ty, text = "Bool", "decide %s" % text
        defs.append("/-- %s -/\ndef %s (%s : K) : %s := %s\n" % (doc, name, " ".join(params), ty, text))

    d("`_trim`: centre of the merged bin", "trimCentre", ["v1", "f1", "v2", "f2"], "K", "trim.centre")
    d("`_trim`: count of the merged bin", "trimCount", ["v1", "f1", "v2", "f2"], "K", "trim.count")
    d("`_trim_in_place`: centre after absorbing the new value", "inPlaceCentre", ["cv", "cf", "nv", "nc"], "K", "inplace.centre")
    d("`_trim_in_place`: count after absorbing the new value", "inPlaceCount", ["cv", "cf", "nv", "nc"], "K", "inplace.count")
    d("`bulkload`: value inserted for the histogram bin with edges `a`, `b`", "bulkMid", ["a", "b"], "K", "bulk.mid")
    d("`load`: cached difference at position `i` (`prev` = bins[i-1], Python wraps at 0; `cur` = bins[i]; `next` = bins[i+1])", "loadDiff", ["prev", "cur", "next"], "K", "load.diff")
    d("`_search_in_place_index`: distance to the left neighbour", "searchDiff1", ["nv", "left", "right"], "K", "search.diff1")
    d("`_search_in_place_index`: distance to the right neighbour", "searchDiff2", ["nv", "left", "right"], "K", "search.diff2")
    d("`_search_in_place_index`: the left neighbour is the candidate", "searchPickLeft", ["diff1", "diff2"], "Prop", "search.pick_left", True)
    d("`_search_in_place_index`: the candidate is closer than the closest pair", "searchInPlace", ["diff", "minDiff"], "Prop", "search.in_place", True)
    d("`count_at`: outside the observed range", "countOutside", ["x", "lo", "hi"], "Prop", "count.outside", True)
    d("`count_at`: at the minimum", "countAtMin", ["x", "lo", "hi"], "Bool", "count.at_min")
    d("`count_at`: at the maximum", "countAtMax", ["x", "lo", "hi"], "Bool", "count.at_max")
    d("`count_at`: left-tail guard", "countLeftTest", ["x", "lo", "hi", "v0", "vl"], "Prop", "count.left_test", True)
    d("`count_at`: left-tail ratio", "countLeftRatio", ["x", "lo", "hi", "v0", "f0", "vl", "fl"], "K", "count.left_ratio")
    d("`count_at`: left-tail result", "countLeftResult", ["ratio", "x", "lo", "hi", "v0", "f0", "vl", "fl"], "K", "count.left_result")
    d("`count_at`: right-tail guard", "countRightTest", ["x", "lo", "hi", "v0", "vl"], "Prop", "count.right_test", True)
    d("`count_at`: right-tail ratio", "countRightRatio", ["x", "lo", "hi", "v0", "f0", "vl", "fl"], "K", "count.right_ratio")
    d("`count_at`: right-tail result (`S` = counts before the last bin)", "countRightResult", ["ratio", "x", "lo", "hi", "v0", "f0", "vl", "fl", "S"], "K", "count.right_result")
    d("`count_at`: interior, interpolated frequency at `x`", "countMb", ["x", "vi", "fi", "vj", "fj"], "K", "count.mb")
    d("`count_at`: interior result (`S` = counts before bin `i`)", "countInteriorResult", ["x", "mb", "vi", "fi", "vj", "fj", "S"], "K", "count.interior_result")
    d("`quantile`: argument accepted", "quantInRange", ["p"], "Prop", "quant.in_range", True)
    d("`quantile`: the number handed to `int()`", "quantCountArg", ["total", "p"], "K", "quant.qcount_arg")
    d("`quantile`: left guard", "quantLeftTest", ["q", "total", "f0", "fl"], "Prop", "quant.left_test", True)
    d("`quantile`: left fraction", "quantLeftFraction", ["q", "total", "f0", "fl"], "K", "quant.left_fraction")
    d("`quantile`: left result", "quantLeftResult", ["fraction", "q", "lo", "hi", "v0", "f0", "vl", "fl"], "K", "quant.left_result")
    d("`quantile`: right guard", "quantRightTest", ["q", "total", "f0", "fl"], "Prop", "quant.right_test", True)
    d("`quantile`: right base", "quantRightBase", ["q", "total", "f0", "fl"], "K", "quant.right_base")
    d("`quantile`: right fraction", "quantRightFraction", ["base", "q", "total", "f0", "fl"], "K", "quant.right_fraction")
    d("`quantile`: right result", "quantRightResult", ["fraction", "base", "lo", "hi", "v0", "f0", "vl", "fl"], "K", "quant.right_result")
    d("`quantile`: interior offset", "quantMb", ["q", "total", "f0", "fl"], "K", "quant.mb")
    d("`quantile`: `mids[i]`", "quantMid", ["fi", "fj"], "K", "quant.mid")
    d("`quantile`: the walk stops at the first running sum above `mb`", "quantWalkTest", ["mb", "cum"], "Prop", "quant.walk_test", True)
    d("`quantile`: interior fraction (`acc` = sum(mids[:i]))", "quantInteriorFraction", ["mb", "acc", "mid"], "K", "quant.interior_fraction")
    d("`quantile`: interior result", "quantInteriorResult", ["fraction", "vi", "vj"], "K", "quant.interior_result")
    d("`ColumnProfile.estimate_values_above`: `c` = count_at(point), `total` = the sum of the histogram's counts", "estimateAbove", ["count", "missing", "total", "c"], "K", "above")
    o.files["DistogramExpr.lean"] = hdr + "\n".join(defs) + "\nend Gen.DistogramExpr\n"
