"""C11 — the Arrow type tables and constants, extracted from the working tree.

* ``FlatColumn.arrow_field`` (orso/schema.py): the ``type_map`` dictionary literal
  (OrsoTypes member -> pyarrow constructor call; the two argument expressions of
  ``pyarrow.decimal128`` are lifted separately by ``c11_expr.py``), the fallback of ``type_map.get(self.type, …)``,
  the ARRAY branch (``pyarrow.list_(type_map.get(self.element_type, …))``);
* ``DECIMAL_PRECISION`` (schema.py, ``getcontext().prec`` — a runtime parameter);
* ``arrow_type_map`` (orso/tools.py): the ``type_map`` literal (``lib.Type_*`` -> Python class),
  the decimal id set, the literal-id branch (``parquet_type.id == 18``);
* ``ORSO_TO_PYTHON_MAP`` / ``PYTHON_TO_ORSO_MAP`` (orso/types.py): the literal, the excluded
  key of the inversion, the ``update`` literal;
* ``FlatColumn.from_arrow``: whether ``name`` / ``nullable`` are taken from the Arrow field;
* ``from_arrow`` (orso/converters.py): ``BATCH_SIZE``;
* the ``OrsoTypes`` member names;
* environment parameters read from the installed pyarrow: the numeric ``lib.Type_*`` ids, the
  type id each pyarrow constructor used by ``arrow_field`` produces, the decimal128 precision range.

The generated file defines one small fixed syntax type (`Spec`) so that
`Model/Arrow.lean` always compiles against it, whatever the tables contain.
"""
import ast

from ..extract import HEADER, Src, lean_list, lean_str

# pyarrow constructor -> lib.Type_* name, used when pyarrow cannot be asked
CTOR_IDS = {
    "bool_": "BOOL", "binary": "BINARY", "large_binary": "LARGE_BINARY", "date32": "DATE32", "date64": "DATE64",
    "timestamp": "TIMESTAMP", "time32": "TIME32", "time64": "TIME64", "duration": "DURATION",
    "month_day_nano_interval": "INTERVAL_MONTH_DAY_NANO", "decimal128": "DECIMAL128", "decimal256": "DECIMAL256",
    "float16": "HALF_FLOAT", "float32": "FLOAT", "float64": "DOUBLE", "int8": "INT8", "int16": "INT16",
    "int32": "INT32", "int64": "INT64", "uint8": "UINT8", "uint16": "UINT16", "uint32": "UINT32",
    "uint64": "UINT64", "list_": "LIST", "large_list": "LARGE_LIST", "string": "STRING", "utf8": "STRING",
    "large_string": "LARGE_STRING", "null": "NA", "struct": "STRUCT", "map_": "MAP",
}

PINNED_TYPE_IDS = {
    "BINARY": 14, "BINARY_VIEW": 40, "BOOL": 1, "DATE32": 16, "DATE64": 17, "DECIMAL128": 23, "DECIMAL256": 24,
    "DECIMAL32": 43, "DECIMAL64": 44, "DENSE_UNION": 28, "DICTIONARY": 29, "DOUBLE": 12, "DURATION": 33,
    "FIXED_SIZE_BINARY": 15, "FIXED_SIZE_LIST": 32, "FLOAT": 11, "HALF_FLOAT": 10, "INT16": 5, "INT32": 7,
    "INT64": 9, "INT8": 3, "INTERVAL_DAY_TIME": 22, "INTERVAL_MONTHS": 21, "INTERVAL_MONTH_DAY_NANO": 37,
    "LARGE_BINARY": 35, "LARGE_LIST": 36, "LARGE_LIST_VIEW": 42, "LARGE_STRING": 34, "LIST": 25, "LIST_VIEW": 41,
    "MAP": 30, "NA": 0, "RUN_END_ENCODED": 38, "SPARSE_UNION": 27, "STRING": 13, "STRING_VIEW": 39, "STRUCT": 26,
    "TIME32": 19, "TIME64": 20, "TIMESTAMP": 18, "UINT16": 4, "UINT32": 6, "UINT64": 8, "UINT8": 2,
}

PINNED_FIELD_MAP = [
    ["BOOLEAN", ["prim", "BOOL"]], ["BLOB", ["prim", "BINARY"]], ["DATE", ["prim", "DATE64"]],
    ["TIMESTAMP", ["prim", "TIMESTAMP"]], ["TIME", ["prim", "TIME32"]],
    ["INTERVAL", ["prim", "INTERVAL_MONTH_DAY_NANO"]], ["STRUCT", ["prim", "BINARY"]],
    ["DECIMAL", ["decimal", "DECIMAL128"]], ["DOUBLE", ["prim", "DOUBLE"]],
    ["INTEGER", ["prim", "INT64"]], ["ARRAY", ["list", "LIST", ["prim", "STRING"]]], ["VARCHAR", ["prim", "STRING"]],
    ["JSONB", ["prim", "BINARY"]], ["NULL", ["prim", "NA"]],
]

PINNED_TYPE_MAP = [
    ["NA", "None"], ["BOOL", "bool"], ["INT8", "int"], ["INT16", "int"], ["INT32", "int"], ["INT64", "int"],
    ["UINT8", "int"], ["UINT16", "int"], ["UINT32", "int"], ["UINT64", "int"], ["HALF_FLOAT", "float"],
    ["FLOAT", "float"], ["DOUBLE", "float"], ["STRING", "str"], ["LARGE_STRING", "str"], ["DATE32", "date"],
    ["DATE64", "datetime"], ["TIME32", "time"], ["TIME64", "time"], ["INTERVAL_MONTH_DAY_NANO", "timedelta"],
    ["DURATION", "timedelta"], ["LIST", "list"], ["LARGE_LIST", "list"], ["FIXED_SIZE_LIST", "list"],
    ["STRUCT", "dict"], ["MAP", "dict"], ["BINARY", "bytes"], ["LARGE_BINARY", "bytes"],
]

PINNED_ORSO_TO_PYTHON = [
    ["BOOLEAN", "bool"], ["BLOB", "bytes"], ["DATE", "date"], ["TIMESTAMP", "datetime"], ["TIME", "time"],
    ["INTERVAL", "timedelta"], ["STRUCT", "dict"], ["DECIMAL", "Decimal"], ["DOUBLE", "float"], ["INTEGER", "int"],
    ["ARRAY", "list"], ["VARCHAR", "str"], ["JSONB", "bytes"], ["NULL", "None"],
]

PINNED_ORSO_TYPES = ["ARRAY", "BLOB", "BOOLEAN", "DATE", "DECIMAL", "DOUBLE", "INTEGER", "INTERVAL", "STRUCT",
                     "TIMESTAMP", "TIME", "VARCHAR", "NULL", "JSONB", "_MISSING_TYPE"]


def _pyarrow():
    try:
        import pyarrow
        import pyarrow.lib as lib

        return pyarrow, lib
    except Exception:
        return None, None


def _cls_name(node):
    """Python class expression -> short name ('datetime.date' -> 'date', None -> 'None')."""
    s = ast.unparse(node)
    return s.split(".")[-1]


def _member(node, base):
    """`OrsoTypes.X` / `lib.Type_X` -> 'X'."""
    if isinstance(node, ast.Attribute) and isinstance(node.value, ast.Name) and node.value.id == base:
        return node.attr
    raise KeyError("not a %s member: %s" % (base, ast.unparse(node)))


def tracked_item(o):
    """`o.item` that also records which source items came out different from their pinned value (the harness uses it
    to tell "the model follows a changed source" from "the model is wrong on the unchanged source")."""
    import json as _json

    moved = o.json.setdefault("arrow.differs_from_pinned", [])

    def item(key, getter, pinned):
        v = o.item(key, getter, pinned)
        if not key.startswith("arrow.env.") and \
                _json.dumps(v, sort_keys=True, default=repr) != _json.dumps(pinned, sort_keys=True, default=repr):
            moved.append(key)
        return v
    return item


def generate(o):
    item = tracked_item(o)
    schema = Src("orso/schema.py")
    tools = Src("orso/tools.py")
    types = Src("orso/types.py")
    conv = Src("orso/converters.py")
    pyarrow, lib = _pyarrow()

    # ---- environment: pyarrow's numeric type ids
    def type_ids():
        if lib is None:
            raise KeyError("pyarrow not importable")
        return {k[5:]: int(getattr(lib, k)) for k in sorted(dir(lib)) if k.startswith("Type_")}

    ids = item("arrow.env.type_ids", type_ids, PINNED_TYPE_IDS)
    by_num = {v: k for k, v in ids.items()}

    def dec_range():
        if pyarrow is None:
            raise KeyError("pyarrow not importable")

        def ok(p):
            try:
                pyarrow.decimal128(p, 0)
                return True
            except Exception:
                return False

        good = [p for p in range(0, 80) if ok(p)]
        if not good or good != list(range(good[0], good[-1] + 1)):
            raise KeyError("decimal128 precision range is not an interval")
        return [good[0], good[-1]]

    drange = item("arrow.env.decimal128_precision_range", dec_range, [1, 38])

    # ---- schema.py: DECIMAL_PRECISION
    def decimal_precision():
        for node in schema.tree.body:
            tgt, val = None, None
            if isinstance(node, ast.AnnAssign):
                tgt, val = node.target, node.value
            elif isinstance(node, ast.Assign) and len(node.targets) == 1:
                tgt, val = node.targets[0], node.value
            if isinstance(tgt, ast.Name) and tgt.id == "DECIMAL_PRECISION":
                if isinstance(val, ast.Constant) and isinstance(val.value, int):
                    return val.value
                if ast.unparse(val) == "getcontext().prec":
                    import decimal

                    return decimal.getcontext().prec  # runtime parameter of the interpreter
                raise KeyError("DECIMAL_PRECISION = " + ast.unparse(val))
        raise KeyError("DECIMAL_PRECISION")

    dprec = item("arrow.DECIMAL_PRECISION", decimal_precision, 28)

    # ---- schema.py: arrow_field
    def spec(node):
        """pyarrow.<ctor>(args) -> spec tree."""
        if not (isinstance(node, ast.Call) and isinstance(node.func, ast.Attribute)
                and isinstance(node.func.value, ast.Name) and node.func.value.id == "pyarrow"):
            raise KeyError("not a pyarrow constructor: " + ast.unparse(node))
        ctor = node.func.attr
        if ctor in ("decimal128", "decimal256"):
            if len(node.args) != 2 or node.keywords:
                raise KeyError(ast.unparse(node))
            # the two argument expressions are lifted by extractors/c11_expr.py (Gen.ArrowExpr)
            return ["decimal", CTOR_IDS[ctor]]
        if ctor in ("list_", "large_list"):
            if len(node.args) != 1 or node.keywords:
                raise KeyError(ast.unparse(node))
            return ["list", CTOR_IDS[ctor], spec(node.args[0])]
        args = [ast.literal_eval(a) for a in node.args]
        kwargs = {k.arg: ast.literal_eval(k.value) for k in node.keywords}
        if pyarrow is not None:
            t = getattr(pyarrow, ctor)(*args, **kwargs)
            name = by_num.get(int(t.id))
            if name is None:
                raise KeyError("type id %s of %s" % (t.id, ast.unparse(node)))
            return ["prim", name]
        return ["prim", CTOR_IDS[ctor]]

    fn_state = {}

    def arrow_field_fn():
        if "fn" not in fn_state:
            fn_state["fn"] = schema.func("arrow_field", "FlatColumn")
        return fn_state["fn"]

    def field_map():
        fn = arrow_field_fn()
        for n in ast.walk(fn):
            tgt = None
            if isinstance(n, ast.AnnAssign):
                tgt, val = n.target, n.value
            elif isinstance(n, ast.Assign) and len(n.targets) == 1:
                tgt, val = n.targets[0], n.value
            if isinstance(tgt, ast.Name) and tgt.id == "type_map" and isinstance(val, ast.Dict):
                return [[_member(k, "OrsoTypes"), spec(v)] for k, v in zip(val.keys, val.values)]
        raise KeyError("type_map literal in arrow_field")

    fmap = item("arrow.arrow_field.type_map", field_map, PINNED_FIELD_MAP)

    def get_default(attr_name):
        """default of `type_map.get(self.<attr_name>, <default>)` in arrow_field."""
        fn = arrow_field_fn()
        for n in ast.walk(fn):
            if isinstance(n, ast.Call) and isinstance(n.func, ast.Attribute) and n.func.attr == "get" \
                    and isinstance(n.func.value, ast.Name) and n.func.value.id == "type_map" and len(n.args) == 2 \
                    and ast.unparse(n.args[0]) == "self." + attr_name:
                return spec(n.args[1])
        raise KeyError("type_map.get(self.%s, …)" % attr_name)

    fdefault = item("arrow.arrow_field.default", lambda: get_default("type"), ["prim", "STRING"])
    edefault = item("arrow.arrow_field.element_default", lambda: get_default("element_type"), ["prim", "STRING"])

    def array_branch():
        """`if self.type == OrsoTypes.ARRAY: return pyarrow.field(..., type=pyarrow.list_(type_map.get(self.element_type, …)))`"""
        fn = arrow_field_fn()
        for n in ast.walk(fn):
            if isinstance(n, ast.If) and ast.unparse(n.test) == "self.type == OrsoTypes.ARRAY":
                for m in ast.walk(n):
                    if isinstance(m, ast.Call) and isinstance(m.func, ast.Attribute) and m.func.attr in ("list_", "large_list") \
                            and m.args and "type_map.get(self.element_type" in ast.unparse(m.args[0]):
                        return CTOR_IDS[m.func.attr]
        raise KeyError("ARRAY branch of arrow_field")

    alist = item("arrow.arrow_field.array_branch", array_branch, "LIST")

    def field_kwargs():
        """Does arrow_field pass name=self.name (and nullable=…) to pyarrow.field?"""
        fn = arrow_field_fn()
        res = None
        for n in ast.walk(fn):
            if isinstance(n, ast.Call) and isinstance(n.func, ast.Attribute) and n.func.attr == "field":
                kw = {k.arg: ast.unparse(k.value) for k in n.keywords}
                if n.args:
                    kw.setdefault("name", ast.unparse(n.args[0]))
                cur = [kw.get("name") == "self.name", kw.get("nullable") == "self.nullable"]
                if res is not None and res != cur:
                    raise KeyError("pyarrow.field calls differ")
                res = cur
        if res is None:
            raise KeyError("pyarrow.field call")
        return res

    fkw = item("arrow.arrow_field.field_kwargs", field_kwargs, [True, False])

    # ---- tools.py: arrow_type_map
    atm_state = {}

    def atm_fn():
        if "fn" not in atm_state:
            atm_state["fn"] = tools.func("arrow_type_map")
        return atm_state["fn"]

    def type_map():
        fn = atm_fn()
        for n in ast.walk(fn):
            if isinstance(n, ast.Assign) and len(n.targets) == 1 and isinstance(n.targets[0], ast.Name) \
                    and n.targets[0].id == "type_map" and isinstance(n.value, ast.Dict):
                out = []
                for k, v in zip(n.value.keys, n.value.values):
                    key = _member(k, "lib")
                    if not key.startswith("Type_"):
                        raise KeyError(key)
                    out.append([key[5:], _cls_name(v)])
                return out
        raise KeyError("type_map literal in arrow_type_map")

    tmap = item("arrow.arrow_type_map.type_map", type_map, PINNED_TYPE_MAP)

    def other_branches():
        """The branches after the table lookup: a set of decimal ids -> DecimalFactory; literal ids -> class."""
        fn = atm_fn()
        dec, lit = None, []
        for n in ast.walk(fn):
            if not isinstance(n, ast.If):
                continue
            t = n.test
            if not (isinstance(t, ast.Compare) and len(t.ops) == 1 and ast.unparse(t.left) == "parquet_type.id"):
                continue
            ret = n.body[0] if n.body and isinstance(n.body[0], ast.Return) else None
            if ret is None:
                continue
            rhs = t.comparators[0]
            if isinstance(t.ops[0], ast.In) and isinstance(rhs, (ast.Set, ast.Tuple, ast.List)):
                if isinstance(ret.value, ast.Subscript):  # return type_map[parquet_type.id]
                    continue
                if "DecimalFactory" in ast.unparse(ret.value):
                    if ast.unparse(ret.value).replace(" ", "") != \
                            "DecimalFactory.new_factory(parquet_type.precision,parquet_type.scale)":
                        raise KeyError("decimal branch: " + ast.unparse(ret.value))
                    dec = [_member(e, "lib")[5:] for e in rhs.elts]
            elif isinstance(t.ops[0], ast.Eq):
                if isinstance(rhs, ast.Constant) and isinstance(rhs.value, int):
                    lit.append([rhs.value, _cls_name(ret.value)])
                else:
                    lit.append([ids[_member(rhs, "lib")[5:]], _cls_name(ret.value)])
        if dec is None:
            raise KeyError("decimal branch of arrow_type_map")
        return [dec, lit]

    dec_ids, lit_ids = item("arrow.arrow_type_map.branches", other_branches, [["DECIMAL128", "DECIMAL256"], [[18, "datetime"]]])

    # ---- types.py: ORSO_TO_PYTHON_MAP and its inversion
    def orso_to_python():
        for n in types.tree.body:
            tgt = None
            if isinstance(n, ast.AnnAssign):
                tgt, val = n.target, n.value
            elif isinstance(n, ast.Assign) and len(n.targets) == 1:
                tgt, val = n.targets[0], n.value
            if isinstance(tgt, ast.Name) and tgt.id == "ORSO_TO_PYTHON_MAP" and isinstance(val, ast.Dict):
                return [[_member(k, "OrsoTypes"), _cls_name(v)] for k, v in zip(val.keys, val.values)]
        raise KeyError("ORSO_TO_PYTHON_MAP")

    o2p = item("arrow.ORSO_TO_PYTHON_MAP", orso_to_python, PINNED_ORSO_TO_PYTHON)

    def inversion():
        excluded, extra = None, []
        for n in types.tree.body:
            tgt = None
            if isinstance(n, ast.AnnAssign):
                tgt, val = n.target, n.value
            elif isinstance(n, ast.Assign) and len(n.targets) == 1:
                tgt, val = n.targets[0], n.value
            if isinstance(tgt, ast.Name) and tgt.id == "PYTHON_TO_ORSO_MAP":
                if not isinstance(val, ast.DictComp) or len(val.generators) != 1:
                    raise KeyError("PYTHON_TO_ORSO_MAP is not a comprehension")
                g = val.generators[0]
                if ast.unparse(val.key) != "value" or ast.unparse(val.value) != "key" \
                        or ast.unparse(g.target) != "(key, value)" or ast.unparse(g.iter) != "ORSO_TO_PYTHON_MAP.items()":
                    raise KeyError("PYTHON_TO_ORSO_MAP comprehension shape")
                excluded = []
                for c in g.ifs:
                    if isinstance(c, ast.Compare) and len(c.ops) == 1 and isinstance(c.ops[0], ast.NotEq) \
                            and ast.unparse(c.left) == "key":
                        excluded.append(_member(c.comparators[0], "OrsoTypes"))
                    else:
                        raise KeyError("filter " + ast.unparse(c))
            if isinstance(n, ast.Expr) and isinstance(n.value, ast.Call) \
                    and ast.unparse(n.value.func) == "PYTHON_TO_ORSO_MAP.update":
                d = n.value.args[0]
                if not isinstance(d, ast.Dict):
                    raise KeyError("update argument")
                extra += [[_cls_name(k), _member(v, "OrsoTypes")] for k, v in zip(d.keys, d.values)]
        if excluded is None:
            raise KeyError("PYTHON_TO_ORSO_MAP")
        return [excluded, extra]

    p2o_excl, p2o_extra = item("arrow.PYTHON_TO_ORSO_MAP", inversion, [["JSONB"], [["tuple", "ARRAY"], ["set", "ARRAY"]]])

    def orso_types():
        for n in types.tree.body:
            if isinstance(n, ast.ClassDef) and n.name == "OrsoTypes":
                names = []
                for s in n.body:
                    if isinstance(s, ast.Assign) and len(s.targets) == 1 and isinstance(s.targets[0], ast.Name):
                        names.append(s.targets[0].id)
                if names:
                    return names
        raise KeyError("OrsoTypes")

    otypes = item("arrow.OrsoTypes", orso_types, PINNED_ORSO_TYPES)

    # ---- schema.py: FlatColumn.from_arrow — what is carried from the field
    def carried():
        fn = schema.func("from_arrow", "FlatColumn")
        for n in ast.walk(fn):
            if isinstance(n, ast.Return) and isinstance(n.value, ast.Call) and ast.unparse(n.value.func) in ("FlatColumn", "cls"):
                kw = {k.arg: ast.unparse(k.value) for k in n.value.keywords}

                def through_locals(text):
                    # `name=name` with `name = <expr>` assigned once in the function: read the expression
                    for _ in range(3):
                        if text is None or not text.isidentifier():
                            break
                        vals = [ast.unparse(a.value) for a in ast.walk(fn) if isinstance(a, ast.Assign) and len(a.targets) == 1
                                and isinstance(a.targets[0], ast.Name) and a.targets[0].id == text]
                        if len(vals) != 1:
                            raise KeyError("local %s assigned %d times" % (text, len(vals)))
                        text = vals[0]
                    return text

                def carried_exactly(text, attr, wrappers):
                    # absent: not carried; the attribute itself (or str()/bool() of it): carried; any other
                    # expression over the attribute (normalised, stripped, lower-cased, negated ...): not carried
                    # exactly; anything that does not mention the attribute: not recognised -> degrade
                    text = through_locals(text)
                    if text is None:
                        return False
                    if text == attr or text in [w + "(" + attr + ")" for w in wrappers]:
                        return True
                    if attr in text:
                        return False
                    raise KeyError("FlatColumn(%s=%s)" % (attr.split(".")[-1], text[:30]))

                return [carried_exactly(kw.get("name"), "arrow_field.name", ("str",)),
                        carried_exactly(kw.get("nullable"), "arrow_field.nullable", ("bool",)),
                        kw.get("scale") == "scale" and kw.get("precision") == "precision",
                        kw.get("element_type") == "element_type"]
        raise KeyError("FlatColumn(...) call in from_arrow")

    car = item("arrow.from_arrow.carried", carried, [True, True, True, True])

    # ---- converters.py: BATCH_SIZE
    def batch_size():
        fn = conv.func("from_arrow")
        for n in ast.walk(fn):
            tgt = None
            if isinstance(n, ast.AnnAssign):
                tgt, val = n.target, n.value
            elif isinstance(n, ast.Assign) and len(n.targets) == 1:
                tgt, val = n.targets[0], n.value
            if isinstance(tgt, ast.Name) and tgt.id == "BATCH_SIZE" and isinstance(val, ast.Constant) \
                    and isinstance(val.value, int):
                return val.value
        raise KeyError("BATCH_SIZE")

    bsize = item("arrow.BATCH_SIZE", batch_size, 10000)

    # ---- emit
    def lean_spec(s):
        if s[0] == "prim":
            return "(.prim %s)" % lean_str(s[1])
        if s[0] == "decimal":
            return "(.decimal %s)" % lean_str(s[1])
        if s[0] == "list":
            return "(.list %s %s)" % (lean_str(s[1]), lean_spec(s[2]))
        return ".unknown"

    def pair_ss(p):
        return "(%s, %s)" % (lean_str(p[0]), lean_str(p[1]))

    def lean_bool(b):
        return "true" if b else "false"

    text = HEADER + "namespace Gen.Arrow\n"
    text += "/-- a pyarrow constructor call of `arrow_field`, by the `lib.Type_*` id it produces -/\n"
    text += "inductive Spec where\n  | prim (typeId : String)\n  | decimal (typeId : String)\n"
    text += "  | list (typeId : String) (elem : Spec)\n  | unknown\n  deriving DecidableEq, Repr\n"
    text += "/-- orso/converters.py from_arrow: BATCH_SIZE -/\ndef batchSize : Nat := %d\n" % bsize
    text += "/-- orso/types.py: members of OrsoTypes, in source order -/\n"
    text += "def orsoTypes : List String := %s\n" % lean_list(otypes, lean_str)
    text += "/-- orso/schema.py arrow_field: the `type_map` literal -/\n"
    text += "def fieldMap : List (String × Spec) := %s\n" % lean_list(fmap, lambda p: "(%s, %s)" % (lean_str(p[0]), lean_spec(p[1])))
    text += "/-- `type_map.get(self.type, <this>)` -/\ndef fieldDefault : Spec := %s\n" % lean_spec(fdefault)
    text += "/-- `type_map.get(self.element_type, <this>)` in the ARRAY branch -/\ndef elementDefault : Spec := %s\n" % lean_spec(edefault)
    text += "/-- the list constructor of the ARRAY branch -/\ndef arrayListId : String := %s\n" % lean_str(alist)
    text += "/-- arrow_field passes name=self.name / nullable=self.nullable to pyarrow.field -/\n"
    text += "def fieldPassesName : Bool := %s\ndef fieldPassesNullable : Bool := %s\n" % (lean_bool(fkw[0]), lean_bool(fkw[1]))
    text += "/-- schema.py DECIMAL_PRECISION (getcontext().prec of the running interpreter) -/\n"
    text += "def decimalPrecision : Nat := %d\n" % dprec
    text += "/-- pyarrow.decimal128 accepts exactly these precisions (environment parameter) -/\n"
    text += "def decimalMinPrecision : Nat := %d\ndef decimalMaxPrecision : Nat := %d\n" % (drange[0], drange[1])
    text += "/-- orso/tools.py arrow_type_map: the `type_map` literal (lib.Type_* ↦ Python class) -/\n"
    text += "def typeMap : List (String × String) := %s\n" % lean_list(tmap, pair_ss)
    text += "/-- ids answered with `DecimalFactory.new_factory(precision, scale)` -/\n"
    text += "def decimalIds : List String := %s\n" % lean_list(dec_ids, lean_str)
    text += "/-- `elif parquet_type.id == <n>: return <class>` branches -/\n"
    text += "def literalIds : List (Nat × String) := %s\n" % lean_list(lit_ids, lambda p: "(%d, %s)" % (p[0], lean_str(p[1])))
    text += "/-- numeric value of pyarrow.lib.Type_* in the installed pyarrow (environment parameter) -/\n"
    text += "def typeIds : List (String × Nat) := %s\n" % lean_list(sorted(ids.items()), lambda p: "(%s, %d)" % (lean_str(p[0]), p[1]))
    text += "/-- orso/types.py ORSO_TO_PYTHON_MAP, in source order -/\n"
    text += "def orsoToPython : List (String × String) := %s\n" % lean_list(o2p, pair_ss)
    text += "/-- keys skipped when inverting it into PYTHON_TO_ORSO_MAP -/\n"
    text += "def pythonToOrsoExcluded : List String := %s\n" % lean_list(p2o_excl, lean_str)
    text += "/-- `PYTHON_TO_ORSO_MAP.update({...})` -/\n"
    text += "def pythonToOrsoExtra : List (String × String) := %s\n" % lean_list(p2o_extra, pair_ss)
    text += "/-- FlatColumn.from_arrow builds the column with name / nullable / (precision, scale) / element_type from the field -/\n"
    text += "def carriesName : Bool := %s\ndef carriesNullable : Bool := %s\n" % (lean_bool(car[0]), lean_bool(car[1]))
    text += "def carriesPrecisionScale : Bool := %s\ndef carriesElementType : Bool := %s\n" % (lean_bool(car[2]), lean_bool(car[3]))
    text += "end Gen.Arrow\n"
    o.files["Arrow.lean"] = text
