"""C03: whole bodies of DataFrame.slice / head / tail / to_batches translated statement by statement into
Lean (`Generated/FrameFns.lean`, namespace `Gen.FrameFns`) by harness/pystmt.py on every run.

`Props/C03.lean` proves each generated function equal to the model of Model/Frame.lean
(`generated_*_eq_model`), so the order of the tests in `slice` (negative offset, `None` length, zero
length), the arguments `head`/`tail` pass and the `range`/window of `to_batches` are what the source says
now.  The listing `self._rows` is the parameter `rows` (the `self.materialize()` statement in front is
recorded separately: `Gen.Frame.materialisesFirst`); `DataFrame(schema=self._schema, rows=X)` is its
listing `X`.  A shape the translator does not know degrades to the pinned text (the translation of the
pinned tree, harness/extractors/pinned/c03_fns.json).
"""
import ast
import copy
import json
import os

from .. import core, pystmt
from ..extract import HEADER, Src
from ..pyexpr import Untranslatable

PINNED_FILE = os.path.join(os.path.dirname(os.path.abspath(__file__)), "pinned", "c03_fns.json")


def _hook(optional=()):
    """`optional`: parameters that are `Optional[int]` (compared with `is None`, then used as ints)."""

    def hook(n, go):
        key = ast.unparse(n)
        if key in ("len(self._rows)", "self.rowcount", "len(self)"):
            return "(rows.length : Int)"
        if isinstance(n, ast.Name) and n.id in optional:
            return "(%s.getD 0)" % n.id
        if isinstance(n, ast.Compare) and len(n.ops) == 1 and isinstance(n.left, ast.Name) and n.left.id in optional \
                and isinstance(n.comparators[0], ast.Constant) and n.comparators[0].value is None:
            if isinstance(n.ops[0], ast.Is):
                return "(%s = none)" % n.left.id
            if isinstance(n.ops[0], ast.IsNot):
                return "(%s ≠ none)" % n.left.id
        if isinstance(n, ast.Subscript) and ast.unparse(n.value) == "self._rows" and isinstance(n.slice, ast.Slice):
            if n.slice.step is not None:
                raise Untranslatable("slice step")
            lo = go(n.slice.lower) if n.slice.lower is not None else "0"
            if n.slice.upper is None:
                return "(pySliceFrom rows %s)" % lo
            return "(pySlice rows %s %s)" % (lo, go(n.slice.upper))
        if isinstance(n, ast.Call) and isinstance(n.func, ast.Name) and n.func.id == "DataFrame" and not n.args:
            kw = {k.arg: k.value for k in n.keywords}
            if set(kw) != {"schema", "rows"} or ast.unparse(kw["schema"]) != "self._schema":
                raise Untranslatable("DataFrame(%s)" % ", ".join(sorted(kw)))
            return go(kw["rows"])
        if isinstance(n, ast.Call) and ast.unparse(n.func) == "self.slice":
            args = {"offset": None, "length": None}
            for name, a in zip(("offset", "length"), n.args):
                args[name] = a
            for k in n.keywords:
                if k.arg not in args or args[k.arg] is not None:
                    raise Untranslatable("self.slice arguments")
                args[k.arg] = k.value
            off = go(args["offset"]) if args["offset"] is not None else "0"
            ln = "none" if args["length"] is None else "(some %s)" % go(args["length"])
            return "(slice rows %s %s)" % (off, ln)
        if isinstance(n, ast.Call) and isinstance(n.func, ast.Name) and n.func.id == "range" and len(n.args) == 3 and not n.keywords:
            return "(pyRange %s %s %s)" % tuple(go(a) for a in n.args)
        return None

    return hook


def _without_materialize(fn):
    """The function with its top-level `self.materialize()` statements removed (they are no-ops on a listing)."""
    fn2 = copy.copy(fn)
    fn2.body = [s for s in fn.body if not (isinstance(s, ast.Expr) and ast.unparse(s) == "self.materialize()")]
    return fn2


def _args(fn, want):
    got = [a.arg for a in fn.args.args]
    if got != want:
        raise Untranslatable("%s%r" % (fn.name, got))


def t_slice(src):
    fn = src.func("slice", "DataFrame")
    _args(fn, ["self", "offset", "length"])
    ex = pystmt.Expr(hook=_hook(optional=("length",)), funcs={"max": "max", "min": "min"})
    return pystmt.function(_without_materialize(fn), "slice",
                           [(None, "(rows : List α)"), ("offset", "(offset : Int)"), (None, "(length : Option Int)")],
                           "List α", ex, ret=lambda v, ex: ex.go(v), k="[]", binders="{α : Type}")


def _one_call(src, name):
    fn = src.func(name, "DataFrame")
    _args(fn, ["self", "size"])
    ex = pystmt.Expr(hook=_hook())
    return pystmt.function(_without_materialize(fn), name, [(None, "(rows : List α)"), ("size", "(size : Int)")],
                           "List α", ex, ret=lambda v, ex: ex.go(v), k="[]", binders="{α : Type}")


def t_head(src):
    return _one_call(src, "head")


def t_tail(src):
    return _one_call(src, "tail")


def t_to_batches(src):
    fn = src.func("to_batches", "DataFrame")
    _args(fn, ["self", "batch_size"])
    ex = pystmt.Expr(hook=_hook())
    ex.bound.add("batch_size")
    term = pystmt.generator_as_list(_without_materialize(fn), ex)
    return "def to_batches {α : Type} (rows : List α) (batch_size : Int) : List (List α) :=\n  %s\n" % term


TRANSLATORS = (("slice", t_slice), ("head", t_head), ("tail", t_tail), ("to_batches", t_to_batches))


def _pinned():
    try:
        return json.load(open(PINNED_FILE))
    except OSError:
        return {}


def generate(o):
    src = Src("orso/dataframe.py")
    pinned = _pinned()
    fresh = {}
    for key, fn in TRANSLATORS:
        fresh[key] = o.item("frame.fn." + key, lambda fn=fn: fn(src), pinned.get(key, "-- %s: not translated\n" % key))
    if os.environ.get("ORSO_VERIF_WRITE_PINNED") == "c03_fns":
        os.makedirs(os.path.dirname(PINNED_FILE), exist_ok=True)
        json.dump(fresh, open(PINNED_FILE, "w"), indent=1, sort_keys=True)
    header = HEADER + "import OrsoVerif.Model.Frame\n"
    header += "/-! Bodies of DataFrame.slice / head / tail / to_batches, translated statement by statement (harness/pystmt.py). -/\n"
    header += "set_option linter.unusedVariables false\nnamespace Gen.FrameFns\nopen _root_.Frame (pySlice pySliceFrom pyRange)\n\n"
    text, bad = pystmt.compile_checked(header, [(k, fresh[k]) for k, _ in TRANSLATORS], "\nend Gen.FrameFns\n", pinned,
                                       core.LEAN, "FrameFns")
    for k in bad:
        o.degraded.append("frame.fn.%s (the translation does not elaborate in Lean; pinned text used)" % k)
    o.files["FrameFns.lean"] = text
