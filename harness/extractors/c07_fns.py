"""C07: every `parse_*` function of orso/types.py that serves a value type of the statement, `parse_array`, `parse_null`,
`OrsoTypes.parse` and the dispatch dict `ORSO_TO_PYTHON_PARSER`, translated *statement by statement* into Lean
(`Generated/CastFns.lean`, namespace `Gen.CastFns`) by harness/pystmt_cast.py on every run.

The translation is a `do` program in `Except Exc` over dynamically typed objects (`Cast.Prim.Obj`): `isinstance` tests,
conversions, slices, early returns and raises appear in the order the source has them; the Python primitives are the
definitions of Model/CastPrim.lean.  `Props/C07.lean` proves (`generated_parse_*_eq_model`, `generated_dispatch_eq_model`,
`generated_parse_array_eq_model`) that each generated function *is* the hand-written model function the round-trip /
prefix / element-wise / exactness theorems are about, so those theorems are about what the source says now.  A shape the
translator does not know, or a translation that does not elaborate, degrades to the pinned text of that function
(`extraction_degraded`), never to an alarm.

Order in the generated file (dependencies): scalar parsers; `OrsoTypes_parse` (the table is a parameter: Python looks
the global up at call time); `scalarParsers` (the dict without `parse_array`; what `element_type.parse` dispatches
through — an element type is never ARRAY, `OrsoTypes.from_name` rejects it and `Cast.Ty` has no such member);
`parse_array`; `ORSO_TO_PYTHON_PARSER`.
"""
import ast
import json
import os

from .. import core, pystmt, pystmt_cast
from ..extract import HEADER, Src, lean_str
from ..pyexpr import Untranslatable, find_function

PINNED_FILE = os.path.join(os.path.dirname(os.path.abspath(__file__)), "pinned", "c07_fns.json")

SCALARS = ("parse_boolean", "parse_bytes", "parse_date", "parse_varchar", "parse_double", "parse_integer", "parse_null",
           "parse_timestamp", "parse_decimal")
ELEMENT_PARSE = "fun v_ => OrsoTypes_parse fot (scalarParsers fot) %s v_ {}"


def _translator():
    return pystmt_cast.Fn(words={"BOOLEAN_STRINGS": "boolWords"}, tables={"ORSO_TO_PYTHON_PARSER": "ORSO_TO_PYTHON_PARSER"},
                          attr_fns={"parse": ELEMENT_PARSE}, factories={"DecimalFactory.new_factory": "decimalFactory"})


def t_function(src, name):
    fn = src.func(name)
    if fn.decorator_list:
        raise Untranslatable("decorated %s" % name)
    return _translator().function(fn, name)


def t_method(src):
    fn = find_function(src.tree, "parse", "OrsoTypes")
    if fn.decorator_list:
        raise Untranslatable("decorated OrsoTypes.parse")
    return _translator().function(fn, "OrsoTypes_parse", extra_binders="(ORSO_TO_PYTHON_PARSER : List (String × Parser))", method=True)


def _table_node(src):
    for n in src.tree.body:
        tgt = None
        if isinstance(n, ast.Assign) and len(n.targets) == 1:
            tgt, val = n.targets[0], n.value
        elif isinstance(n, ast.AnnAssign):
            tgt, val = n.target, n.value
        if tgt is not None and isinstance(tgt, ast.Name) and tgt.id == "ORSO_TO_PYTHON_PARSER" and isinstance(val, ast.Dict):
            return val
    raise Untranslatable("ORSO_TO_PYTHON_PARSER = {...}")


def t_table(src, name, translated, without=()):
    """the dict as an association list: a translated parser by its name, any other parser as `notModelled`"""
    d = _table_node(src)
    rows = []
    for k, v in zip(d.keys, d.values):
        if not (isinstance(k, ast.Attribute) and ast.unparse(k.value) == "OrsoTypes" and isinstance(v, ast.Name)):
            raise Untranslatable("table entry %s" % ast.unparse(k)[:40])
        if v.id in without:
            continue
        rows.append("(%s, %s)" % (lean_str(k.attr), "%s fot" % v.id if v.id in translated else "notModelled"))
    doc = "/-- `ORSO_TO_PYTHON_PARSER`%s -/\n" % (" without " + ", ".join(without) if without else "")
    return doc + "def %s (fot : Fot) : List (String × Parser) :=\n  [%s]\n" % (name, ",\n   ".join(rows))


def _pinned():
    try:
        return json.load(open(PINNED_FILE))
    except OSError:
        return {}


def generate(o):
    src = Src("orso/types.py")
    pinned = _pinned()
    fresh = {}
    order = []
    for name in SCALARS:
        fresh[name] = o.item("c07.fn." + name, lambda name=name: t_function(src, name), pinned.get(name, "-- %s: not translated\n" % name))
        order.append(name)
    fresh["OrsoTypes_parse"] = o.item("c07.fn.OrsoTypes_parse", lambda: t_method(src), pinned.get("OrsoTypes_parse", "-- OrsoTypes_parse: not translated\n"))
    order.append("OrsoTypes_parse")
    translated = set(SCALARS)
    fresh["scalarParsers"] = o.item("c07.fn.scalarParsers", lambda: t_table(src, "scalarParsers", translated, without=("parse_array",)),
                                    pinned.get("scalarParsers", "-- scalarParsers: not translated\n"))
    order.append("scalarParsers")
    fresh["parse_array"] = o.item("c07.fn.parse_array", lambda: t_function(src, "parse_array"), pinned.get("parse_array", "-- parse_array: not translated\n"))
    order.append("parse_array")
    fresh["ORSO_TO_PYTHON_PARSER"] = o.item("c07.fn.ORSO_TO_PYTHON_PARSER", lambda: t_table(src, "ORSO_TO_PYTHON_PARSER", translated | {"parse_array"}),
                                            pinned.get("ORSO_TO_PYTHON_PARSER", "-- ORSO_TO_PYTHON_PARSER: not translated\n"))
    order.append("ORSO_TO_PYTHON_PARSER")
    if os.environ.get("ORSO_VERIF_WRITE_PINNED") == "c07_fns":
        os.makedirs(os.path.dirname(PINNED_FILE), exist_ok=True)
        json.dump(fresh, open(PINNED_FILE, "w"), indent=1, sort_keys=True)
    header = HEADER + "import OrsoVerif.Model.CastPrim\n"
    header += ("/-! The cast functions of orso/types.py, translated statement by statement (harness/pystmt_cast.py + "
               "extractors/c07_fns.py). -/\n")
    header += "set_option linter.unusedVariables false\nopen _root_.Cast _root_.Cast.Prim\nnamespace Gen.CastFns\n\n"
    text, bad = pystmt.compile_checked(header, [(k, fresh[k]) for k in order], "\nend Gen.CastFns\n", pinned, core.LEAN, "CastFns")
    for k in bad:
        o.degraded.append("c07.fn.%s (the translation does not elaborate in Lean; pinned text used)" % k)
    o.files["CastFns.lean"] = text
