"""C16: the persistence functions of orso/schema.py translated *statement by statement* into Lean
(`Generated/PersistFns.lean`, namespace `Gen.PersistFns`) by harness/pystmt.py on every run:

* `column_from_dict`    -- `FlatColumn.from_dict` (the repairs ahead of `cls(**dic)`, in source order, with their tests);
* `from_json`           -- `FlatColumn.from_json` (what is parsed, which loader it is handed to);
* `default_serializer`, `to_json` -- `FlatColumn.to_json` and the hook orjson calls for what it does not write itself;
* `to_flatcolumn`       -- the keyword arguments `to_flatcolumn` passes, each with the attribute it reads;
* `schema_from_dict`    -- `RelationSchema.from_dict` (the constructor call with its `dic[...]` / `dic.get(...)` reads, the
                           loop over the column entries, the two `isinstance` tests, what is appended, what is returned);
* `converter_value`, `schema_to_dict` -- `RelationSchema.to_dict` and what `_converter` writes for one value;
* `init_s1 … init_sN`, `init_body` -- every statement of `FlatColumn.__init__` after the attribute loop (type literal with the
                           fills and their guards, element type, disposition, the default's cast inside its `try`, the two
                           DECIMAL defaults), one definition per statement, composed in source order;
* tables: the declared defaults of `FlatColumn` and `RelationSchema` fields, and for each column subclass its own fields,
  whether its `__init__` starts with `super().__init__(**kwargs)`, the attributes it assigns afterwards, the methods it defines.

`Props/C16.lean` proves each translated function equal to the hand-written reference in `Model/Persist.lean` /
`Model/PersistOps.lean` (`generated_*_eq_model`) and states the round trips over the translated functions.  A shape the
translator does not know degrades to the pinned text (`pinned/c16_fns.json`, the translation of the tree as repaired).
"""
import ast
import copy
import json
import os
from fractions import Fraction

from .. import core, pystmt
from ..extract import HEADER, Src, lean_list, lean_str
from ..pyexpr import Untranslatable

PINNED_FILE = os.path.join(os.path.dirname(os.path.abspath(__file__)), "pinned", "c16_fns.json")

BINDERS = "{V : Type}"
SCHEMA_KEYS = ("name", "aliases", "columns", "primary_key")
NAT_ATTRS = ("length", "precision", "scale")
ERRORS = {"ValueError": ".value", "TypeError": ".type", "ColumnDefinitionError": ".columnDefinition", "KeyError": ".key"}


def _u(n):
    return ast.unparse(n)


def _nodoc(body):
    return [b for b in body if not (isinstance(b, ast.Expr) and isinstance(b.value, ast.Constant))]


def _cls(src, name):
    for n in src.tree.body:
        if isinstance(n, ast.ClassDef) and n.name == name:
            return n
    raise KeyError(name)


def _method(src, cls, name):
    for s in _cls(src, cls).body:
        if isinstance(s, ast.FunctionDef) and s.name == name:
            return s
    raise KeyError("%s.%s" % (cls, name))


def _raise(s, ex):
    e = s.exc
    name = None
    if isinstance(e, ast.Call) and isinstance(e.func, ast.Name):
        name = e.func.id
    elif isinstance(e, ast.Name):
        name = e.id
    if name is None:
        raise Untranslatable("raise %s" % _u(s)[:40])
    return ".error %s" % ERRORS[name] if name in ERRORS else ".error (.other %s.toList)" % lean_str(name)


def _orso_member(n):
    """`OrsoTypes.M` / `OrsoTypes.M.value` -> 'M'"""
    if isinstance(n, ast.Attribute) and n.attr == "value":
        n = n.value
    if isinstance(n, ast.Attribute) and isinstance(n.value, ast.Name) and n.value.id == "OrsoTypes":
        return n.attr
    return None


def _dict_get(n, dic):
    """`dic.get("k"[, default])` -> ('k', default node or None); else None"""
    if isinstance(n, ast.Call) and isinstance(n.func, ast.Attribute) and n.func.attr == "get" and isinstance(n.func.value, ast.Name) \
            and n.func.value.id == dic and 1 <= len(n.args) <= 2 and not n.keywords and isinstance(n.args[0], ast.Constant) \
            and isinstance(n.args[0].value, str):
        return n.args[0].value, (n.args[1] if len(n.args) == 2 else None)
    return None


def _dict_item(n, dic):
    """`dic["k"]` -> 'k'"""
    if isinstance(n, ast.Subscript) and isinstance(n.value, ast.Name) and n.value.id == dic and isinstance(n.slice, ast.Constant) \
            and isinstance(n.slice.value, str):
        return n.slice.value
    return None


def _loader_call(n, go, column_loader):
    """`cls(**X)` / `FlatColumn(**X)` -> constructor; `cls.from_dict(X)` / `FlatColumn.from_dict(X)` -> the translated from_dict"""
    if not isinstance(n, ast.Call):
        return None
    f = _u(n.func)
    if f in ("cls", "FlatColumn") and not n.args and len(n.keywords) == 1 and n.keywords[0].arg is None:
        return "init K fresh", n.keywords[0].value
    if f in ("cls.from_dict", "FlatColumn.from_dict") and len(n.args) == 1 and not n.keywords:
        if not column_loader:
            raise Untranslatable("from_dict calls itself")
        return "column_from_dict K fresh", n.args[0]
    return None


# ---------------------------------------------------------------------------------------------------------------------
# FlatColumn.from_dict


def t_column_from_dict(sch):
    fn = _method(sch, "FlatColumn", "from_dict")
    args = [a.arg for a in fn.args.args]
    if len(args) != 2:
        raise Untranslatable("from_dict%r" % (args,))
    dic = args[1]
    present = []   # keys known to be in the dictionary at this point of an `and` chain

    def is_present_test(v):
        return isinstance(v, ast.Compare) and len(v.ops) == 1 and isinstance(v.ops[0], ast.In) and isinstance(v.left, ast.Constant) \
            and isinstance(v.comparators[0], ast.Name) and v.comparators[0].id == dic

    class DictExpr(pystmt.Expr):
        def cond(self, n):
            if isinstance(n, ast.BoolOp) and isinstance(n.op, ast.And):
                # `"k" in dic and dic["k"] is None`: the keys tested so far are known to be present further right
                mark = len(present)
                parts = []
                try:
                    for v in n.values:
                        parts.append(self.cond(v))
                        if is_present_test(v):
                            present.append(v.left.value)
                finally:
                    del present[mark:]
                return "(" + " ∧ ".join(parts) + ")"
            return super().cond(n)

    def hook(n, go):
        if isinstance(n, ast.BoolOp):
            if any(_dict_item(m, dic) is not None for m in ast.walk(n)):
                raise Untranslatable("%s[...] inside and / or in value position" % dic)
        if isinstance(n, ast.Compare) and len(n.ops) == 1:
            left, op, right = n.left, n.ops[0], n.comparators[0]
            g = _dict_get(left, dic)
            if g is not None and isinstance(op, (ast.Eq, ast.NotEq)):
                m = _orso_member(right)
                if m is None or g[1] is not None or g[0] not in ("type", "element_type"):
                    raise Untranslatable("comparison %s" % _u(n)[:60])
                t = "(dGetEqValue %s %s %s)" % (dic, lean_str(g[0]), lean_str(m))
                return t if isinstance(op, ast.Eq) else "(¬ %s)" % t
            if isinstance(op, (ast.In, ast.NotIn)) and isinstance(left, ast.Constant) and isinstance(left.value, str) \
                    and isinstance(right, ast.Name) and right.id == dic:
                t = "(dHas %s %s)" % (dic, lean_str(left.value))
                return t if isinstance(op, ast.In) else "(¬ %s)" % t
            k = _dict_item(left, dic)
            if k is not None and isinstance(op, (ast.Is, ast.IsNot)) and isinstance(right, ast.Constant) and right.value is None:
                if k not in present:
                    raise Untranslatable("%s[%r] is read where the key may be absent" % (dic, k))
                if k not in ("type", "element_type"):
                    raise Untranslatable("is None on key %s" % k)
                t = "(dIsNone %s %s)" % (dic, lean_str(k))
                return t if isinstance(op, ast.Is) else "(¬ %s)" % t
        if isinstance(n, ast.Dict) and len(n.keys) == 2 and n.keys[0] is None and isinstance(n.values[0], ast.Name) and n.values[0].id == dic \
                and isinstance(n.keys[1], ast.Constant) and isinstance(n.keys[1].value, str):
            m = _orso_member(n.values[1])
            if m is None or (isinstance(n.values[1], ast.Attribute) and n.values[1].attr == "value" and _orso_member(n.values[1].value)):
                raise Untranslatable("dictionary display %s" % _u(n)[:60])
            if n.keys[1].value not in ("type", "element_type"):
                raise Untranslatable("assignment of key %s" % n.keys[1].value)
            return "(dSetMember %s %s %s)" % (dic, lean_str(n.keys[1].value), lean_str(m))
        lc = _loader_call(n, go, False)
        if lc is not None:
            return "(%s %s)" % (lc[0], go(lc[1]))
        return None

    ex = DictExpr(hook=hook)
    return pystmt.function(fn, "column_from_dict", [(None, "(K : Caster V)"), (None, "(fresh : String)"), (dic, "(%s : Raw V)" % dic)],
                           "Except Err (Col V)", ex, ret=lambda v, ex: ex.go(v), raise_=_raise, k=".error (.other \"None\".toList)",
                           binders=BINDERS)


# ---------------------------------------------------------------------------------------------------------------------
# FlatColumn.from_json / to_json


def _skip_dead_defs(used_ok=()):
    """statement hook: a nested function that nothing after it mentions is skipped"""
    def hook(s, rest, k, depth, st):
        if isinstance(s, ast.FunctionDef):
            used = any(isinstance(n, ast.Name) and n.id == s.name for r in rest for n in ast.walk(r))
            if not used or s.name in used_ok:
                return st.block(rest, k, depth)
        return None
    return hook


def t_from_json(sch):
    fn = _method(sch, "FlatColumn", "from_json")
    args = [a.arg for a in fn.args.args]
    if len(args) != 2:
        raise Untranslatable("from_json%r" % (args,))
    text = args[1]

    def hook(n, go):
        if isinstance(n, ast.Call) and _u(n.func) == "orjson.loads" and len(n.args) == 1 and not n.keywords:
            return "(loads %s)" % go(n.args[0])
        lc = _loader_call(n, go, True)
        if lc is not None:
            return "(%s %s)" % (lc[0], go(lc[1]))
        return None

    ex = pystmt.Expr(hook=hook)
    return pystmt.function(fn, "from_json", [(None, "(K : Caster V)"), (None, "(fresh : String)"), (text, "(%s : Raw V)" % text)],
                           "Except Err (Col V)", ex, ret=lambda v, ex: ex.go(v), raise_=_raise, k=".error (.other \"None\".toList)",
                           binders=BINDERS, stmt_hook=_skip_dead_defs())


def _serializer_def(sch):
    fn = _method(sch, "FlatColumn", "to_json")
    rets = [n for n in ast.walk(fn) if isinstance(n, ast.Return) and n.value is not None and isinstance(n.value, ast.Call)
            and _u(n.value.func) == "orjson.dumps"]
    if len(rets) != 1:
        raise Untranslatable("to_json: return orjson.dumps(...)")
    call = rets[0].value
    kw = {k.arg: k.value for k in call.keywords}
    if set(kw) - {"default"} or len(call.args) != 1:
        raise Untranslatable("orjson.dumps(%s)" % ", ".join(sorted(k or "**" for k in kw)))
    name = kw["default"].id if "default" in kw and isinstance(kw["default"], ast.Name) else None
    if "default" in kw and name is None:
        raise Untranslatable("default=%s" % _u(kw["default"])[:40])
    inner = None
    if name is not None:
        for s in fn.body:
            if isinstance(s, ast.FunctionDef) and s.name == name:
                inner = s
        if inner is None:
            raise Untranslatable("%s is not defined in to_json" % name)
    return fn, call, inner


def t_default_serializer(sch):
    fn, call, inner = _serializer_def(sch)
    if inner is None:
        return "def default_serializer (o : SerObj) : Except Err SerOut :=\n  .error .type\n"
    args = [a.arg for a in inner.args.args]
    if len(args) != 1:
        raise Untranslatable("default_serializer%r" % (args,))
    o = args[0]

    def hook(n, go):
        if isinstance(n, ast.Call) and isinstance(n.func, ast.Name) and n.func.id == "isinstance" and len(n.args) == 2 and not n.keywords \
                and isinstance(n.args[0], ast.Name) and n.args[0].id == o:
            c = n.args[1]
            names = [c] if isinstance(c, (ast.Name, ast.Attribute)) else (list(c.elts) if isinstance(c, ast.Tuple) else None)
            if not names or not all(isinstance(x, (ast.Name, ast.Attribute)) for x in names):
                raise Untranslatable("isinstance against %s" % _u(c)[:40])
            parts = ["(SerObj.isInstance %s %s)" % (o, lean_str(_u(x).split(".")[-1])) for x in names]
            return parts[0] if len(parts) == 1 else "(" + " ∨ ".join(parts) + ")"
        if isinstance(n, ast.Call) and isinstance(n.func, ast.Name) and n.func.id == "str" and len(n.args) == 1 and not n.keywords \
                and isinstance(n.args[0], ast.Name) and n.args[0].id == o:
            return "(SerObj.str %s)" % o
        if isinstance(n, ast.Attribute) and n.attr == "__dict__" and isinstance(n.value, ast.Name) and n.value.id == o:
            return "(SerObj.dict %s)" % o
        return None

    ex = pystmt.Expr(hook=hook)
    return pystmt.function(inner, "default_serializer", [(o, "(%s : SerObj)" % o)], "Except Err SerOut", ex,
                           ret=lambda v, ex: ".ok %s" % ex.go(v), raise_=_raise, k=".error (.other \"None\".toList)")


def t_to_json(sch):
    fn, call, inner = _serializer_def(sch)
    if _u(call.args[0]) != "asdict(self)":
        raise Untranslatable("orjson.dumps(%s, …)" % _u(call.args[0])[:40])

    def hook(n, go):
        if n is call:
            return "(dumps K default_serializer self_ (asdictCol self_))"
        return None

    ex = pystmt.Expr(hook=hook)
    return pystmt.function(fn, "to_json", [(None, "(K : Caster V)"), (None, "(self_ : Col V)")], "Except Err (Raw V)", ex,
                           ret=lambda v, ex: ex.go(v), raise_=_raise, k=".error (.other \"None\".toList)", binders=BINDERS,
                           stmt_hook=_skip_dead_defs(used_ok=(inner.name,) if inner is not None else ()))


# ---------------------------------------------------------------------------------------------------------------------
# FlatColumn.to_flatcolumn

KW_CONV = {"type": "rawTy ", "element_type": "Option.map rawTy ", "disposition": "Option.map RawDisp.member "}


def _raw_literal(keywords, go, fields):
    items = []
    seen = set()
    for k in keywords:
        if k.arg is None or k.arg in seen:
            raise Untranslatable("FlatColumn(**…) / repeated keyword")
        seen.add(k.arg)
        if k.arg not in fields:
            raise Untranslatable("keyword %s is not a declared field" % k.arg)
        items.append("%s := some (%s%s)" % (k.arg, KW_CONV.get(k.arg, ""), go(k.value)))
    return "({ " + ", ".join(items) + " } : Raw V)"


def t_to_flatcolumn(sch, fields):
    fn = _method(sch, "FlatColumn", "to_flatcolumn")

    def hook(n, go):
        if isinstance(n, ast.Call) and isinstance(n.func, ast.Name) and n.func.id == "FlatColumn" and not n.args:
            return "(init K fresh %s)" % _raw_literal(n.keywords, go, fields)
        return None

    ex = pystmt.Expr(env={"self": "self_"}, records={"self"}, funcs={"str": "pyStr"}, hook=hook)
    return pystmt.function(fn, "to_flatcolumn", [(None, "(K : Caster V)"), (None, "(fresh : String)"), (None, "(self_ : Col V)")],
                           "Except Err (Col V)", ex, ret=lambda v, ex: ex.go(v), raise_=_raise, k=".error (.other \"None\".toList)",
                           binders=BINDERS)


# ---------------------------------------------------------------------------------------------------------------------
# RelationSchema.from_dict


class _AppendToAssign(ast.NodeTransformer):
    """`X.columns.append(e)` (a statement) -> `X = _append_column(X, e)`"""

    def visit_Expr(self, s):
        c = s.value
        if isinstance(c, ast.Call) and isinstance(c.func, ast.Attribute) and c.func.attr == "append" and len(c.args) == 1 and not c.keywords \
                and isinstance(c.func.value, ast.Attribute) and c.func.value.attr == "columns" and isinstance(c.func.value.value, ast.Name):
            x = c.func.value.value.id
            new = ast.Assign(targets=[ast.Name(id=x, ctx=ast.Store())],
                             value=ast.Call(func=ast.Name(id="_append_column", ctx=ast.Load()), args=[ast.Name(id=x, ctx=ast.Load()), c.args[0]], keywords=[]))
            return ast.fix_missing_locations(ast.copy_location(new, s))
        return s


def _field_defaults(sch, cls):
    """[(field, default text)] of a dataclass: 'required', the unparsed default, or 'factory:<name>'"""
    out = []
    for s in _cls(sch, cls).body:
        if isinstance(s, ast.AnnAssign) and isinstance(s.target, ast.Name) and "ClassVar" not in ast.dump(s.annotation):
            v = s.value
            if v is None:
                d = "required"
            elif isinstance(v, ast.Call) and isinstance(v.func, ast.Name) and v.func.id == "field":
                kw = {k.arg: k.value for k in v.keywords}
                if set(kw) == {"default_factory"}:
                    d = "factory:" + _u(kw["default_factory"])
                elif set(kw) == {"default"}:
                    d = _u(kw["default"])
                else:
                    raise KeyError("field(...) of %s.%s" % (cls, s.target.id))
            else:
                d = _u(v)
            out.append([s.target.id, d])
    if not out:
        raise KeyError("no fields in " + cls)
    return out


def t_schema_from_dict(sch):
    fn = copy.deepcopy(_method(sch, "RelationSchema", "from_dict"))
    args = [a.arg for a in fn.args.args]
    if len(args) != 2:
        raise Untranslatable("from_dict%r" % (args,))
    dic = args[1]
    fn = _AppendToAssign().visit(fn)
    defaults = dict(_field_defaults(sch, "RelationSchema"))
    lean_default = {"factory:list": "[]", "None": "none"}

    def hook(n, go):
        g = _dict_get(n, dic)
        if g is not None:
            k, d = g
            if k == "aliases" and d is not None and isinstance(d, ast.List) and not d.elts:
                return "(%s.aliases.getD [])" % dic
            if k == "primary_key" and (d is None or (isinstance(d, ast.Constant) and d.value is None)):
                return "(%s.primary_key.getD none)" % dic
            raise Untranslatable("read %s" % _u(n)[:40])
        if isinstance(n, ast.Call) and isinstance(n.func, ast.Name) and n.func.id in ("RelationSchema", "cls") and not n.args:
            kw = {}
            for k in n.keywords:
                if k.arg is None or k.arg in kw:
                    raise Untranslatable("RelationSchema(**…)")
                kw[k.arg] = go(k.value)
            if "name" not in kw or set(kw) - {"name", "aliases", "primary_key"}:
                raise Untranslatable("RelationSchema(%s)" % ", ".join(sorted(kw)))
            for f in ("aliases", "primary_key"):
                if f not in kw:
                    if defaults.get(f) not in lean_default:
                        raise Untranslatable("default of RelationSchema.%s" % f)
                    kw[f] = lean_default[defaults[f]]
            if defaults.get("columns") != "factory:list":
                raise Untranslatable("default of RelationSchema.columns")
            return "({ name := %s, aliases := %s, columns := [], primary_key := %s } : SchemaB V)" % (kw["name"], kw["aliases"], kw["primary_key"])
        if isinstance(n, ast.Call) and isinstance(n.func, ast.Name) and n.func.id == "isinstance" and len(n.args) == 2 and not n.keywords \
                and isinstance(n.args[1], ast.Name) and n.args[1].id in ("dict", "str") and isinstance(n.args[0], ast.Name):
            return "(ColEntry.%s %s)" % ("isDict" if n.args[1].id == "dict" else "isStr", go(n.args[0]))
        lc = _loader_call(n, go, True)
        if lc is not None:
            return "(onDict (%s) %s)" % (lc[0], go(lc[1]))
        if isinstance(n, ast.Call) and isinstance(n.func, ast.Name) and n.func.id == "FlatColumn" and not n.args \
                and len(n.keywords) == 1 and n.keywords[0].arg == "name" and isinstance(n.keywords[0].value, ast.Name):
            return "(init K fresh ({ name := ColEntry.text %s } : Raw V))" % go(n.keywords[0].value)
        return None

    ex = pystmt.Expr(funcs={"_append_column": "SchemaB.append"}, hook=hook)

    def stmt_hook(s, rest, k, depth, st):
        # `dic["k"]` read by this statement: KeyError when absent, in evaluation order
        where = s.value if isinstance(s, ast.Assign) else (s.iter if isinstance(s, ast.For) else None)
        if where is None:
            return None
        keys = []
        for n in ast.walk(where):
            kk = _dict_item(n, dic)
            if kk is not None and isinstance(n.ctx, ast.Load) and _u(n) not in ex.env and kk not in keys:
                keys.append(kk)
        if not keys:
            return None
        # ast.walk is breadth first; keep source order
        order = {}
        for n in ast.walk(where):
            kk = _dict_item(n, dic)
            if kk in keys and kk not in order:
                order[kk] = (n.lineno, n.col_offset)
        keys.sort(key=lambda kk: order[kk])
        kk = keys[0]
        if kk not in SCHEMA_KEYS:
            raise Untranslatable("%s[%r]" % (dic, kk))
        pad = st.ind * depth
        var = "%s_%s" % (dic, kk)
        saved_env, saved = dict(ex.env), ex.typestate()
        ex.env["%s[%r]" % (dic, kk)] = var
        ex.bound.add(var)
        try:
            body = st.block([s] + rest, k, depth + 1)
        finally:
            ex.env = saved_env
            ex.restore(saved)
        return "match %s.%s with\n%s| none => .error .key\n%s| some %s =>\n%s%s%s" % (dic, kk, pad, pad, var, pad, st.ind, body)

    def ret(v, ex):
        if not (isinstance(v, ast.Name) and v.id in ex.bound):
            raise Untranslatable("return %s" % (_u(v)[:40] if v is not None else "None"))
        return "(SchemaB.seal %s)" % v.id

    return pystmt.function(fn, "schema_from_dict", [(None, "(K : Caster V)"), (None, "(fresh : String)"), (dic, "(%s : SDictE V)" % dic)],
                           "Except Err (Schema V)", ex, ret=ret, raise_=_raise, k=".error (.other \"None\".toList)", binders=BINDERS,
                           stmt_hook=stmt_hook, fold_redex=True)


# ---------------------------------------------------------------------------------------------------------------------
# RelationSchema.to_dict


def _converter_def(sch):
    fn = _method(sch, "RelationSchema", "to_dict")
    rets = [s for s in _nodoc(fn.body) if isinstance(s, ast.Return)]
    if len(rets) != 1 or not isinstance(rets[0].value, ast.Call) or _u(rets[0].value.func) != "asdict":
        raise Untranslatable("to_dict: return asdict(...)")
    call = rets[0].value
    kw = {k.arg: k.value for k in call.keywords}
    if len(call.args) != 1 or _u(call.args[0]) != "self" or set(kw) - {"dict_factory"}:
        raise Untranslatable("asdict(%s)" % _u(call)[:40])
    if "dict_factory" not in kw:
        return fn, None
    if not isinstance(kw["dict_factory"], ast.Name):
        raise Untranslatable("dict_factory=%s" % _u(kw["dict_factory"])[:40])
    for s in fn.body:
        if isinstance(s, ast.FunctionDef) and s.name == kw["dict_factory"].id:
            return fn, s
    raise Untranslatable("%s is not defined in to_dict" % kw["dict_factory"].id)


def t_converter_value(sch):
    fn, conv = _converter_def(sch)
    if conv is None:
        return "def converter_value (value : EVal) : EVal :=\n  (EVal.plain value)\n"
    body = _nodoc(conv.body)
    args = [a.arg for a in conv.args.args]
    if len(body) != 1 or not isinstance(body[0], ast.Return) or not isinstance(body[0].value, ast.DictComp) or len(args) != 1:
        raise Untranslatable("_converter shape")
    dc = body[0].value
    g = dc.generators
    if len(g) != 1 or g[0].ifs or g[0].is_async or _u(g[0].iter) != args[0] or not isinstance(g[0].target, ast.Tuple) \
            or len(g[0].target.elts) != 2 or not all(isinstance(e, ast.Name) for e in g[0].target.elts):
        raise Untranslatable("_converter comprehension")
    key, value = g[0].target.elts[0].id, g[0].target.elts[1].id
    if _u(dc.key) != key:
        raise Untranslatable("_converter writes the key %s" % _u(dc.key)[:40])

    def hook(n, go):
        if isinstance(n, ast.Call) and isinstance(n.func, ast.Name) and n.func.id == "isinstance" and len(n.args) == 2 and not n.keywords \
                and _u(n.args[0]) == value and _u(n.args[1]) in ("Enum", "enum.Enum"):
            return "(EVal.isEnum %s)" % value
        if isinstance(n, ast.Attribute) and isinstance(n.value, ast.Name) and n.value.id == value and n.attr in ("value", "name"):
            return "(EVal.%s %s)" % (n.attr, value)
        if isinstance(n, ast.Name) and n.id == value:
            return "(EVal.plain %s)" % value
        return None

    ex = pystmt.Expr(hook=hook)
    ex.bound.add(value)
    return "def converter_value (%s : EVal) : EVal :=\n  %s\n" % (value, ex.go(dc.value))


def t_schema_to_dict(sch):
    _converter_def(sch)
    return "def schema_to_dict {V : Type} (self_ : Schema V) : SDict V :=\n  (asdictSchema converter_value self_)\n"


# ---------------------------------------------------------------------------------------------------------------------
# FlatColumn.__init__, the statements after the attribute loop

FIELD_OF_RETURN = {"_type": "ty", "_length": "length", "_precision": "precision", "_scale": "scale", "_element_type": "elem"}


def _from_name_return(types):
    fn = types.func("from_name", "OrsoTypes")
    rets = [n for n in ast.walk(fn) if isinstance(n, ast.Return) and isinstance(n.value, ast.Tuple)]
    names = [tuple(e.id for e in r.value.elts[1:]) for r in rets]  # the first element is the type (a member or `_type`)
    if not names or len(set(names)) != 1 or any(n not in FIELD_OF_RETURN for n in names[0]):
        raise Untranslatable("from_name returns")
    return ["_type"] + list(names[0])


def _no_return(v, ex):
    raise Untranslatable("return inside __init__")


class _InitExpr(pystmt.Expr):
    def cond(self, n):
        if isinstance(n, ast.Attribute) and isinstance(n.value, ast.Name) and n.value.id == "self":
            if n.attr == "default":
                return "(K.truthy self.default = true)"
            if n.attr in NAT_ATTRS:
                return "(pyOrNat self.%s none ≠ none)" % n.attr
            raise Untranslatable("truth value of self.%s" % n.attr)
        return super().cond(n)


def _pure_test(n):
    """a test built from attribute reads, names, constants, comparisons and and/or/not only: evaluating it has no effect"""
    if isinstance(n, (ast.Name, ast.Constant)):
        return True
    if isinstance(n, ast.Attribute):
        return _pure_test(n.value)
    if isinstance(n, ast.Compare):
        return _pure_test(n.left) and all(_pure_test(c) for c in n.comparators) and all(isinstance(o, (ast.Eq, ast.NotEq, ast.Is, ast.IsNot)) for o in n.ops)
    if isinstance(n, ast.BoolOp):
        return all(_pure_test(v) for v in n.values)
    if isinstance(n, ast.UnaryOp) and isinstance(n.op, ast.Not):
        return _pure_test(n.operand)
    return False


def _split_shared_guard(steps):
    """`if A: (if B: X) (if C: Y)` reads as `if A and B: X` then `if A and C: Y` when A is a pure test and neither X nor Y
    assigns anything A reads (a tidy-up that evaluates a shared guard once must not look like a different constructor:
    harmless rewrite 10 of seeded/harmless4).  Anything else is left as written."""
    out = []
    for s in steps:
        inner = None
        if isinstance(s, ast.If) and not s.orelse and _pure_test(s.test):
            body = [b for b in s.body if not isinstance(b, (ast.Import, ast.ImportFrom))]
            if len(body) >= 2 and all(isinstance(b, ast.If) and not b.orelse and _pure_test(b.test) for b in body):
                reads = {_u(a) for a in ast.walk(s.test) if isinstance(a, ast.Attribute)}
                writes = set()
                simple = True
                for b in body:
                    for st_ in ast.walk(b):
                        if isinstance(st_, (ast.Assign, ast.AugAssign, ast.AnnAssign)):
                            for t in (st_.targets if isinstance(st_, ast.Assign) else [st_.target]):
                                writes.add(_u(t))
                        elif isinstance(st_, (ast.Delete, ast.Global, ast.Nonlocal, ast.With, ast.Try, ast.For, ast.While, ast.Return)):
                            simple = False
                if simple and not (reads & writes) and not any(w == r or r.startswith(w + ".") for w in writes for r in reads):
                    inner = body
        if inner is None:
            out.append(s)
        else:
            for b in inner:
                n = ast.If(test=ast.BoolOp(op=ast.And(), values=[s.test, b.test]), body=b.body, orelse=[])
                out.append(ast.copy_location(n, b))
    return out


def t_init_body(sch, types):
    fn = _method(sch, "FlatColumn", "__init__")
    body = _nodoc(fn.body)
    loops = [i for i, s in enumerate(body) if isinstance(s, ast.For)]
    if len(loops) != 1:
        raise Untranslatable("__init__: the attribute loop")
    steps = body[loops[0] + 1:]
    if not steps:
        raise Untranslatable("__init__: nothing after the attribute loop")
    steps = _split_shared_guard(steps)
    ret_names = _from_name_return(types)

    def class_test(n):
        """`self.A.__class__ is [not] C` -> (attr, positive, C)"""
        if isinstance(n, ast.Compare) and len(n.ops) == 1 and isinstance(n.ops[0], (ast.Is, ast.IsNot)) and isinstance(n.left, ast.Attribute) \
                and n.left.attr == "__class__" and isinstance(n.left.value, ast.Attribute) and _u(n.left.value.value) == "self" \
                and isinstance(n.comparators[0], ast.Name):
            return n.left.value.attr, isinstance(n.ops[0], ast.Is), n.comparators[0].id
        return None

    MEMBER_TEST = {("type", "OrsoTypes"): "RawTy.isMember", ("element_type", "OrsoTypes"): "isMemberO",
                   ("disposition", "ColumnDisposition"): "dispIsMemberO"}

    def hook(n, go):
        ct = class_test(n)
        if ct is not None:
            attr, pos, c = ct
            if (attr, c) not in MEMBER_TEST:
                raise Untranslatable("class test %s" % _u(n)[:50])
            t = "(%s self.%s)" % (MEMBER_TEST[(attr, c)], attr)
            return t if pos else "(¬ %s)" % t
        if isinstance(n, ast.Call) and isinstance(n.func, ast.Name) and n.func.id == "isinstance" and len(n.args) == 2 and not n.keywords \
                and isinstance(n.args[0], ast.Attribute) and _u(n.args[0].value) == "self" and isinstance(n.args[1], ast.Name):
            key = (n.args[0].attr, n.args[1].id)
            if key not in MEMBER_TEST:
                raise Untranslatable("isinstance %s" % _u(n)[:50])
            return "(%s self.%s)" % (MEMBER_TEST[key], n.args[0].attr)
        if isinstance(n, ast.Compare) and len(n.ops) == 1 and isinstance(n.ops[0], (ast.Eq, ast.NotEq)) and _u(n.left) == "self.type":
            m = _orso_member(n.comparators[0])
            if m is None or (isinstance(n.comparators[0], ast.Attribute) and n.comparators[0].attr == "value" and _orso_member(n.comparators[0].value)):
                raise Untranslatable("comparison %s" % _u(n)[:50])
            t = "(tyIs self.type %s)" % lean_str(m)
            return t if isinstance(n.ops[0], ast.Eq) else "(¬ %s)" % t
        if _u(n) == "getcontext().prec":
            return "(some Gen.TypeName.ctxPrec)"
        if isinstance(n, ast.Call) and isinstance(n.func, ast.Name) and n.func.id == "int" and len(n.args) == 1 and not n.keywords \
                and isinstance(n.args[0], ast.BinOp) and isinstance(n.args[0].op, ast.Mult):
            a, b = n.args[0].left, n.args[0].right
            if isinstance(b, ast.Constant):
                a, b = b, a
            if isinstance(a, ast.Constant) and isinstance(a.value, (int, float)) and not isinstance(a.value, bool) and _u(b) == "self.precision":
                fr = Fraction(str(a.value))
                if fr < 0:
                    raise Untranslatable("negative factor")
                return "(self.precision.map (fun pv => %d * pv / %d))" % (fr.numerator, fr.denominator)
        if isinstance(n, ast.BoolOp) and isinstance(n.op, ast.Or) and len(n.values) == 2 and isinstance(n.values[0], ast.Attribute) \
                and _u(n.values[0].value) == "self":
            a = n.values[0].attr
            if a in NAT_ATTRS:
                return "(pyOrNat self.%s %s)" % (a, go(n.values[1]))
            if a == "element_type":
                return "(pyOrTy self.element_type %s)" % go(n.values[1])
        return None

    def is_warn(s):
        return isinstance(s, ast.Expr) and isinstance(s.value, ast.Call) and isinstance(s.value.func, ast.Name) and s.value.func.id == "warn"

    def stmt_hook(s, rest, k, depth, st):
        ex = st.ex
        pad = st.ind * depth
        if is_warn(s) or isinstance(s, (ast.Import, ast.ImportFrom)):
            return st.block(rest, k, depth)
        if isinstance(s, ast.If) and not s.orelse and all(is_warn(b) for b in s.body):
            ex.cond(s.test)  # the test must still be something the translator reads (no effect: it cannot raise)
            return st.block(rest, k, depth)
        # self.type, _length, … = OrsoTypes.from_name(self.type)
        if isinstance(s, ast.Assign) and len(s.targets) == 1 and isinstance(s.targets[0], ast.Tuple) \
                and _u(s.value) == "OrsoTypes.from_name(self.type)":
            tg = s.targets[0].elts
            if len(tg) != len(ret_names):
                raise Untranslatable("unpacking does not match from_name's return")
            lets, names = [], []
            for t, r in zip(tg, ret_names):
                f = FIELD_OF_RETURN[r]
                val = {"ty": "(rawTy d_.ty)", "elem": "(d_.elem.map RawTy.member)"}.get(f, "d_.%s" % f)
                if isinstance(t, ast.Attribute) and _u(t.value) == "self":
                    ok = (t.attr == "type" and f == "ty") or (t.attr == "element_type" and f == "elem") or (t.attr in NAT_ATTRS and t.attr == f)
                    if not ok:
                        raise Untranslatable("self.%s takes from_name's %s" % (t.attr, r))
                    if t.attr == "type":
                        lets.append("let self := { self with type := %s }" % val)
                    else:
                        lets.append("let self := { self with %s := %s }" % (t.attr, val))
                elif isinstance(t, ast.Name):
                    lets.append("let %s := %s" % (t.id, val))
                    names.append(t.id)
                else:
                    raise Untranslatable("unpacking target %s" % _u(t))
            saved = ex.typestate()
            ex.bound |= set(names)
            try:
                tail = st.block(rest, k, depth + 1)
            finally:
                ex.restore(saved)
            inner = ("\n" + pad + st.ind).join(lets + [tail])
            return "match fromNameRaw self.type with\n%s| .error e_ => .error (convErr e_)\n%s| .ok d_ =>\n%s%s%s" % (pad, pad, pad, st.ind, inner)
        # self.element_type = OrsoTypes.from_name(self.element_type)[0]
        if isinstance(s, ast.Assign) and len(s.targets) == 1 and _u(s.targets[0]) == "self.element_type" \
                and _u(s.value) == "OrsoTypes.from_name(self.element_type)[0]":
            tail = st.block(rest, k, depth + 1)
            return ("match fromNameOpt self.element_type with\n%s| .error e_ => .error (convErr e_)\n%s| .ok d_ =>\n%s%slet self := { self with element_type := some (rawTy d_.ty) }\n%s%s%s"
                    % (pad, pad, pad, st.ind, pad, st.ind, tail))
        # self.disposition = ColumnDisposition(self.disposition)
        if isinstance(s, ast.Assign) and len(s.targets) == 1 and _u(s.targets[0]) == "self.disposition" \
                and _u(s.value) == "ColumnDisposition(self.disposition)":
            tail = st.block(rest, k, depth + 1)
            return ("match dispOfValue self.disposition with\n%s| none => .error .value\n%s| some n_ =>\n%s%slet self := { self with disposition := some (.member n_) }\n%s%s%s"
                    % (pad, pad, pad, st.ind, pad, st.ind, tail))
        # try: self.default = self.type.parse(self.default)  except Exception: raise E(...)
        if isinstance(s, ast.Try) and not s.orelse and not s.finalbody and len(s.handlers) == 1:
            h = s.handlers[0]
            tb = _nodoc(s.body)
            if (h.type is None or _u(h.type) in ("Exception", "BaseException")) and len(h.body) == 1 and isinstance(h.body[0], ast.Raise) \
                    and len(tb) == 1 and isinstance(tb[0], ast.Assign) and len(tb[0].targets) == 1 and _u(tb[0].targets[0]) == "self.default" \
                    and _u(tb[0].value) == "self.type.parse(self.default)":
                tail = st.block(rest, k, depth + 1)
                return ("match parseWith K self.type self.default with\n%s| none => %s\n%s| some w_ =>\n%s%slet self := { self with default := w_ }\n%s%s%s"
                        % (pad, _raise(h.body[0], ex), pad, pad, st.ind, pad, st.ind, tail))
            raise Untranslatable("try statement")
        return None

    defs = []
    for i, s in enumerate(steps, 1):
        ex = _InitExpr(hook=hook)
        wrapper = ast.FunctionDef(name="init_s%d" % i, args=fn.args, body=[s], decorator_list=[], returns=None)
        defs.append(pystmt.function(wrapper, "init_s%d" % i, [(None, "(K : Caster V)"), ("self", "(self : St V)")], "Except Err (St V)", ex,
                                    ret=_no_return, raise_=_raise,
                                    k=".ok self", binders=BINDERS, stmt_hook=stmt_hook))
    chain = "(init_s1 K self_)"
    for i in range(2, len(steps) + 1):
        chain = "(%s).bind (init_s%d K)" % (chain, i)
    defs.append("/-- the statements of `FlatColumn.__init__` after the attribute loop, in source order -/\n"
                "def init_body {V : Type} (K : Caster V) (self_ : St V) : Except Err (St V) :=\n  %s\n" % chain)
    defs.append("def init_step_count : Nat := %d\n" % len(steps))
    return "\n".join(defs)


# ---------------------------------------------------------------------------------------------------------------------
# tables: declared defaults, the column subclasses

SUBCLASSES = ("FunctionColumn", "ConstantColumn", "SparseColumn", "RLEColumn", "DictionaryColumn")


def _subclasses(sch):
    out = []
    for n in sch.tree.body:
        if isinstance(n, ast.ClassDef) and any(_u(b) == "FlatColumn" for b in n.bases):
            out.append(n.name)
    if not out:
        raise KeyError("no subclasses of FlatColumn")
    return out


def _subclass_init(sch, cls):
    """(starts with super().__init__(**kwargs), attributes of self assigned afterwards) -- no own __init__: (True, [])"""
    try:
        fn = _method(sch, cls, "__init__")
    except KeyError:
        return [True, []]
    body = _nodoc(fn.body)
    kwargs = fn.args.kwarg.arg if fn.args.kwarg else None
    first = bool(body) and kwargs is not None and not fn.args.args[1:] and _u(body[0]) == "super().__init__(**%s)" % kwargs
    assigned = []
    for s in body[1 if first else 0:]:
        for n in ast.walk(s):
            tg = []
            if isinstance(n, ast.Assign):
                tg = n.targets
            elif isinstance(n, (ast.AugAssign, ast.AnnAssign)):
                tg = [n.target]
            elif isinstance(n, ast.Call) and _u(n.func) in ("setattr", "object.__setattr__") and n.args and _u(n.args[0]) == "self":
                raise KeyError("setattr in %s.__init__" % cls)
            elif isinstance(n, ast.Attribute) and _u(n) == "self.__dict__":
                raise KeyError("__dict__ in %s.__init__" % cls)
            for t in tg:
                for e in ([t] if not isinstance(t, (ast.Tuple, ast.List)) else t.elts):
                    base = e
                    while isinstance(base, (ast.Subscript, ast.Starred)):
                        base = base.value
                    if isinstance(base, ast.Attribute) and _u(base.value) == "self" and base.attr not in assigned:
                        assigned.append(base.attr)
    return [first, assigned]


def _methods(sch, cls):
    return [s.name for s in _cls(sch, cls).body if isinstance(s, ast.FunctionDef)]


def _pinned():
    try:
        return json.load(open(PINNED_FILE))
    except (OSError, ValueError):
        return {}


PINNED_COLUMN_DEFAULTS = [["name", "required"], ["default", "None"], ["type", "OrsoTypes._MISSING_TYPE"], ["element_type", "None"],
                          ["description", "None"], ["disposition", "None"], ["aliases", "factory:list"], ["nullable", "True"],
                          ["expectations", "factory:list"], ["identity", "factory:random_string"], ["length", "None"], ["precision", "None"],
                          ["scale", "None"], ["origin", "factory:list"], ["highest_value", "None"], ["lowest_value", "None"], ["null_count", "None"]]
PINNED_SCHEMA_DEFAULTS = [["name", "required"], ["aliases", "factory:list"], ["columns", "factory:list"], ["primary_key", "None"],
                          ["row_count_metric", "None"], ["row_count_estimate", "None"], ["data_size_metric", "None"], ["data_size_estimate", "None"]]
PINNED_SUBCLASSES = ["FunctionColumn", "ConstantColumn", "SparseColumn", "RLEColumn", "DictionaryColumn"]
PINNED_SUB_FIELDS = {"FunctionColumn": [["binding", "lambda: None"], ["configuration", "factory:tuple"], ["length", "1"]],
                     "ConstantColumn": [["length", "1"], ["value", "None"]],
                     "SparseColumn": [["values", "None"], ["default_value", "None"]],
                     "RLEColumn": [["values", "None"], ["lengths", "factory:list"]],
                     "DictionaryColumn": [["values", "factory:list"]]}
PINNED_SUB_INIT = {"FunctionColumn": [True, []], "ConstantColumn": [True, ["values"]], "SparseColumn": [True, ["indices", "values", "total_length"]],
                   "RLEColumn": [True, ["values", "lengths"]], "DictionaryColumn": [True, ["values", "encoding"]]}
PINNED_SUB_METHODS = {"FunctionColumn": ["values", "materialize"], "ConstantColumn": ["__init__", "materialize"],
                      "SparseColumn": ["__init__", "materialize"], "RLEColumn": ["__init__", "materialize"],
                      "DictionaryColumn": ["__init__", "materialize"]}

TABLE = (("column_from_dict", lambda sch, types, fields: t_column_from_dict(sch)),
         ("from_json", lambda sch, types, fields: t_from_json(sch)),
         ("default_serializer", lambda sch, types, fields: t_default_serializer(sch)),
         ("to_json", lambda sch, types, fields: t_to_json(sch)),
         ("to_flatcolumn", lambda sch, types, fields: t_to_flatcolumn(sch, fields)),
         ("schema_from_dict", lambda sch, types, fields: t_schema_from_dict(sch)),
         ("converter_value", lambda sch, types, fields: t_converter_value(sch)),
         ("schema_to_dict", lambda sch, types, fields: t_schema_to_dict(sch)),
         ("init_body", lambda sch, types, fields: t_init_body(sch, types)))


def generate(o):
    sch = Src("orso/schema.py")
    types = Src("orso/types.py")
    pinned = _pinned()

    cdef = o.item("c16.fn.column_defaults", lambda: _field_defaults(sch, "FlatColumn"), PINNED_COLUMN_DEFAULTS)
    sdef = o.item("c16.fn.schema_defaults", lambda: _field_defaults(sch, "RelationSchema"), PINNED_SCHEMA_DEFAULTS)
    fields = [f for f, _ in cdef]
    subs = o.item("c16.fn.subclasses", lambda: _subclasses(sch), PINNED_SUBCLASSES)
    sub_fields = o.item("c16.fn.subclass_fields", lambda: {c: _field_defaults(sch, c) if any(
        isinstance(s, ast.AnnAssign) for s in _cls(sch, c).body) else [] for c in subs}, PINNED_SUB_FIELDS)
    sub_init = o.item("c16.fn.subclass_init", lambda: {c: _subclass_init(sch, c) for c in subs}, PINNED_SUB_INIT)
    sub_methods = o.item("c16.fn.subclass_methods", lambda: {c: _methods(sch, c) for c in subs}, PINNED_SUB_METHODS)

    fresh = {}
    for key, fn in TABLE:
        fresh[key] = o.item("c16.fn." + key, lambda fn=fn: fn(sch, types, fields), pinned.get(key, "-- %s: not translated\n" % key))
    if os.environ.get("ORSO_VERIF_WRITE_PINNED") == "c16_fns":
        os.makedirs(os.path.dirname(PINNED_FILE), exist_ok=True)
        json.dump(fresh, open(PINNED_FILE, "w"), indent=1, sort_keys=True)
        pinned = dict(fresh)

    def pairs(xs):
        return lean_list(xs, lambda p: "(%s, %s)" % (lean_str(p[0]), lean_str(p[1])))

    header = HEADER + "import OrsoVerif.Model.PersistOps\n"
    header += "/-! Functions of orso/schema.py translated statement by statement (harness/pystmt.py, harness/extractors/c16_fns.py). -/\n"
    header += "set_option linter.unusedVariables false\nopen _root_.Persist\nopen TypeName (Str Ty)\nnamespace Gen.PersistFns\n\n"
    header += "/-- the declared default of every `FlatColumn` field, in declaration order: `required`, the default's source text, or `factory:<callable>` -/\n"
    header += "def columnDefaults : List (String × String) := %s\n" % pairs(cdef)
    header += "/-- the same for `RelationSchema` -/\n"
    header += "def schemaDefaults : List (String × String) := %s\n" % pairs(sdef)
    header += "/-- the classes derived from `FlatColumn` -/\n"
    header += "def subclasses : List String := %s\n" % lean_list(subs, lean_str)
    header += "/-- the fields each of them declares itself (a redeclared base field changes that field's default) -/\n"
    header += "def subclassFields : List (String × List (String × String)) := %s\n" % lean_list(
        subs, lambda c: "(%s, %s)" % (lean_str(c), pairs(sub_fields.get(c, []))))
    header += "/-- its own `__init__`: does it start with `super().__init__(**kwargs)` (true also when it has none), and which attributes of `self` it assigns afterwards -/\n"
    header += "def subclassInit : List (String × Bool × List String) := %s\n" % lean_list(
        subs, lambda c: "(%s, %s, %s)" % (lean_str(c), "true" if sub_init.get(c, [False, []])[0] else "false",
                                          lean_list(sub_init.get(c, [False, []])[1], lean_str)))
    header += "/-- the methods it defines itself -/\n"
    header += "def subclassMethods : List (String × List String) := %s\n\n" % lean_list(
        subs, lambda c: "(%s, %s)" % (lean_str(c), lean_list(sub_methods.get(c, []), lean_str)))
    footer = "\nend Gen.PersistFns\n"
    text, bad = pystmt.compile_checked(header, [(k, fresh[k]) for k, _ in TABLE], footer, pinned, core.LEAN, "PersistFns")
    for k in bad:
        o.degraded.append("c16.fn.%s (the translation does not elaborate in Lean; pinned text used)" % k)
    o.files["PersistFns.lean"] = text
