"""C05 extraction, third part: where a frame's row class comes from.

`Generated/RowClass.lean` (namespace `Gen.RowClass`), regenerated from the working tree on every run:

* `classNew`       row.py `Row.create_class(schema, tuples_only)`: which `__new__` the class it makes has — Row's own (reads a
                   dict by key) or tuple's (iterates whatever it is given: a dict's KEYS) — as a function of `tuples_only`
* `cacheKey`       does `create_class` keep the classes it makes in module-level (or class-level) state, and if so which
                   of its arguments the key is built from: `none`, or `some (field names in the key, tuples_only in the key)`
* `frameFlag`      the `tuples_only` argument `DataFrame.__init__` passes for a frame created from rows and a schema
* `dictFrameFlag`  … for a frame created from dictionaries
* `arrowFlag`      the `tuples_only` argument `converters.from_arrow` passes for its reader

`create_class` is run abstractly, once for each value of `tuples_only` and of "the key is already in the cache": statements
are followed in source order (assignments, `if` on `tuples_only` / on a cache lookup, `return`), a `type(name, (Row,), {…})`
call is the class (its `__new__` entry, if any, says which constructor), `X.get(K)`, `K in X`, `X[K]`, `X[K] = v`,
`X.setdefault(K, v)` on a module-level or class-level dict are the cache.  Anything else is not recognised and degrades the
item to its pinned text — it never alarms.
"""
import ast

PIN = {"new": {"true": "tupleNew", "false": "rowNew"}, "cache": None}
PIN_FLAGS = {"frame": False, "dictframe": False, "arrow": True}

TUPLE_NEW = ("super().__new__", "tuple.__new__", "super(Row, cls).__new__", "super(cls, cls).__new__")
ROW_NEW = ("Row.__new__", "cls.__new__")


class Unrecognised(Exception):
    pass


def _is_docstring(st):
    return isinstance(st, ast.Expr) and isinstance(st.value, ast.Constant) and isinstance(st.value.value, str)


def module_dicts(tree, cls):
    """names of module-level dicts, and `cls.X` / `Row.X` class-level dicts"""
    out = set()

    def is_dict(v):
        return isinstance(v, ast.Dict) and not v.keys or (isinstance(v, ast.Call) and ast.unparse(v.func) in ("dict", "OrderedDict", "collections.OrderedDict") and not v.args and not v.keywords)

    for n in tree.body:
        tgt, val = None, None
        if isinstance(n, ast.Assign) and len(n.targets) == 1:
            tgt, val = n.targets[0], n.value
        elif isinstance(n, ast.AnnAssign) and n.value is not None:
            tgt, val = n.target, n.value
        if isinstance(tgt, ast.Name) and is_dict(val):
            out.add(tgt.id)
    for n in cls.body:
        tgt, val = None, None
        if isinstance(n, ast.Assign) and len(n.targets) == 1:
            tgt, val = n.targets[0], n.value
        elif isinstance(n, ast.AnnAssign) and n.value is not None:
            tgt, val = n.target, n.value
        if isinstance(tgt, ast.Name) and is_dict(val):
            out.add("cls." + tgt.id)
            out.add("%s.%s" % (cls.name, tgt.id))
    return out


class Returned(Exception):
    def __init__(self, value):
        self.value = value


class Run:
    """One abstract run of `create_class` for a value of `tuples_only` and of "the key is in the cache"."""

    def __init__(self, fn, caches, flag, hit):
        args = [a.arg for a in fn.args.args]
        if len(args) != 3 or args[0] != "cls":
            raise Unrecognised("signature of create_class")
        self.schema, self.flag_name = args[1], args[2]
        self.fn, self.caches, self.flag, self.hit = fn, caches, flag, hit
        self.env = {}
        self.stored = {}      # key parts -> class
        self.read_cache = None  # key parts of a cache read

    # ---- expressions
    def key(self, n):
        v = self.expr(n)
        if v[0] == "fields":
            return frozenset(["fields"])
        if v[0] == "flag":
            return frozenset(["flag"])
        if v[0] == "key":
            return v[1]
        raise Unrecognised("cache key %s" % ast.unparse(n)[:40])

    def expr(self, n):
        t = ast.unparse(n)
        if isinstance(n, ast.Name):
            if n.id == self.flag_name:
                return ("flag",)
            if n.id in self.env:
                return self.env[n.id]
            raise Unrecognised("name %s" % n.id)
        if isinstance(n, ast.Constant) and n.value is None:
            return ("none",)
        if isinstance(n, ast.Tuple):
            parts = set()
            for e in n.elts:
                v = self.expr(e)
                if v[0] == "fields":
                    parts.add("fields")
                elif v[0] == "flag":
                    parts.add("flag")
                elif v[0] == "key":
                    parts |= v[1]
                elif isinstance(e, ast.Name) and e.id == "cls":
                    pass
                else:
                    raise Unrecognised("key part %s" % ast.unparse(e)[:30])
            return ("key", frozenset(parts))
        if isinstance(n, ast.Call):
            f = ast.unparse(n.func)
            if f == "type" and len(n.args) == 3 and not n.keywords:
                bases, ns = n.args[1], n.args[2]
                if ast.unparse(bases) not in ("(Row,)", "(cls,)") or not isinstance(ns, ast.Dict):
                    raise Unrecognised("class made by %s" % t[:50])
                new = "rowNew"
                has_fields = False
                for k, v in zip(ns.keys, ns.values):
                    if not (isinstance(k, ast.Constant) and isinstance(k.value, str)):
                        raise Unrecognised("class namespace %s" % t[:50])
                    if k.value == "_fields":
                        if self.expr(v)[0] != "fields":
                            raise Unrecognised("_fields = %s" % ast.unparse(v)[:30])
                        has_fields = True
                    elif k.value == "__new__":
                        tv = ast.unparse(v)
                        if tv in TUPLE_NEW:
                            new = "tupleNew"
                        elif tv in ROW_NEW:
                            new = "rowNew"
                        else:
                            raise Unrecognised("__new__ = %s" % tv[:30])
                    elif k.value in ("__slots__", "__doc__", "__module__", "__qualname__"):
                        continue
                    else:
                        raise Unrecognised("class attribute %s" % k.value)
                if not has_fields:
                    raise Unrecognised("class without _fields")
                return ("class", new)
            if isinstance(n.func, ast.Attribute) and ast.unparse(n.func.value) in self.caches:
                if n.func.attr == "get" and 1 <= len(n.args) <= 2 and not n.keywords \
                        and (len(n.args) == 1 or (isinstance(n.args[1], ast.Constant) and n.args[1].value is None)):
                    k = self.key(n.args[0])
                    return self.lookup(k, missing=("none",))
                if n.func.attr == "setdefault" and len(n.args) == 2 and not n.keywords:
                    k = self.key(n.args[0])
                    v = self.expr(n.args[1])
                    got = self.lookup(k, missing=None)
                    if got is not None:
                        return got
                    if v[0] != "class":
                        raise Unrecognised("cached value %s" % ast.unparse(n.args[1])[:30])
                    self.stored[k] = v
                    return v
            if f == "tuple" and len(n.args) == 1 and self.schema in {x.id for x in ast.walk(n.args[0]) if isinstance(x, ast.Name)}:
                return ("fields",)
            raise Unrecognised("call %s" % t[:50])
        if isinstance(n, ast.Subscript) and ast.unparse(n.value) in self.caches:
            k = self.key(n.slice)
            got = self.lookup(k, missing=None)
            if got is None:
                raise Unrecognised("cache read before it is written")
            return got
        raise Unrecognised("expression %s" % t[:50])

    def lookup(self, k, missing):
        if k in self.stored:
            return self.stored[k]
        self.read_cache = k
        return ("cached", k) if self.hit else missing

    def test(self, n):
        if isinstance(n, ast.UnaryOp) and isinstance(n.op, ast.Not):
            return not self.test(n.operand)
        if isinstance(n, ast.Name) and n.id == self.flag_name:
            return self.flag
        if isinstance(n, ast.Compare) and len(n.ops) == 1:
            op, right = n.ops[0], n.comparators[0]
            if isinstance(op, (ast.Is, ast.IsNot, ast.Eq, ast.NotEq)) and isinstance(right, ast.Constant) and right.value is None:
                v = self.expr(n.left)
                if v[0] not in ("none", "cached", "class"):
                    raise Unrecognised("test %s" % ast.unparse(n)[:40])
                is_none = v[0] == "none"
                return is_none if isinstance(op, (ast.Is, ast.Eq)) else not is_none
            if isinstance(op, (ast.In, ast.NotIn)) and ast.unparse(right) in self.caches:
                k = self.key(n.left)
                there = k in self.stored or self.hit
                if k not in self.stored:
                    self.read_cache = k
                return there if isinstance(op, ast.In) else not there
            if isinstance(op, (ast.Is, ast.Eq)) and isinstance(right, ast.Constant) and isinstance(right.value, bool) \
                    and isinstance(n.left, ast.Name) and n.left.id == self.flag_name:
                return self.flag == right.value
        if isinstance(n, ast.Name) and n.id in self.env:
            v = self.env[n.id]
            if v[0] in ("cached", "class"):
                return True
            if v[0] == "none":
                return False
        raise Unrecognised("test %s" % ast.unparse(n)[:50])

    # ---- statements
    def block(self, stmts):
        for st in stmts:
            if isinstance(st, ast.Pass) or _is_docstring(st):
                continue
            if isinstance(st, ast.If) and ("isinstance(%s" % self.schema) in ast.unparse(st.test):
                # the preamble that normalises `schema` into the field names
                for sub in ast.walk(st):
                    if isinstance(sub, (ast.Return, ast.Subscript)) and any(ast.unparse(x) in self.caches for x in ast.walk(sub)):
                        raise Unrecognised("cache used while the field names are worked out")
                self.env["fields"] = ("fields",)
                continue
            if isinstance(st, ast.Assign) and len(st.targets) == 1 and isinstance(st.targets[0], ast.Name):
                self.env[st.targets[0].id] = self.expr(st.value)
                continue
            if isinstance(st, ast.AnnAssign) and isinstance(st.target, ast.Name) and st.value is not None:
                self.env[st.target.id] = self.expr(st.value)
                continue
            if isinstance(st, ast.Assign) and len(st.targets) == 1 and isinstance(st.targets[0], ast.Subscript) \
                    and ast.unparse(st.targets[0].value) in self.caches:
                v = self.expr(st.value)
                if v[0] == "cached":
                    continue
                if v[0] != "class":
                    raise Unrecognised("cached value %s" % ast.unparse(st.value)[:30])
                self.stored[self.key(st.targets[0].slice)] = v
                continue
            if isinstance(st, ast.If):
                self.block(st.body if self.test(st.test) else st.orelse)
                continue
            if isinstance(st, ast.Return) and st.value is not None:
                raise Returned(self.expr(st.value))
            if isinstance(st, ast.Raise):
                raise Unrecognised("raise on the main path")
            raise Unrecognised("statement %s" % ast.unparse(st)[:50])

    def run(self):
        try:
            self.block(list(self.fn.body))
        except Returned as r:
            return r.value
        raise Unrecognised("create_class falls off its end")


def create_class_facts(tree):
    cls = next((n for n in tree.body if isinstance(n, ast.ClassDef) and n.name == "Row"), None)
    if cls is None:
        raise Unrecognised("class Row")
    fn = next((n for n in cls.body if isinstance(n, ast.FunctionDef) and n.name == "create_class"), None)
    if fn is None:
        raise Unrecognised("Row.create_class")
    decs = [ast.unparse(d) for d in fn.decorator_list]
    if decs != ["classmethod"]:
        raise Unrecognised("decorators of create_class: %s" % decs)
    for n in ast.walk(fn):
        if isinstance(n, (ast.Global, ast.Nonlocal)):
            raise Unrecognised("create_class declares %s" % ast.unparse(n))
    caches = module_dicts(tree, cls)
    new, key = {}, None
    uses_cache = False
    for flag in (True, False):
        miss = Run(fn, caches, flag, False)
        v = miss.run()
        if v[0] != "class":
            raise Unrecognised("create_class returns %s" % (v[0],))
        new["true" if flag else "false"] = v[1]
        hit = Run(fn, caches, flag, True)
        w = hit.run()
        if w[0] == "cached":
            uses_cache = True
            k = w[1]
            if miss.stored.get(k) != v:
                raise Unrecognised("what is cached is not what is returned")
            if key is not None and key != k:
                raise Unrecognised("two cache keys")
            key = k
        elif w != v:
            raise Unrecognised("create_class with a warm cache returns %s" % (w[0],))
    cache = [("fields" in key), ("flag" in key)] if uses_cache else None
    return {"new": new, "cache": cache}


def _flag_of_call(call, default):
    if len(call.args) > 2:
        raise Unrecognised("arguments of create_class")
    v = None
    if len(call.args) == 2:
        v = call.args[1]
    for k in call.keywords:
        if k.arg == "tuples_only":
            v = k.value
        elif k.arg != "schema":
            raise Unrecognised("argument %s" % k.arg)
    if v is None:
        return default
    if isinstance(v, ast.Constant) and isinstance(v.value, bool):
        return v.value
    raise Unrecognised("tuples_only=%s" % ast.unparse(v)[:30])


def _calls(node):
    return [n for n in ast.walk(node) if isinstance(n, ast.Call) and isinstance(n.func, ast.Attribute) and n.func.attr == "create_class"]


def call_flags(row_tree, frame_tree, conv_tree):
    cls = next((n for n in row_tree.body if isinstance(n, ast.ClassDef) and n.name == "Row"), None)
    fn = next((n for n in cls.body if isinstance(n, ast.FunctionDef) and n.name == "create_class"), None)
    dflt = fn.args.defaults[-1] if fn.args.defaults else None
    if not (isinstance(dflt, ast.Constant) and isinstance(dflt.value, bool)):
        raise Unrecognised("default of tuples_only")
    default = dflt.value
    df = next((n for n in frame_tree.body if isinstance(n, ast.ClassDef) and n.name == "DataFrame"), None)
    init = next((n for n in df.body if isinstance(n, ast.FunctionDef) and n.name == "__init__"), None)
    top_if = next((st for st in init.body if isinstance(st, ast.If) and "dictionaries" in ast.unparse(st.test)), None)
    if top_if is None or ast.unparse(top_if.test) != "dictionaries is not None":
        raise Unrecognised("DataFrame.__init__ does not branch on `dictionaries is not None`")
    in_dicts = [c for st in top_if.body for c in _calls(st)]
    in_rows = [c for st in top_if.orelse for c in _calls(st)]
    elsewhere = [c for st in init.body if st is not top_if for c in _calls(st)]
    if elsewhere and not (in_dicts or in_rows):
        in_dicts = in_rows = elsewhere
    if len(in_dicts) != 1 or len(in_rows) != 1:
        raise Unrecognised("DataFrame.__init__ asks for a row class %d + %d times" % (len(in_dicts), len(in_rows)))
    for n in ast.walk(df):
        # the factory must come from create_class: no other assignment to `_row_factory` anywhere in the class.
        # A later refresh (`append` re-making the class for the schema's current columns, repair C02-F04) is the
        # same request as the frame's own as long as it passes the same `tuples_only`.
        if isinstance(n, ast.Assign) and any(ast.unparse(t).endswith("._row_factory") for t in n.targets) \
                and not (isinstance(n.value, ast.Call) and n.value in in_dicts + in_rows):
            v = n.value
            same_request = isinstance(v, ast.Call) and v in _calls(v) and _flag_of_call(v, default) == _flag_of_call(in_rows[0], default)
            if not same_request:
                raise Unrecognised("_row_factory assigned from %s" % ast.unparse(n.value)[:40])
    conv = next((n for n in conv_tree.body if isinstance(n, ast.FunctionDef) and n.name == "from_arrow"), None)
    if conv is None:
        raise Unrecognised("converters.from_arrow")
    in_conv = _calls(conv)
    if len(in_conv) != 1:
        raise Unrecognised("from_arrow asks for a row class %d times" % len(in_conv))
    return {"frame": _flag_of_call(in_rows[0], default), "dictframe": _flag_of_call(in_dicts[0], default), "arrow": _flag_of_call(in_conv[0], default)}


def lean_text(header, facts, flags):
    b = lambda x: "true" if x else "false"
    t = header + "namespace Gen.RowClass\n"
    t += "/-- whose `__new__` a row class has: Row's own (reads a dict by key) or tuple's (iterates what it is given: a dict's KEYS) -/\n"
    t += "inductive NewKind where\n  | rowNew | tupleNew\n  deriving DecidableEq, Repr\n"
    t += "/-- row.py `Row.create_class(schema, tuples_only)`: the constructor of the class it makes -/\n"
    t += "def classNew (tuplesOnly : Bool) : NewKind := if tuplesOnly then NewKind.%s else NewKind.%s\n" % (facts["new"]["true"], facts["new"]["false"])
    t += "/-- row.py: does `create_class` keep the classes it makes in module-level state?  `none` = no; `some (f, t)` = yes, under a\nkey built from the field names (f) and from `tuples_only` (t) -/\n"
    t += "def cacheKey : Option (Bool × Bool) := %s\n" % ("none" if facts["cache"] is None else "some (%s, %s)" % (b(facts["cache"][0]), b(facts["cache"][1])))
    t += "/-- dataframe.py `DataFrame.__init__`: the `tuples_only` it passes for a frame made from rows and a schema -/\n"
    t += "def frameFlag : Bool := %s\n" % b(flags["frame"])
    t += "/-- dataframe.py `DataFrame.__init__`: the `tuples_only` it passes for a frame made from dictionaries -/\n"
    t += "def dictFrameFlag : Bool := %s\n" % b(flags["dictframe"])
    t += "/-- converters.py `from_arrow`: the `tuples_only` it passes for the class its reader builds rows with -/\n"
    t += "def arrowFlag : Bool := %s\n" % b(flags["arrow"])
    t += "end Gen.RowClass\n"
    return t
