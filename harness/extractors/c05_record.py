"""C05 — what `RelationSchema.validate` and `DataFrame.append` do WITH THE CALLER'S RECORD OBJECT, beyond reading it.

Generated into `Generated/RecordUse.lean`, from the working tree on every run:

* `recordRetained`   statements that keep the record object, or a live view of it (`data.keys()`, `.items()`, `.values()`, the
                     object itself, a local name bound to one of these), in something that outlives the call: an attribute of
                     `self` / of a column / of the class, a module-level name, a subscript of those, or a mutating call on those
                     (`.append`, `.add`, `.setdefault`, …).  A copy (`dict(data)`, `list(data.keys())`, `set(data)`, `tuple(…)`,
                     `sorted(…)`, `{**data}`) is not the object.  [seeded shape C05-w7s2: a remembered `data.keys()`]
* `recordWrittenTo`  statements that write INTO the record object (`data[k] = …`, `del data[k]`, `.update`, `.setdefault`,
                     `.pop`, `.clear`, …).
* `recordRewritten`  statements of `append` that put something else in the record's place before it is validated / built: the
                     record merged with other data (`{**entry, **x}`, `entry | x`, `dict(entry, **x)`, `ChainMap`).  A plain
                     copy (`dict(entry)`, `entry.copy()`) is the same record.  [seeded shape C05-w7s3: defaults merged in]
* `validatesWhatItStores`  the `validate` call and the row constructor of `append` are given the same name.

Anything the walker does not recognise as one of these shapes is not listed; a rebinding of the record it cannot classify
degrades the item (pinned value + note), it never alarms.
"""
import ast

PIN = {"retained": [], "written": [], "rewritten": [], "same": True}

COPYING = {"dict", "list", "set", "tuple", "frozenset", "sorted", "len", "str", "repr", "hash", "id", "type", "isinstance", "bool",
           "any", "all", "sum", "min", "max", "deepcopy", "copy"}
VIEWS = {"keys", "items", "values"}
MUTATORS = {"append", "add", "extend", "insert", "setdefault", "update", "appendleft", "put", "__setitem__", "push"}
RECORD_WRITERS = {"update", "setdefault", "pop", "popitem", "clear", "__setitem__", "__delitem__"}
MERGERS = {"ChainMap", "dict", "merge", "OrderedDict"}


class Unrecognised(Exception):
    pass


def _root(n):
    while isinstance(n, (ast.Attribute, ast.Subscript)):
        n = n.value
    return n.id if isinstance(n, ast.Name) else None


def _text(st):
    return " ".join(ast.unparse(st).split())[:90]


def record_use(fn, is_append):
    args = [a.arg for a in fn.args.args]
    if len(args) != 2:
        raise Unrecognised("signature")
    me, rec = args
    local = set()
    declared_global = set()
    for n in ast.walk(fn):
        if isinstance(n, ast.Name) and isinstance(n.ctx, ast.Store):
            local.add(n.id)
        elif isinstance(n, (ast.Global, ast.Nonlocal)):
            declared_global.update(n.names)
        elif isinstance(n, ast.comprehension):
            for m in ast.walk(n.target):
                if isinstance(m, ast.Name):
                    local.add(m.id)
    local -= declared_global
    # loop variables over self.columns are the schema's own column objects: they outlive the call
    column_vars = {n.target.id for n in ast.walk(fn) if isinstance(n, ast.For) and isinstance(n.target, ast.Name)
                   and _root(n.iter) == me}
    live = {rec}            # names bound to the record object or to a live view of it

    def leaks(e):
        if isinstance(e, ast.Name):
            return e.id in live
        if isinstance(e, ast.Call):
            f = e.func
            if isinstance(f, ast.Attribute) and isinstance(f.value, ast.Name) and f.value.id in live and f.attr in VIEWS:
                return True
            return False       # a copying call, or a call the walker knows nothing about
        if isinstance(e, (ast.Tuple, ast.List, ast.Set)):
            return any(leaks(x) for x in e.elts)
        if isinstance(e, ast.Dict):
            return any(k is not None and leaks(v) for k, v in zip(e.keys, e.values))
        if isinstance(e, ast.IfExp):
            return leaks(e.body) or leaks(e.orelse)
        if isinstance(e, ast.BoolOp):
            return any(leaks(x) for x in e.values)
        if isinstance(e, ast.NamedExpr):
            return leaks(e.value)
        return False

    def persistent(t):
        if isinstance(t, ast.Name):
            return t.id in declared_global
        r = _root(t)
        if r is None:
            return False
        return r == me or r == "cls" or r in column_vars or r in declared_global or (r not in local and r != rec and r not in live)

    # local names bound to the record / a view of it (to a fixpoint; plain assignments only)
    changed = True
    while changed:
        changed = False
        for n in ast.walk(fn):
            if isinstance(n, ast.Assign) and len(n.targets) == 1 and isinstance(n.targets[0], ast.Name) and leaks(n.value) \
                    and n.targets[0].id not in live:
                live.add(n.targets[0].id)
                changed = True

    retained, written, rewritten = [], [], []
    for n in ast.walk(fn):
        if isinstance(n, (ast.Assign, ast.AugAssign, ast.AnnAssign)):
            targets = n.targets if isinstance(n, ast.Assign) else [n.target]
            value = n.value
            if value is None:
                continue
            flat = []
            for t in targets:
                flat += list(t.elts) if isinstance(t, (ast.Tuple, ast.List)) else [t]
            for t in flat:
                if persistent(t) and leaks(value):
                    retained.append(_text(n))
                if isinstance(t, ast.Subscript) and isinstance(t.value, ast.Name) and t.value.id == rec:
                    written.append(_text(n))
                if is_append and isinstance(t, ast.Name) and t.id == rec:
                    kind = rebinding(value, rec)
                    if kind == "merge":
                        rewritten.append(_text(n))
        elif isinstance(n, ast.Delete):
            for t in n.targets:
                if isinstance(t, ast.Subscript) and isinstance(t.value, ast.Name) and t.value.id == rec:
                    written.append(_text(n))
        elif isinstance(n, ast.Call) and isinstance(n.func, ast.Attribute):
            if n.func.attr in MUTATORS and persistent(n.func.value) and any(leaks(a) for a in list(n.args) + [k.value for k in n.keywords]):
                retained.append(_text(n))
            if isinstance(n.func.value, ast.Name) and n.func.value.id == rec and n.func.attr in RECORD_WRITERS:
                written.append(_text(n))
    same = True
    if is_append:
        val = [n for n in ast.walk(fn) if isinstance(n, ast.Call) and isinstance(n.func, ast.Attribute) and n.func.attr == "validate"]
        build = [n for n in ast.walk(fn) if isinstance(n, ast.Call) and ast.unparse(n.func) == "self._row_factory"]
        if len(val) != 1 or len(build) != 1 or len(val[0].args) != 1 or len(build[0].args) != 1:
            raise Unrecognised("validate / row constructor calls of append")
        a, b = val[0].args[0], build[0].args[0]
        if not (isinstance(a, ast.Name) and isinstance(b, ast.Name)):
            raise Unrecognised("argument of validate / of the row constructor is not a name")
        same = a.id == b.id == rec
    return {"retained": sorted(set(retained)), "written": sorted(set(written)), "rewritten": sorted(set(rewritten)), "same": same}


def rebinding(value, rec):
    """`rec = <value>`: "copy" (the same record), "merge" (the record and something else), or Unrecognised"""
    def is_rec(e):
        return isinstance(e, ast.Name) and e.id == rec

    if is_rec(value):
        return "copy"
    if isinstance(value, ast.Call):
        f = ast.unparse(value.func)
        if f in ("dict", "copy.copy", "copy.deepcopy", "copy", "deepcopy") and len(value.args) == 1 and not value.keywords and is_rec(value.args[0]):
            return "copy"
        if f == rec + ".copy" and not value.args:
            return "copy"
        if f.split(".")[-1] in MERGERS and any(is_rec(a) for a in value.args) and (len(value.args) > 1 or value.keywords):
            return "merge"
    if isinstance(value, ast.Dict):
        stars = [v for k, v in zip(value.keys, value.values) if k is None]
        if any(is_rec(v) for v in stars):
            return "copy" if len(value.values) == 1 else "merge"
    if isinstance(value, ast.BinOp) and isinstance(value.op, ast.BitOr) and (is_rec(value.left) or is_rec(value.right)):
        return "merge"
    if isinstance(value, ast.IfExp):
        kinds = {rebinding(value.body, rec), rebinding(value.orelse, rec)}
        return "merge" if "merge" in kinds else "copy"
    raise Unrecognised("statement that rebinds the record: %s" % ast.unparse(value)[:50])


def facts(validate_fn, append_fn):
    v = record_use(validate_fn, False)
    a = record_use(append_fn, True)
    tag = lambda where, xs: ["%s: %s" % (where, x) for x in xs]
    return {"retained": tag("validate", v["retained"]) + tag("append", a["retained"]),
            "written": tag("validate", v["written"]) + tag("append", a["written"]),
            "rewritten": tag("append", a["rewritten"]), "same": a["same"]}


def lean_text(header, f, lean_list, lean_str):
    t = header + "namespace Gen.RecordUse\n"
    t += "/-- statements of `validate` / `append` that keep the caller's record object, or a live view of it, beyond the call -/\n"
    t += "def recordRetained : List String := %s\n" % lean_list(f["retained"], lean_str)
    t += "/-- statements of `validate` / `append` that write into the caller's record object -/\n"
    t += "def recordWrittenTo : List String := %s\n" % lean_list(f["written"], lean_str)
    t += "/-- statements of `append` that put the record merged with other data in the record's place -/\n"
    t += "def recordRewritten : List String := %s\n" % lean_list(f["rewritten"], lean_str)
    t += "/-- `append` hands `validate` and the row constructor the same name, the record -/\n"
    t += "def validatesWhatItStores : Bool := %s\n" % ("true" if f["same"] else "false")
    t += "end Gen.RecordUse\n"
    return t
