"""C20: the statement-level part of the log sanitiser, translated from the working tree on every run
(harness/pystmt.py) into `Generated/SanitiseFns.lean`, namespace `Gen.SanitiseFns`:

* `clean_member`      -- the body of the loop of `LogFormatter.clean_record` (one member of the record):
                         the if / elif / else chain *in source order* (is the key sensitive?  is the value a
                         dict?), the three f-strings (placeholder, decorated key, decorated value);
* `format`            -- `LogFormatter.format` after the inner formatter ran: sanitise, then the URL rule
                         over the whole record, in source order;
* `sanitize_tail`     -- `sanitize_record` after the isolation loop: the JSON branch and the plain-text
                         branch (colour exchange, last field, the three quote substitutions in source order,
                         strip, marker), the join and the colouriser;
* `write_event_dict`, `write_event_text` -- the two branches of `GoogleLogger.write_event` after the
                         structured log was built.

`Props/C20.lean` proves each of them equal to the hand-written model (`generated_*_eq_model`), so the
order of the tests / stages is an *extracted* item every C20 theorem depends on.  What the translator
does not recognise (a new statement, another argument, a fast path) degrades to the pinned translation
(`pinned/c20_fns.json`, the translation of the tree as repaired) and is left to the correspondence.
"""
import ast
import json
import os

from .. import core, pystmt
from ..extract import HEADER, Src
from ..pyexpr import Untranslatable

PINNED_FILE = os.path.join(os.path.dirname(os.path.abspath(__file__)), "pinned", "c20_fns.json")


def chars(t):
    out = []
    for ch in t:
        if 32 <= ord(ch) < 127 and ch not in "'\\":
            out.append("'%s'" % ch)
        else:
            out.append("Char.ofNat %d" % ord(ch))
    return "[" + ", ".join(out) + "]"


def _nodoc(body):
    return [b for b in body if not (isinstance(b, ast.Expr) and isinstance(b.value, ast.Constant))]


def _u(n):
    return ast.unparse(n)


def _joined(n, go):
    """f-string -> concatenation of texts; only plain `{expr}` fields"""
    parts = []
    for v in n.values:
        if isinstance(v, ast.Constant) and isinstance(v.value, str):
            parts.append(chars(v.value))
        elif isinstance(v, ast.FormattedValue) and v.conversion == -1 and v.format_spec is None:
            parts.append(go(v.value))
        else:
            raise Untranslatable("f-string field %s" % _u(v))
    if not parts:
        return "([] : Str)"
    return "(" + " ++ ".join(parts) + ")"


def _str_const(n):
    return isinstance(n, ast.Constant) and isinstance(n.value, str)


def _base_hook(n, go):
    if _str_const(n):
        return "(%s : Str)" % chars(n.value)
    if isinstance(n, ast.JoinedStr):
        return _joined(n, go)
    # text concatenation
    if isinstance(n, ast.BinOp) and isinstance(n.op, ast.Add):
        return "(%s ++ %s)" % (go(n.left), go(n.right))
    return None


# --------------------------------------------------------------------------- clean_record


def t_clean_member(lf):
    fn = lf.func("clean_record", "LogFormatter")
    if [a.arg for a in fn.args.args] != ["self", "dirty_record", "colorize"]:
        raise Untranslatable("clean_record signature")
    body = _nodoc(fn.body)
    loops = [i for i, s in enumerate(body) if isinstance(s, ast.For)]
    if len(loops) != 1:
        raise Untranslatable("clean_record: one loop expected")
    pre, loop, post = body[:loops[0]], body[loops[0]], body[loops[0] + 1:]
    # prologue: the colour table, the quote-colouring callback, the empty result -- nothing else (no fast path)
    acc = None
    for s in pre:
        if isinstance(s, ast.FunctionDef) and s.name == "color_value":
            continue
        if isinstance(s, ast.Assign) and len(s.targets) == 1 and isinstance(s.targets[0], ast.Name):
            t = s.targets[0].id
            if t == "colors" and _u(s.value) == "COLOR_CODES if colorize else {key: '' for key in COLOR_CODES}":
                continue
            if isinstance(s.value, ast.Dict) and not s.value.keys:
                acc = t
                continue
        raise Untranslatable("clean_record prologue: %s" % _u(s)[:50])
    if acc is None or len(post) != 1 or not isinstance(post[0], ast.Return) or _u(post[0].value) != acc:
        raise Untranslatable("clean_record epilogue")
    if _u(loop.target) != "(key, value)" or _u(loop.iter) != "dirty_record.items()" or loop.orelse:
        raise Untranslatable("clean_record loop header")
    lb = _nodoc(loop.body)
    last = lb[-1]
    if not (isinstance(last, ast.Assign) and len(last.targets) == 1 and isinstance(last.targets[0], ast.Subscript)
            and _u(last.targets[0].value) == acc):
        raise Untranslatable("clean_record: the loop must end by storing the member")
    for s in lb[:-1]:
        for x in ast.walk(s):
            if isinstance(x, ast.Name) and x.id == acc:
                raise Untranslatable("clean_record: result used inside the loop")
    stored = ast.Return(value=ast.Tuple(elts=[last.targets[0].slice, last.value], ctx=ast.Load()))
    stmts = lb[:-1] + [stored]

    from .c20 import key_test
    try:
        table = key_test(lf)[0]  # the module-level name the key test uses (its value is evaluated in c20.py)
    except KeyError as e:
        raise Untranslatable("key test: %s" % e)

    def hook(n, go):
        r = _base_hook(n, go)
        if r is not None:
            return r
        u = _u(n)
        # TABLE.<method>(key): one compiled expression (what it matches is extracted in c20.py, `keyPatterns`)
        if isinstance(n, ast.Call) and isinstance(n.func, ast.Attribute) and n.func.attr in ("search", "match", "fullmatch") \
                and isinstance(n.func.value, ast.Name) and n.func.value.id == table and len(n.args) == 1 and not n.keywords:
            return "(sens %s)" % go(n.args[0])
        # any(regex.<method>(key) for regex in COMPILED_KEYS_TO_SANITIZE): the key test (method extracted in c20.py)
        if isinstance(n, ast.Call) and isinstance(n.func, ast.Name) and n.func.id == "any" and len(n.args) == 1 \
                and isinstance(n.args[0], ast.GeneratorExp):
            g = n.args[0]
            if len(g.generators) == 1 and _u(g.generators[0].iter) == table and not g.generators[0].ifs \
                    and isinstance(g.elt, ast.Call) and isinstance(g.elt.func, ast.Attribute) \
                    and _u(g.elt.func.value) == _u(g.generators[0].target) and g.elt.func.attr in ("search", "match", "fullmatch") \
                    and len(g.elt.args) == 1 and not g.elt.keywords:
                return "(sens %s)" % go(g.elt.args[0])
            raise Untranslatable("key test %s" % u)
        if u == "isinstance(value, dict)":
            return "(isDict value)"
        if isinstance(n, ast.Subscript) and _u(n.value) == "colors" and _str_const(n.slice):
            return "(colors %s)" % chars(n.slice.value)
        if isinstance(n, ast.Call) and _u(n.func) == "self.hash_it" and len(n.args) == 1 and not n.keywords \
                and isinstance(n.args[0], ast.Call) and _u(n.args[0].func) == "str" and len(n.args[0].args) == 1:
            return "(digest %s)" % go(n.args[0].args[0])
        if isinstance(n, ast.Call) and _u(n.func) == "self.clean_record" and len(n.args) == 2 and not n.keywords \
                and _u(n.args[1]) == "colorize":
            return "(recurse %s)" % go(n.args[0])
        if isinstance(n, ast.Call) and _u(n.func) == "QUOTES_OR_BACKTICKS_RE.sub" and len(n.args) == 2 and not n.keywords \
                and _u(n.args[0]) == "color_value" and isinstance(n.args[1], ast.Call) and _u(n.args[1].func) == "str" \
                and len(n.args[1].args) == 1:
            return "(render %s)" % go(n.args[1].args[0])
        return None

    ex = pystmt.Expr(hook=hook)
    ex.bound |= {"key", "value"}
    term = pystmt.Stmts(ex).block(stmts, "(([] : Str), ([] : Str))", 1)
    return ("/-- one turn of the loop of `clean_record`: the member stored for `(key, value)` -/\n"
            "def clean_member (sens : Str → Bool) (isDict : Json → Bool) (digest recurse render : Json → Str) (colors : Str → Str)\n"
            "    (key : Str) (value : Json) : Str × Str :=\n  %s\n" % term)


# --------------------------------------------------------------------------- format


def _url_consts(lf):
    fn = lf.func("format", "LogFormatter")
    for n in ast.walk(fn):
        if isinstance(n, ast.Call) and _u(n.func) == "re.sub" and len(n.args) == 3:
            return _u(n.args[0]), _u(n.args[1])
    raise Untranslatable("re.sub in format")


def t_format(lf):
    """`LogFormatter.format(record)` WHOLE: the inner formatter's call (`origFormat record`, the line) and everything
    after it.  The record itself stays in scope (`record.msg` = the message *template*, `LogRec.msg`), so a guard or
    a stage that reads the template / the arguments instead of the formatted line is translated as such and
    `generated_format_eq_model` fails on it."""
    fn = lf.func("format", "LogFormatter")
    if [a.arg for a in fn.args.args] != ["self", "record"]:
        raise Untranslatable("format signature")
    body = _nodoc(fn.body)
    if not body or not isinstance(body[0], ast.Try):
        raise Untranslatable("format: try expected")
    t = body[0]
    if [_u(s) for s in t.body] != ["msg = self.orig_formatter.format(record)"] or len(t.handlers) != 1 \
            or [_u(s) for s in t.handlers[0].body] != ["msg = record"] or t.orelse or t.finalbody:
        raise Untranslatable("format: shape of the try")
    pat, rep = _url_consts(lf)

    def template(n):
        """record.msg | str(record.msg) | getattr(record, "msg"[, default]) | str(getattr(...)): the template as text"""
        if isinstance(n, ast.Call) and _u(n.func) == "str" and len(n.args) == 1 and not n.keywords:
            return template(n.args[0])
        if isinstance(n, ast.Attribute) and _u(n.value) == "record" and n.attr == "msg":
            return True
        if isinstance(n, ast.Call) and _u(n.func) == "getattr" and 2 <= len(n.args) <= 3 and not n.keywords \
                and _u(n.args[0]) == "record" and _str_const(n.args[1]) and n.args[1].value == "msg":
            return True
        return False

    def hook(n, go):
        if template(n):
            return "(LogRec.msg record)"
        if isinstance(n, ast.Compare) and len(n.ops) == 1 and isinstance(n.ops[0], ast.In) and _str_const(n.left):
            return "(isInfix %s %s = true)" % (chars(n.left.value), go(n.comparators[0]))
        r = _base_hook(n, go)
        if r is not None:
            return r
        if isinstance(n, ast.Call) and _u(n.func) == "self.sanitize_record" and len(n.args) == 1 and not n.keywords:
            return "(sanitize %s)" % go(n.args[0])
        if isinstance(n, ast.Call) and _u(n.func) == "re.sub" and len(n.args) == 3 and not n.keywords \
                and _u(n.args[0]) == pat and _u(n.args[1]) == rep:
            return "(urlSub %s)" % go(n.args[2])
        if isinstance(n, (ast.Attribute, ast.Call)) and any(isinstance(x, ast.Name) and x.id == "record" for x in ast.walk(n)):
            raise Untranslatable("format reads %s of the record" % _u(n)[:40])
        return None

    ex = pystmt.Expr(hook=hook)
    ex.bound |= {"msg", "record"}
    term = pystmt.Stmts(ex).block(body[1:], "msg", 1)
    return ("/-- `LogFormatter.format(record)`: `origFormat` is the inner formatter (`self.orig_formatter.format`), `record.msg` the\n"
            "message *template* (`LogRec.msg`); `urlSub` is the `re.sub` of the URL rule -/\n"
            "def format (origFormat : LogRec → Str) (sanitize urlSub : Str → Str) (record : LogRec) : Str :=\n"
            "  let msg := (origFormat record)\n  %s\n" % term)


# --------------------------------------------------------------------------- sanitize_record, after the loop


def _call(name, *args):
    return ast.Call(func=ast.Name(id=name, ctx=ast.Load()), args=list(args), keywords=[])


def t_sanitize_tail(lf):
    fn = lf.func("sanitize_record", "LogFormatter")
    if [a.arg for a in fn.args.args] != ["self", "record"]:
        raise Untranslatable("sanitize_record signature")
    body = _nodoc(fn.body)
    loops = [i for i, s in enumerate(body) if isinstance(s, ast.For)]
    if len(loops) != 1:
        raise Untranslatable("sanitize_record: one loop expected")
    pre, post = body[:loops[0]], body[loops[0] + 1:]
    if [_u(s) for s in pre] != ["parts = record.split('|')", "dirty_record = None"]:
        raise Untranslatable("sanitize_record prologue")
    # `x = parts.pop()` -> `x = LAST(parts)`; `parts = DROPLAST(parts)`
    def rewrite(stmts):
        out = []
        for s in stmts:
            if isinstance(s, ast.Assign) and len(s.targets) == 1 and isinstance(s.targets[0], ast.Name) \
                    and isinstance(s.value, ast.Call) and _u(s.value.func) == "parts.pop" and not s.value.args:
                out.append(ast.Assign(targets=[s.targets[0]], value=_call("LAST", ast.Name(id="parts", ctx=ast.Load())), lineno=0))
                out.append(ast.Assign(targets=[ast.Name(id="parts", ctx=ast.Store())], value=_call("DROPLAST", ast.Name(id="parts", ctx=ast.Load())), lineno=0))
            elif isinstance(s, ast.If):
                out.append(ast.If(test=s.test, body=rewrite(s.body), orelse=rewrite(s.orelse)))
            else:
                out.append(s)
        return out

    quote_subs = []

    def hook(n, go):
        u = _u(n)
        if u == "dirty_record is not None":
            return "(dirty_record ≠ none)"
        if isinstance(n, ast.Call) and _u(n.func) == "re.sub" and len(n.args) == 3 and not n.keywords \
                and _str_const(n.args[0]) and _str_const(n.args[1]):
            # q([^q]*)q  ->  q' YELLOW \1 OFF q'
            p, r = n.args[0].value, n.args[1].value
            if len(p) == 9 and p[0] == p[8] == p[4] and p[1:4] == "([^" and p[5:8] == "]*)" and not p[0].isalnum() \
                    and len(r) >= 2 and r[0] == r[-1] and r[1:-1] in ("\x01YELLOWm\\1\x01OFFm", "\\001YELLOWm\\1\\001OFFm"):
                quote_subs.append((p[0], r[0]))
                a = n.args[2]
                # f"{x}" of a text is the text
                if isinstance(a, ast.JoinedStr) and len(a.values) == 1 and isinstance(a.values[0], ast.FormattedValue):
                    a = a.values[0].value
                return "(pairSub %s %s %s)" % ("(Char.ofNat %d)" % ord(p[0]), "(Char.ofNat %d)" % ord(r[0]), go(a))
            raise Untranslatable("re.sub %s" % u[:60])
        r = _base_hook(n, go)
        if r is not None:
            return r
        if isinstance(n, ast.Call) and _u(n.func) == "self.clean_record" and [_u(a) for a in n.args] == ["dirty_record"] and not n.keywords:
            return "(clean dirty_record)"
        if isinstance(n, ast.Call) and _u(n.func) == "json.dumps" and len(n.args) == 1 and not n.keywords:
            return "(dumps %s)" % go(n.args[0])
        if isinstance(n, ast.Call) and _u(n.func) == "self.color_code" and len(n.args) == 1 and not n.keywords:
            return "(colorCode %s)" % go(n.args[0])
        if isinstance(n, ast.Call) and isinstance(n.func, ast.Attribute) and n.func.attr == "split" and len(n.args) == 1 \
                and _str_const(n.args[0]) and n.args[0].value == "|" and not n.keywords:
            return "(splitOn '|' %s)" % go(n.func.value)
        if isinstance(n, ast.Call) and isinstance(n.func, ast.Attribute) and n.func.attr == "join" and _str_const(n.func.value) \
                and n.func.value.value == "|" and len(n.args) == 1:
            return "(joinWith '|' %s)" % go(n.args[0])
        if isinstance(n, ast.Call) and isinstance(n.func, ast.Attribute) and n.func.attr == "strip" and not n.args and not n.keywords:
            return "(strip %s)" % go(n.func.value)
        if isinstance(n, ast.Call) and isinstance(n.func, ast.Name) and n.func.id == "LAST":
            return "((%s).getLast?.getD [])" % go(n.args[0])
        if isinstance(n, ast.Call) and isinstance(n.func, ast.Name) and n.func.id == "DROPLAST":
            return "(%s).dropLast" % go(n.args[0])
        if isinstance(n, ast.Call) and _u(n.func) == "colorizer" and len(n.args) == 2 and _u(n.args[1]) == "self._can_colorize()":
            return "(colorizer %s)" % go(n.args[0])
        return None

    ex = pystmt.Expr(hook=hook, listy={"parts"})
    ex.bound |= {"parts", "dirty_record", "record"}
    term = pystmt.Stmts(ex, ret=lambda v, ex: ex.go(v)).block(rewrite(post), "record", 1)
    return ("/-- `sanitize_record` after the isolation loop: `parts` are the header fields (JSON message found, `dirty_record`)\n"
            "or all fields (`dirty_record = none`) -/\n"
            "def sanitize_tail (clean : Option (List (Str × Json)) → List (Str × Str)) (dumps : List (Str × Str) → Str) (colorCode colorizer strip : Str → Str)\n"
            "    (pairSub : Char → Char → Str → Str) (record : Str) (parts : List Str) (dirty_record : Option (List (Str × Json))) : Str :=\n  %s\n" % term)


# --------------------------------------------------------------------------- write_event


def t_write_event(gl, lf):
    fn = gl.func("write_event", "GoogleLogger")
    body = _nodoc(fn.body)
    tops = [s for s in body if isinstance(s, ast.If) and _u(s.test) == "isinstance(message, dict)"]
    if len(tops) != 1 or body[-1] is not tops[0]:
        raise Untranslatable("write_event: the message branch must come last")
    top = tops[0]
    for s in body[:-1]:
        for x in ast.walk(s):
            if isinstance(x, ast.Name) and x.id == "message" and isinstance(x.ctx, ast.Store):
                raise Untranslatable("write_event: message reassigned before the branch")
    dict_body = list(top.body)
    if not dict_body or _u(dict_body[0]) != "formatter = LogFormatter(None)":
        raise Untranslatable("write_event: formatter")
    dict_body = dict_body[1:]
    pat, rep_f = _url_consts(lf)
    gpat = []

    def hook(n, go):
        u = _u(n)
        if u == "isinstance(message, str)":
            return "True"
        if isinstance(n, ast.Compare) and len(n.ops) == 1 and isinstance(n.ops[0], ast.In) and _str_const(n.left):
            return "(isInfix %s %s = true)" % (chars(n.left.value), go(n.comparators[0]))
        if isinstance(n, ast.BinOp) and isinstance(n.op, ast.Add) and isinstance(n.left, ast.Call) and _u(n.left.func) == "str" \
                and _str_const(n.right):
            return "(pyReprDict %s ++ %s)" % (go(n.left.args[0]), chars(n.right.value))
        r = _base_hook(n, go)
        if r is not None:
            return r
        if isinstance(n, ast.Call) and _u(n.func) == "formatter.clean_record" and len(n.args) == 2 and not n.keywords \
                and _u(n.args[1]) == "False":
            return "(clean %s)" % go(n.args[0])
        if isinstance(n, ast.Call) and _u(n.func) == "log_it" and len(n.args) == 1:
            return "(logIt %s)" % go(n.args[0])
        if isinstance(n, ast.Call) and _u(n.func) == "re.sub" and len(n.args) == 3 and not n.keywords and _str_const(n.args[0]) \
                and _str_const(n.args[1]):
            gpat.append((n.args[0].value, n.args[1].value))
            if _u(n.args[0]) != pat:
                raise Untranslatable("write_event: another URL expression than format()")
            return "(urlSub %s)" % go(n.args[2])
        return None

    def rewrite(stmts, text):
        """`structured_log[k] = v` and `structured_log.update(m)` as assignments of pure calls"""
        out = []
        for s in stmts:
            if isinstance(s, ast.Assign) and len(s.targets) == 1 and isinstance(s.targets[0], ast.Subscript) \
                    and _u(s.targets[0].value) == "structured_log":
                v = s.value
                out.append(ast.Assign(targets=[ast.Name(id="structured_log", ctx=ast.Store())],
                                      value=_call("SETTEXT", ast.Name(id="structured_log", ctx=ast.Load()), s.targets[0].slice, v), lineno=0))
            elif isinstance(s, ast.Expr) and isinstance(s.value, ast.Call) and _u(s.value.func) == "structured_log.update" and len(s.value.args) == 1:
                out.append(ast.Assign(targets=[ast.Name(id="structured_log", ctx=ast.Store())],
                                      value=_call("UPDATE", ast.Name(id="structured_log", ctx=ast.Load()), s.value.args[0]), lineno=0))
            elif isinstance(s, ast.If):
                out.append(ast.If(test=s.test, body=rewrite(s.body, text), orelse=rewrite(s.orelse, text)))
            else:
                out.append(s)
        return out

    def hook2(n, go):
        if isinstance(n, ast.Call) and isinstance(n.func, ast.Name) and n.func.id == "SETTEXT":
            return "(dictSet %s %s (GVal.text %s))" % (go(n.args[0]), go(n.args[1]), go(n.args[2]))
        if isinstance(n, ast.Call) and isinstance(n.func, ast.Name) and n.func.id == "UPDATE":
            return "(dictUpdate %s ((%s).map fun kv => (kv.1, GVal.text kv.2)))" % (go(n.args[0]), go(n.args[1]))
        return hook(n, go)

    ex = pystmt.Expr(hook=hook2)
    ex.bound |= {"message", "structured_log"}
    d = pystmt.Stmts(ex, ret=lambda v, ex: ex.go(v)).block(rewrite(dict_body, False), "([] : Str)", 1)
    ex2 = pystmt.Expr(hook=hook2)
    ex2.bound |= {"message", "structured_log"}
    t = pystmt.Stmts(ex2, ret=lambda v, ex: ex.go(v)).block(rewrite(list(top.orelse), True), "([] : Str)", 1)
    sig = "(logIt : List (Str × GVal) → Str) (structured_log : List (Str × GVal))"
    return ("/-- `write_event`, dict message: clean, store `str(message) + \" *\"`, merge the cleaned members, print -/\n"
            "def write_event_dict (clean : List (Str × Json) → List (Str × Str)) %s (message : List (Str × Json)) : Str :=\n  %s\n\n"
            "/-- `write_event`, text message: the URL rule, store, print -/\n"
            "def write_event_text (urlSub : Str → Str) %s (message : Str) : Str :=\n  %s\n" % (sig, d, sig, t))


# --------------------------------------------------------------------------- add_level.log_for_level


def t_log_for_level(al):
    """`log_for_level(self, message, *args, **kwargs)` of add_logging_level: from the call to what reaches `_log`.
    `try: x = F(...) except: H` is `match F? with | some v => x := v | none => H` (F a partial parameter); the
    duplicate-warning bookkeeping (`logging_seen_warnings[...]`, `atexit.register`) has no part in the value."""
    outer = al.func("add_logging_level")
    fns = [n for n in ast.walk(outer) if isinstance(n, ast.FunctionDef) and n.name == "log_for_level"]
    if len(fns) != 1:
        raise Untranslatable("log_for_level")
    fn = fns[0]
    if [a.arg for a in fn.args.args] != ["self", "message"] or fn.args.vararg is None or fn.args.vararg.arg != "args" \
            or fn.args.kwarg is None or fn.args.kwarg.arg != "kwargs":
        raise Untranslatable("log_for_level signature")
    body = _nodoc(fn.body)
    partial = {"orjson.dumps(message)": "(orjsonDumps message)", "json.dumps(message, default=str)": "(jsonDumps message)"}

    def hook(n, go):
        u = _u(n)
        if u == "isinstance(message, dict)":
            return "(Msg.isDict message = true)"
        if u == "isinstance(message, bytes)":
            return "(Msg.isBytes message = true)"
        if u == "str(message)":
            return "(pyStr message)"
        if u == "message.decode()":
            return "(Msg.decode message)"
        if u == "self.isEnabledFor(level_num)":
            return "(enabled = true)"
        if u == "level_num == 30":
            return "(isWarning = true)"
        if u == "hash(message)":
            return "message"  # the table is keyed by the message (through its hash)
        if u == "hashed in logging_seen_warnings":
            return "(seen hashed = true)"
        # the vocabulary of a cap / cut / decoration of the text (see Model/SanitiseEvent.lean, `Msg.len` ...)
        if u == "isinstance(message, str)":
            return "(Msg.isText message = true)"
        if u == "len(message)":
            return "((Msg.len message : Nat) : Int)"
        if isinstance(n, ast.Name) and n.id not in ex.bound:
            try:
                v = consts.ev(n)
            except KeyError:
                v = None
            if isinstance(v, int) and not isinstance(v, bool):
                return "(%d : Int)" % v
        if isinstance(n, ast.Constant) and isinstance(n.value, int) and not isinstance(n.value, bool):
            return "(%d : Int)" % n.value
        if isinstance(n, ast.Subscript) and _u(n.value) == "message" and isinstance(n.slice, ast.Slice) and n.slice.step is None \
                and (n.slice.lower is None) != (n.slice.upper is None):
            if n.slice.lower is None:
                return "(Msg.take (%s).toNat message)" % go(n.slice.upper)
            return "(Msg.drop (%s).toNat message)" % go(n.slice.lower)
        if isinstance(n, ast.JoinedStr) or (isinstance(n, ast.BinOp) and isinstance(n.op, ast.Add) and (msgish(n.left) or msgish(n.right))):
            parts = []

            def flat(x):
                if isinstance(x, ast.BinOp) and isinstance(x.op, ast.Add):
                    flat(x.left), flat(x.right)
                elif isinstance(x, ast.JoinedStr):
                    for v in x.values:
                        if isinstance(v, ast.FormattedValue):
                            if v.conversion != -1 or v.format_spec is not None:
                                raise Untranslatable("f-string field %s" % _u(v))
                            flat(v.value)
                        else:
                            flat(v)
                elif _str_const(x):
                    parts.append("Msg.text %s" % chars(x.value))
                elif msgish(x):
                    parts.append(go(x))
                else:
                    parts.append("Msg.text (toString %s).toList" % go(x))  # an integer written in decimal
            flat(n)
            return "(Msg.cat [%s])" % ", ".join(parts)
        return None

    def msgish(x):
        return _u(x) == "message" or (isinstance(x, ast.Subscript) and _u(x.value) == "message") or _u(x) in ("str(message)", "message.decode()")

    from .c20 import Static
    consts = Static(al)

    def stmt_hook(s, rest, k, depth, st):
        pad = st.ind * depth
        if isinstance(s, ast.Try):
            if len(s.body) != 1 or s.orelse or s.finalbody or len(s.handlers) != 1 or s.handlers[0].name is not None:
                raise Untranslatable("try shape")
            h = s.handlers[0]
            if h.type is not None and _u(h.type) not in ("Exception", "BaseException"):
                raise Untranslatable("except %s" % _u(h.type))
            a = s.body[0]
            if not (isinstance(a, ast.Assign) and len(a.targets) == 1 and isinstance(a.targets[0], ast.Name) and _u(a.value) in partial):
                raise Untranslatable("try body %s" % _u(a)[:50])
            name = a.targets[0].id
            saved = st.ex.typestate()
            st.ex.bound.add("v_try")
            try:
                ok = st.block([ast.Assign(targets=[ast.Name(id=name, ctx=ast.Store())], value=ast.Name(id="v_try", ctx=ast.Load()), lineno=0)] + rest, k, depth + 1)
            finally:
                st.ex.restore(saved)
            bad = st.block(list(h.body) + rest, k, depth + 1)
            return "match %s with\n%s| some v_try =>\n%s%s%s\n%s| none =>\n%s%s%s" % (
                partial[_u(a.value)], pad, pad, st.ind, ok, pad, pad, st.ind, bad)
        # bookkeeping of the duplicate-warning table: state that never reaches the record
        if isinstance(s, (ast.Assign, ast.AugAssign)):
            t = s.targets[0] if isinstance(s, ast.Assign) else s.target
            if isinstance(t, ast.Subscript) and _u(t.value) == "logging_seen_warnings" and _u(t.slice) == "hashed":
                return st.block(rest, k, depth)
        if isinstance(s, ast.Expr) and isinstance(s.value, ast.Call) and _u(s.value.func) == "atexit.register":
            return st.block(rest, k, depth)
        if isinstance(s, ast.Expr) and isinstance(s.value, ast.Call) and _u(s.value.func) == "self._log":
            c = s.value
            if [_u(x) for x in c.args[:1]] != ["level_num"] or len(c.args) != 3 or _u(c.args[2]) != "args" \
                    or [(kw.arg, _u(kw.value)) for kw in c.keywords] != [(None, "kwargs")]:
                raise Untranslatable("_log call %s" % _u(c)[:60])
            if rest:
                raise Untranslatable("statements after _log")
            return "some %s" % st.ex.go(c.args[1])
        return None

    ex = pystmt.Expr(hook=hook)
    ex.bound |= {"message"}
    term = pystmt.Stmts(ex, ret=lambda v, ex: "none" if v is None else "some %s" % ex.go(v), stmt_hook=stmt_hook).block(body, "none", 1)
    return ("/-- `log_for_level` (add_level.py): what reaches `Logger._log` for the caller's `message` -/\n"
            "def log_for_level (orjsonDumps jsonDumps : Msg → Option Msg) (pyStr : Msg → Msg) (enabled isWarning : Bool) (seen : Msg → Bool)\n"
            "    (message : Msg) : Option Msg :=\n  %s\n" % term)


# --------------------------------------------------------------------------- GoogleLogger: the entry points


def t_google_entry(gl):
    """What `GoogleLogger()` (get_logger() under K_SERVICE) puts between the caller and `write_event`:
    `create_logger(level)` returns `base_logger` iff `level > self.level`, else a function that does nothing;
    `base_logger(message)` calls `write_event(message=message, system=LOG_NAME, severity=level)`;
    `__call__(message)` is `self.debug(message)`.  The *argument expressions* are translated: a call site that
    hands over `str(message)`, a prefix, or bypasses `write_event` no longer gives `w message`."""
    cls = None
    for n in (gl.tree.body if gl.tree is not None else []):
        if isinstance(n, ast.ClassDef) and n.name == "GoogleLogger":
            cls = n
    if cls is None:
        raise Untranslatable("GoogleLogger")
    cr = [n for n in cls.body if isinstance(n, ast.FunctionDef) and n.name == "create_logger"]
    ca = [n for n in cls.body if isinstance(n, ast.FunctionDef) and n.name == "__call__"]
    if len(cr) != 1 or len(ca) != 1 or [a.arg for a in cr[0].args.args] != ["self", "level"] or [a.arg for a in ca[0].args.args] != ["self", "message"]:
        raise Untranslatable("create_logger / __call__ signature")
    body = [b for b in _nodoc(cr[0].body) if not isinstance(b, (ast.Import, ast.ImportFrom))]
    inner = {b.name: b for b in body if isinstance(b, ast.FunctionDef)}
    rest = [b for b in body if not isinstance(b, ast.FunctionDef)]
    if set(inner) != {"base_logger", "do_nothing"} or len(rest) != 1 or not isinstance(rest[0], ast.If):
        raise Untranslatable("create_logger body")
    for f in inner.values():
        if [a.arg for a in f.args.args] != ["message"]:
            raise Untranslatable("inner signature")
    if [_u(b) for b in _nodoc(inner["do_nothing"].body)] not in (["pass"], ["return"], ["return None"]):
        raise Untranslatable("do_nothing does something")

    def arg(n):
        if isinstance(n, ast.Name) and n.id == "message":
            return "message"
        if _u(n) == "str(message)":
            return "(pyStr message)"
        if isinstance(n, ast.BinOp) and isinstance(n.op, ast.Add):
            return "(Msg.cat [%s, %s])" % (arg(n.left), arg(n.right))
        if _str_const(n):
            return "(Msg.text %s)" % chars(n.value)
        raise Untranslatable("message argument %s" % _u(n)[:40])

    bl = _nodoc(inner["base_logger"].body)
    if len(bl) != 1 or not isinstance(bl[0], ast.Return) or not isinstance(bl[0].value, ast.Call):
        raise Untranslatable("base_logger body")
    c = bl[0].value
    if _u(c.func) != "GoogleLogger.write_event":
        raise Untranslatable("base_logger does not call write_event")
    kw = {k.arg: k.value for k in c.keywords}
    pos = list(c.args)
    msg = kw.pop("message", None) if not pos else pos.pop(0)
    if msg is None or pos or {k: _u(v) for k, v in kw.items()} != {"system": "LOG_NAME", "severity": "level"}:
        raise Untranslatable("write_event arguments %s" % _u(c)[:60])
    base = arg(msg)
    # which of the two is returned
    t = rest[0]
    if [_u(b) for b in t.body] == ["return base_logger"] and [_u(b) for b in t.orelse] == ["return do_nothing"]:
        neg = False
    elif [_u(b) for b in t.body] == ["return do_nothing"] and [_u(b) for b in t.orelse] == ["return base_logger"]:
        neg = True
    else:
        raise Untranslatable("create_logger branches")
    ex = pystmt.Expr(env={"self.level": "selfLevel"})
    ex.bound |= {"level"}
    test = ex.go(t.test)
    cb = _nodoc(ca[0].body)
    if len(cb) != 1 or not isinstance(cb[0], (ast.Expr, ast.Return)) or not isinstance(cb[0].value, ast.Call) \
            or _u(cb[0].value.func) != "self.debug" or len(cb[0].value.args) != 1 or cb[0].value.keywords:
        raise Untranslatable("__call__ body")
    call = arg(cb[0].value.args[0])
    return ("/-- `base_logger(message)` of `GoogleLogger.create_logger`: the message `write_event` is called with -/\n"
            "def base_logger {α : Type} (writeEvent : Msg → α) (pyStr : Msg → Msg) (message : Msg) : α :=\n  writeEvent %s\n\n"
            "/-- `create_logger(level)` returns `base_logger` (true) or `do_nothing` (false) -/\n"
            "def logs_at (level selfLevel : Int) : Bool :=\n  %sdecide %s\n\n"
            "/-- `GoogleLogger.__call__(message)`: the message `self.debug` is called with -/\n"
            "def call_logger {α : Type} (debug : Msg → α) (pyStr : Msg → Msg) (message : Msg) : α :=\n  debug %s\n"
            % (base, "!" if neg else "", test, call))


def _pinned():
    try:
        return json.load(open(PINNED_FILE))
    except OSError:
        return {}


def generate(o):
    lf = Src("orso/logging/log_formatter.py")
    gl = Src("orso/logging/google_cloud_logger.py")
    pinned = _pinned()
    al = Src("orso/logging/add_level.py")
    table = (("clean_member", lambda: t_clean_member(lf)), ("format", lambda: t_format(lf)),
             ("sanitize_tail", lambda: t_sanitize_tail(lf)), ("write_event", lambda: t_write_event(gl, lf)),
             ("log_for_level", lambda: t_log_for_level(al)), ("google_entry", lambda: t_google_entry(gl)))
    fresh = {}
    for key, fn in table:
        fresh[key] = o.item("c20.fn." + key, fn, pinned.get(key, "-- %s: not translated\n" % key))
    if os.environ.get("ORSO_VERIF_WRITE_PINNED") == "c20_fns":
        os.makedirs(os.path.dirname(PINNED_FILE), exist_ok=True)
        json.dump(fresh, open(PINNED_FILE, "w"), indent=1, sort_keys=True)
    header = HEADER + "import OrsoVerif.Model.Sanitise\nimport OrsoVerif.Model.SanitiseEvent\n"
    header += "/-! Functions of orso/logging translated statement by statement (harness/pystmt.py, harness/extractors/c20_fns.py). -/\n"
    header += "set_option linter.unusedVariables false\nopen _root_.Sanitise\nnamespace Gen.SanitiseFns\n\n"
    text, bad = pystmt.compile_checked(header, [(k, fresh[k]) for k, _ in table], "\nend Gen.SanitiseFns\n", pinned, core.LEAN, "SanitiseFns")
    for k in bad:
        o.degraded.append("c20.fn.%s (the translation does not elaborate in Lean; pinned text used)" % k)
    o.files["SanitiseFns.lean"] = text
