"""C20: the statement-level part of the log sanitiser, translated from the working tree on every run
(harness/pystmt.py) into `Generated/SanitiseFns.lean`, namespace `Gen.SanitiseFns`:

* `clean_member`      -- the body of the loop of `LogFormatter.clean_record` (one member of the record):
                         the if / elif / else chain *in source order* (is the key sensitive?  is the value a
                         dict?), the three f-strings (placeholder, decorated key, decorated value);
* `format`            -- `LogFormatter.format` after the inner formatter ran: sanitise, then the URL rule
                         over the whole record, in source order;
* `sanitize_tail`     -- `sanitize_record` after the isolation loop: the JSON branch and the plain-text
                         branch (colour exchange, last field, the three quote substitutions in source order,
                         strip, marker), the join and the colouriser;
* `write_event_dict`, `write_event_text` -- the two branches of `GoogleLogger.write_event` after the
                         structured log was built.

`Props/C20.lean` proves each of them equal to the hand-written model (`generated_*_eq_model`), so the
order of the tests / stages is an *extracted* item every C20 theorem depends on.  What the translator
does not recognise (a new statement, another argument, a fast path) degrades to the pinned translation
(`pinned/c20_fns.json`, the translation of the tree as repaired) and is left to the correspondence.
"""
import ast
import json
import os

from .. import core, pystmt
from ..extract import HEADER, Src
from ..pyexpr import Untranslatable

PINNED_FILE = os.path.join(os.path.dirname(os.path.abspath(__file__)), "pinned", "c20_fns.json")


def chars(t):
    out = []
    for ch in t:
        if 32 <= ord(ch) < 127 and ch not in "'\\":
            out.append("'%s'" % ch)
        else:
            out.append("Char.ofNat %d" % ord(ch))
    return "[" + ", ".join(out) + "]"


def _nodoc(body):
    return [b for b in body if not (isinstance(b, ast.Expr) and isinstance(b.value, ast.Constant))]


def _u(n):
    return ast.unparse(n)


def _joined(n, go):
    """f-string -> concatenation of texts; only plain `{expr}` fields"""
    parts = []
    for v in n.values:
        if isinstance(v, ast.Constant) and isinstance(v.value, str):
            parts.append(chars(v.value))
        elif isinstance(v, ast.FormattedValue) and v.conversion == -1 and v.format_spec is None:
            parts.append(go(v.value))
        else:
            raise Untranslatable("f-string field %s" % _u(v))
    if not parts:
        return "([] : Str)"
    return "(" + " ++ ".join(parts) + ")"


def _str_const(n):
    return isinstance(n, ast.Constant) and isinstance(n.value, str)


def _base_hook(n, go):
    if _str_const(n):
        return "(%s : Str)" % chars(n.value)
    if isinstance(n, ast.JoinedStr):
        return _joined(n, go)
    # text concatenation
    if isinstance(n, ast.BinOp) and isinstance(n.op, ast.Add):
        return "(%s ++ %s)" % (go(n.left), go(n.right))
    return None


# --------------------------------------------------------------------------- clean_record


def t_clean_member(lf):
    fn = lf.func("clean_record", "LogFormatter")
    if [a.arg for a in fn.args.args] != ["self", "dirty_record", "colorize"]:
        raise Untranslatable("clean_record signature")
    body = _nodoc(fn.body)
    loops = [i for i, s in enumerate(body) if isinstance(s, ast.For)]
    if len(loops) != 1:
        raise Untranslatable("clean_record: one loop expected")
    pre, loop, post = body[:loops[0]], body[loops[0]], body[loops[0] + 1:]
    # prologue: the colour table, the quote-colouring callback, the empty result -- nothing else (no fast path)
    acc = None
    for s in pre:
        if isinstance(s, ast.FunctionDef) and s.name == "color_value":
            continue
        if isinstance(s, ast.Assign) and len(s.targets) == 1 and isinstance(s.targets[0], ast.Name):
            t = s.targets[0].id
            if t == "colors" and _u(s.value) == "COLOR_CODES if colorize else {key: '' for key in COLOR_CODES}":
                continue
            if isinstance(s.value, ast.Dict) and not s.value.keys:
                acc = t
                continue
        raise Untranslatable("clean_record prologue: %s" % _u(s)[:50])
    if acc is None or len(post) != 1 or not isinstance(post[0], ast.Return) or _u(post[0].value) != acc:
        raise Untranslatable("clean_record epilogue")
    if _u(loop.target) != "(key, value)" or _u(loop.iter) != "dirty_record.items()" or loop.orelse:
        raise Untranslatable("clean_record loop header")
    lb = _nodoc(loop.body)
    last = lb[-1]
    if not (isinstance(last, ast.Assign) and len(last.targets) == 1 and isinstance(last.targets[0], ast.Subscript)
            and _u(last.targets[0].value) == acc):
        raise Untranslatable("clean_record: the loop must end by storing the member")
    for s in lb[:-1]:
        for x in ast.walk(s):
            if isinstance(x, ast.Name) and x.id == acc:
                raise Untranslatable("clean_record: result used inside the loop")
    stored = ast.Return(value=ast.Tuple(elts=[last.targets[0].slice, last.value], ctx=ast.Load()))
    stmts = lb[:-1] + [stored]

    def hook(n, go):
        r = _base_hook(n, go)
        if r is not None:
            return r
        u = _u(n)
        # any(regex.<method>(key) for regex in COMPILED_KEYS_TO_SANITIZE): the key test (method extracted in c20.py)
        if isinstance(n, ast.Call) and isinstance(n.func, ast.Name) and n.func.id == "any" and len(n.args) == 1 \
                and isinstance(n.args[0], ast.GeneratorExp):
            g = n.args[0]
            if len(g.generators) == 1 and _u(g.generators[0].iter) == "COMPILED_KEYS_TO_SANITIZE" and not g.generators[0].ifs \
                    and isinstance(g.elt, ast.Call) and isinstance(g.elt.func, ast.Attribute) \
                    and _u(g.elt.func.value) == _u(g.generators[0].target) and g.elt.func.attr in ("search", "match", "fullmatch") \
                    and len(g.elt.args) == 1 and not g.elt.keywords:
                return "(sens %s)" % go(g.elt.args[0])
            raise Untranslatable("key test %s" % u)
        if u == "isinstance(value, dict)":
            return "(isDict value)"
        if isinstance(n, ast.Subscript) and _u(n.value) == "colors" and _str_const(n.slice):
            return "(colors %s)" % chars(n.slice.value)
        if isinstance(n, ast.Call) and _u(n.func) == "self.hash_it" and len(n.args) == 1 and not n.keywords \
                and isinstance(n.args[0], ast.Call) and _u(n.args[0].func) == "str" and len(n.args[0].args) == 1:
            return "(digest %s)" % go(n.args[0].args[0])
        if isinstance(n, ast.Call) and _u(n.func) == "self.clean_record" and len(n.args) == 2 and not n.keywords \
                and _u(n.args[1]) == "colorize":
            return "(recurse %s)" % go(n.args[0])
        if isinstance(n, ast.Call) and _u(n.func) == "QUOTES_OR_BACKTICKS_RE.sub" and len(n.args) == 2 and not n.keywords \
                and _u(n.args[0]) == "color_value" and isinstance(n.args[1], ast.Call) and _u(n.args[1].func) == "str" \
                and len(n.args[1].args) == 1:
            return "(render %s)" % go(n.args[1].args[0])
        return None

    ex = pystmt.Expr(hook=hook)
    ex.bound |= {"key", "value"}
    term = pystmt.Stmts(ex).block(stmts, "(([] : Str), ([] : Str))", 1)
    return ("/-- one turn of the loop of `clean_record`: the member stored for `(key, value)` -/\n"
            "def clean_member (sens : Str → Bool) (isDict : Json → Bool) (digest recurse render : Json → Str) (colors : Str → Str)\n"
            "    (key : Str) (value : Json) : Str × Str :=\n  %s\n" % term)


# --------------------------------------------------------------------------- format


def _url_consts(lf):
    fn = lf.func("format", "LogFormatter")
    for n in ast.walk(fn):
        if isinstance(n, ast.Call) and _u(n.func) == "re.sub" and len(n.args) == 3:
            return _u(n.args[0]), _u(n.args[1])
    raise Untranslatable("re.sub in format")


def t_format(lf):
    fn = lf.func("format", "LogFormatter")
    if [a.arg for a in fn.args.args] != ["self", "record"]:
        raise Untranslatable("format signature")
    body = _nodoc(fn.body)
    if not body or not isinstance(body[0], ast.Try):
        raise Untranslatable("format: try expected")
    t = body[0]
    if [_u(s) for s in t.body] != ["msg = self.orig_formatter.format(record)"] or len(t.handlers) != 1 \
            or [_u(s) for s in t.handlers[0].body] != ["msg = record"] or t.orelse or t.finalbody:
        raise Untranslatable("format: shape of the try")
    pat, rep = _url_consts(lf)

    def hook(n, go):
        if isinstance(n, ast.Compare) and len(n.ops) == 1 and isinstance(n.ops[0], ast.In) and _str_const(n.left):
            return "(isInfix %s %s = true)" % (chars(n.left.value), go(n.comparators[0]))
        r = _base_hook(n, go)
        if r is not None:
            return r
        if isinstance(n, ast.Call) and _u(n.func) == "self.sanitize_record" and len(n.args) == 1 and not n.keywords:
            return "(sanitize %s)" % go(n.args[0])
        if isinstance(n, ast.Call) and _u(n.func) == "re.sub" and len(n.args) == 3 and not n.keywords \
                and _u(n.args[0]) == pat and _u(n.args[1]) == rep:
            return "(urlSub %s)" % go(n.args[2])
        return None

    ex = pystmt.Expr(hook=hook)
    ex.bound.add("msg")
    term = pystmt.Stmts(ex).block(body[1:], "msg", 1)
    return ("/-- `LogFormatter.format` after the inner formatter produced `msg`; `urlSub` is the `re.sub` of the URL rule -/\n"
            "def format (sanitize urlSub : Str → Str) (msg : Str) : Str :=\n  %s\n" % term)


# --------------------------------------------------------------------------- sanitize_record, after the loop


def _call(name, *args):
    return ast.Call(func=ast.Name(id=name, ctx=ast.Load()), args=list(args), keywords=[])


def t_sanitize_tail(lf):
    fn = lf.func("sanitize_record", "LogFormatter")
    if [a.arg for a in fn.args.args] != ["self", "record"]:
        raise Untranslatable("sanitize_record signature")
    body = _nodoc(fn.body)
    loops = [i for i, s in enumerate(body) if isinstance(s, ast.For)]
    if len(loops) != 1:
        raise Untranslatable("sanitize_record: one loop expected")
    pre, post = body[:loops[0]], body[loops[0] + 1:]
    if [_u(s) for s in pre] != ["parts = record.split('|')", "dirty_record = None"]:
        raise Untranslatable("sanitize_record prologue")
    # `x = parts.pop()` -> `x = LAST(parts)`; `parts = DROPLAST(parts)`
    def rewrite(stmts):
        out = []
        for s in stmts:
            if isinstance(s, ast.Assign) and len(s.targets) == 1 and isinstance(s.targets[0], ast.Name) \
                    and isinstance(s.value, ast.Call) and _u(s.value.func) == "parts.pop" and not s.value.args:
                out.append(ast.Assign(targets=[s.targets[0]], value=_call("LAST", ast.Name(id="parts", ctx=ast.Load())), lineno=0))
                out.append(ast.Assign(targets=[ast.Name(id="parts", ctx=ast.Store())], value=_call("DROPLAST", ast.Name(id="parts", ctx=ast.Load())), lineno=0))
            elif isinstance(s, ast.If):
                out.append(ast.If(test=s.test, body=rewrite(s.body), orelse=rewrite(s.orelse)))
            else:
                out.append(s)
        return out

    quote_subs = []

    def hook(n, go):
        u = _u(n)
        if u == "dirty_record is not None":
            return "(dirty_record ≠ none)"
        if isinstance(n, ast.Call) and _u(n.func) == "re.sub" and len(n.args) == 3 and not n.keywords \
                and _str_const(n.args[0]) and _str_const(n.args[1]):
            # q([^q]*)q  ->  q' YELLOW \1 OFF q'
            p, r = n.args[0].value, n.args[1].value
            if len(p) == 9 and p[0] == p[8] == p[4] and p[1:4] == "([^" and p[5:8] == "]*)" and not p[0].isalnum() \
                    and len(r) >= 2 and r[0] == r[-1] and r[1:-1] in ("\x01YELLOWm\\1\x01OFFm", "\\001YELLOWm\\1\\001OFFm"):
                quote_subs.append((p[0], r[0]))
                a = n.args[2]
                # f"{x}" of a text is the text
                if isinstance(a, ast.JoinedStr) and len(a.values) == 1 and isinstance(a.values[0], ast.FormattedValue):
                    a = a.values[0].value
                return "(pairSub %s %s %s)" % ("(Char.ofNat %d)" % ord(p[0]), "(Char.ofNat %d)" % ord(r[0]), go(a))
            raise Untranslatable("re.sub %s" % u[:60])
        r = _base_hook(n, go)
        if r is not None:
            return r
        if isinstance(n, ast.Call) and _u(n.func) == "self.clean_record" and [_u(a) for a in n.args] == ["dirty_record"] and not n.keywords:
            return "(clean dirty_record)"
        if isinstance(n, ast.Call) and _u(n.func) == "json.dumps" and len(n.args) == 1 and not n.keywords:
            return "(dumps %s)" % go(n.args[0])
        if isinstance(n, ast.Call) and _u(n.func) == "self.color_code" and len(n.args) == 1 and not n.keywords:
            return "(colorCode %s)" % go(n.args[0])
        if isinstance(n, ast.Call) and isinstance(n.func, ast.Attribute) and n.func.attr == "split" and len(n.args) == 1 \
                and _str_const(n.args[0]) and n.args[0].value == "|" and not n.keywords:
            return "(splitOn '|' %s)" % go(n.func.value)
        if isinstance(n, ast.Call) and isinstance(n.func, ast.Attribute) and n.func.attr == "join" and _str_const(n.func.value) \
                and n.func.value.value == "|" and len(n.args) == 1:
            return "(joinWith '|' %s)" % go(n.args[0])
        if isinstance(n, ast.Call) and isinstance(n.func, ast.Attribute) and n.func.attr == "strip" and not n.args and not n.keywords:
            return "(strip %s)" % go(n.func.value)
        if isinstance(n, ast.Call) and isinstance(n.func, ast.Name) and n.func.id == "LAST":
            return "((%s).getLast?.getD [])" % go(n.args[0])
        if isinstance(n, ast.Call) and isinstance(n.func, ast.Name) and n.func.id == "DROPLAST":
            return "(%s).dropLast" % go(n.args[0])
        if isinstance(n, ast.Call) and _u(n.func) == "colorizer" and len(n.args) == 2 and _u(n.args[1]) == "self._can_colorize()":
            return "(colorizer %s)" % go(n.args[0])
        return None

    ex = pystmt.Expr(hook=hook, listy={"parts"})
    ex.bound |= {"parts", "dirty_record", "record"}
    term = pystmt.Stmts(ex, ret=lambda v, ex: ex.go(v)).block(rewrite(post), "record", 1)
    return ("/-- `sanitize_record` after the isolation loop: `parts` are the header fields (JSON message found, `dirty_record`)\n"
            "or all fields (`dirty_record = none`) -/\n"
            "def sanitize_tail (clean : Option (List (Str × Json)) → List (Str × Str)) (dumps : List (Str × Str) → Str) (colorCode colorizer strip : Str → Str)\n"
            "    (pairSub : Char → Char → Str → Str) (record : Str) (parts : List Str) (dirty_record : Option (List (Str × Json))) : Str :=\n  %s\n" % term)


# --------------------------------------------------------------------------- write_event


def t_write_event(gl, lf):
    fn = gl.func("write_event", "GoogleLogger")
    body = _nodoc(fn.body)
    tops = [s for s in body if isinstance(s, ast.If) and _u(s.test) == "isinstance(message, dict)"]
    if len(tops) != 1 or body[-1] is not tops[0]:
        raise Untranslatable("write_event: the message branch must come last")
    top = tops[0]
    for s in body[:-1]:
        for x in ast.walk(s):
            if isinstance(x, ast.Name) and x.id == "message" and isinstance(x.ctx, ast.Store):
                raise Untranslatable("write_event: message reassigned before the branch")
    dict_body = list(top.body)
    if not dict_body or _u(dict_body[0]) != "formatter = LogFormatter(None)":
        raise Untranslatable("write_event: formatter")
    dict_body = dict_body[1:]
    pat, rep_f = _url_consts(lf)
    gpat = []

    def hook(n, go):
        u = _u(n)
        if u == "isinstance(message, str)":
            return "True"
        if isinstance(n, ast.Compare) and len(n.ops) == 1 and isinstance(n.ops[0], ast.In) and _str_const(n.left):
            return "(isInfix %s %s = true)" % (chars(n.left.value), go(n.comparators[0]))
        if isinstance(n, ast.BinOp) and isinstance(n.op, ast.Add) and isinstance(n.left, ast.Call) and _u(n.left.func) == "str" \
                and _str_const(n.right):
            return "(pyReprDict %s ++ %s)" % (go(n.left.args[0]), chars(n.right.value))
        r = _base_hook(n, go)
        if r is not None:
            return r
        if isinstance(n, ast.Call) and _u(n.func) == "formatter.clean_record" and len(n.args) == 2 and not n.keywords \
                and _u(n.args[1]) == "False":
            return "(clean %s)" % go(n.args[0])
        if isinstance(n, ast.Call) and _u(n.func) == "log_it" and len(n.args) == 1:
            return "(logIt %s)" % go(n.args[0])
        if isinstance(n, ast.Call) and _u(n.func) == "re.sub" and len(n.args) == 3 and not n.keywords and _str_const(n.args[0]) \
                and _str_const(n.args[1]):
            gpat.append((n.args[0].value, n.args[1].value))
            if _u(n.args[0]) != pat:
                raise Untranslatable("write_event: another URL expression than format()")
            return "(urlSub %s)" % go(n.args[2])
        return None

    def rewrite(stmts, text):
        """`structured_log[k] = v` and `structured_log.update(m)` as assignments of pure calls"""
        out = []
        for s in stmts:
            if isinstance(s, ast.Assign) and len(s.targets) == 1 and isinstance(s.targets[0], ast.Subscript) \
                    and _u(s.targets[0].value) == "structured_log":
                v = s.value
                out.append(ast.Assign(targets=[ast.Name(id="structured_log", ctx=ast.Store())],
                                      value=_call("SETTEXT", ast.Name(id="structured_log", ctx=ast.Load()), s.targets[0].slice, v), lineno=0))
            elif isinstance(s, ast.Expr) and isinstance(s.value, ast.Call) and _u(s.value.func) == "structured_log.update" and len(s.value.args) == 1:
                out.append(ast.Assign(targets=[ast.Name(id="structured_log", ctx=ast.Store())],
                                      value=_call("UPDATE", ast.Name(id="structured_log", ctx=ast.Load()), s.value.args[0]), lineno=0))
            elif isinstance(s, ast.If):
                out.append(ast.If(test=s.test, body=rewrite(s.body, text), orelse=rewrite(s.orelse, text)))
            else:
                out.append(s)
        return out

    def hook2(n, go):
        if isinstance(n, ast.Call) and isinstance(n.func, ast.Name) and n.func.id == "SETTEXT":
            return "(dictSet %s %s (GVal.text %s))" % (go(n.args[0]), go(n.args[1]), go(n.args[2]))
        if isinstance(n, ast.Call) and isinstance(n.func, ast.Name) and n.func.id == "UPDATE":
            return "(dictUpdate %s ((%s).map fun kv => (kv.1, GVal.text kv.2)))" % (go(n.args[0]), go(n.args[1]))
        return hook(n, go)

    ex = pystmt.Expr(hook=hook2)
    ex.bound |= {"message", "structured_log"}
    d = pystmt.Stmts(ex, ret=lambda v, ex: ex.go(v)).block(rewrite(dict_body, False), "([] : Str)", 1)
    ex2 = pystmt.Expr(hook=hook2)
    ex2.bound |= {"message", "structured_log"}
    t = pystmt.Stmts(ex2, ret=lambda v, ex: ex.go(v)).block(rewrite(list(top.orelse), True), "([] : Str)", 1)
    sig = "(logIt : List (Str × GVal) → Str) (structured_log : List (Str × GVal))"
    return ("/-- `write_event`, dict message: clean, store `str(message) + \" *\"`, merge the cleaned members, print -/\n"
            "def write_event_dict (clean : List (Str × Json) → List (Str × Str)) %s (message : List (Str × Json)) : Str :=\n  %s\n\n"
            "/-- `write_event`, text message: the URL rule, store, print -/\n"
            "def write_event_text (urlSub : Str → Str) %s (message : Str) : Str :=\n  %s\n" % (sig, d, sig, t))


def _pinned():
    try:
        return json.load(open(PINNED_FILE))
    except OSError:
        return {}


def generate(o):
    lf = Src("orso/logging/log_formatter.py")
    gl = Src("orso/logging/google_cloud_logger.py")
    pinned = _pinned()
    table = (("clean_member", lambda: t_clean_member(lf)), ("format", lambda: t_format(lf)),
             ("sanitize_tail", lambda: t_sanitize_tail(lf)), ("write_event", lambda: t_write_event(gl, lf)))
    fresh = {}
    for key, fn in table:
        fresh[key] = o.item("c20.fn." + key, fn, pinned.get(key, "-- %s: not translated\n" % key))
    if os.environ.get("ORSO_VERIF_WRITE_PINNED") == "c20_fns":
        os.makedirs(os.path.dirname(PINNED_FILE), exist_ok=True)
        json.dump(fresh, open(PINNED_FILE, "w"), indent=1, sort_keys=True)
    header = HEADER + "import OrsoVerif.Model.Sanitise\nimport OrsoVerif.Model.SanitiseEvent\n"
    header += "/-! Functions of orso/logging translated statement by statement (harness/pystmt.py, harness/extractors/c20_fns.py). -/\n"
    header += "set_option linter.unusedVariables false\nopen _root_.Sanitise\nnamespace Gen.SanitiseFns\n\n"
    text, bad = pystmt.compile_checked(header, [(k, fresh[k]) for k, _ in table], "\nend Gen.SanitiseFns\n", pinned, core.LEAN, "SanitiseFns")
    for k in bad:
        o.degraded.append("c20.fn.%s (the translation does not elaborate in Lean; pinned text used)" % k)
    o.files["SanitiseFns.lean"] = text
