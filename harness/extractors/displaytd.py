"""C18: how `numpy_type_mapper` (orso/display.py) turns a numpy.timedelta64 into an interval.

Generated/DisplayTd.lean holds the two unit tables (`TIMEDELTA_MONTHS`, `TIMEDELTA_SECONDS`) and the
integer arithmetic of the branch as it is in the source now: the month count, the common divisor, the
numerator and the denominator of `seconds = float(NUMER) / DENOM`, and the two day constants of
`days=int(seconds // 86400), nanoseconds=(seconds % 86400) * 1e9`.  Props/C18.lean proves over these
definitions that every unit numpy has is in a table, that the quotient is the exact length for every
tick count and step, and that no intermediate is out of `float()`'s range.
Every item degrades to its pinned text when the statement is not found in the expected shape.
"""
import ast

from ..extract import HEADER, Src, lean_str
from ..pyexpr import find_function, to_lean

PINNED_MONTHS = [["Y", 12], ["M", 1]]
PINNED_SECONDS = [["W", 604800, 1], ["D", 86400, 1], ["h", 3600, 1], ["m", 60, 1], ["s", 1, 1], ["generic", 1, 1], ["ms", 1, 10**3],
                  ["us", 1, 10**6], ["ns", 1, 10**9], ["ps", 1, 10**12], ["fs", 1, 10**15], ["as", 1, 10**18]]
PINNED = {
    "ticks": "raw",
    "months": "((ticks * step) * perTick)",
    "common": "(igcd (step * length) perSecond)",
    "numer": "(ticks * (Int.fdiv (step * length) common))",
    "denom": "(Int.fdiv perSecond common)",
    "dayFloor": "86400",
    "dayMod": "86400",
}
SIGS = [
    ("ticks", "(raw : Int) : Int", "`ticks = int(value.astype(\"int64\"))` (`raw`: the 64-bit count the value holds)"),
    ("months", "(ticks step perTick : Int) : Int", "`months = ticks * step * TIMEDELTA_MONTHS[unit]`"),
    ("common", "(step length perSecond : Int) : Int", "`common = gcd(step * length, per_second)`"),
    ("numer", "(ticks step length common : Int) : Int", "the argument of `float(...)` in `seconds = float(ticks * (step * length // common)) / (per_second // common)`"),
    ("denom", "(perSecond common : Int) : Int", "the divisor of that quotient"),
    ("dayFloor", ": Int", "`days=int(seconds // 86400)`"),
    ("dayMod", ": Int", "`nanoseconds=(seconds % 86400) * 1e9`"),
]


def _int_table(src, name, width):
    d = src.assign(name)
    if not isinstance(d, dict) or not d:
        raise KeyError(name + " is not a dict literal")
    out = []
    for k, v in d.items():
        vs = list(v) if isinstance(v, (tuple, list)) else [v]
        if not isinstance(k, str) or len(vs) != width or any(isinstance(x, bool) or not isinstance(x, int) for x in vs):
            raise KeyError(name + " entry " + repr(k)[:30])
        out.append([k] + vs)
    return out


def generate(o):
    src = Src("orso/display.py")

    def mapper():
        return find_function(find_function(src.tree, "ascii_table"), "numpy_type_mapper")

    def td_body():
        for st in mapper().body:
            if isinstance(st, ast.If) and "timedelta64" in ast.unparse(st.test):
                return st
        raise KeyError("timedelta64 branch")

    def assigned(name):
        """The single assignment `name = expr` (or the tuple assignment binding it) in the timedelta branch."""
        found = []
        for st in ast.walk(td_body()):
            if isinstance(st, ast.Assign) and len(st.targets) == 1:
                t = st.targets[0]
                if isinstance(t, ast.Name) and t.id == name:
                    found.append((st, None))
                elif isinstance(t, ast.Tuple) and any(isinstance(e, ast.Name) and e.id == name for e in t.elts):
                    found.append((st, [e.id if isinstance(e, ast.Name) else None for e in t.elts].index(name)))
        if len(found) != 1:
            raise KeyError("single assignment of " + name)
        return found[0]

    def names():
        """Names of the branch: unit / step from `numpy.datetime_data(value.dtype)`, the tick count, the table reads."""
        st, pos = assigned("unit")
        if pos != 0 or not ast.unparse(st.value).startswith("numpy.datetime_data(value.dtype)") or len(st.targets[0].elts) != 2:
            raise KeyError("unit, step = numpy.datetime_data(value.dtype)[:2]")
        step = st.targets[0].elts[1].id
        st2, pos2 = assigned("length")
        if pos2 != 0 or len(st2.targets[0].elts) != 2 or ast.unparse(st2.value) != "TIMEDELTA_SECONDS[unit]":
            raise KeyError("length, per_second = TIMEDELTA_SECONDS[unit]")
        return step, st2.targets[0].elts[1].id

    def ticks():
        st, pos = assigned("ticks")
        if pos is not None:
            raise KeyError("ticks = ...")
        return to_lean(st.value, {"value.astype('int64')": "raw", "value.view('int64')": "raw"}, funcs={"int": "id"})

    def months():
        step, _ = names()
        st, pos = assigned("months")
        if pos is not None:
            raise KeyError("months = ...")
        return to_lean(st.value, {"ticks": "ticks", step: "step", "TIMEDELTA_MONTHS[unit]": "perTick"})

    def env():
        step, per = names()
        return {"ticks": "ticks", step: "step", "length": "length", per: "perSecond", "common": "common"}

    def common():
        st, pos = assigned("common")
        if pos is not None:
            raise KeyError("common = ...")
        return to_lean(st.value, env(), funcs={"gcd": "igcd"})

    def quotient():
        st, pos = assigned("seconds")
        e = st.value
        if pos is not None or not (isinstance(e, ast.BinOp) and isinstance(e.op, ast.Div) and isinstance(e.left, ast.Call)
                                   and ast.unparse(e.left.func) == "float" and len(e.left.args) == 1 and not e.left.keywords):
            raise KeyError("seconds = float(...) / ...")
        return {"numer": to_lean(e.left.args[0], env(), funcs={"gcd": "igcd"}), "denom": to_lean(e.right, env(), funcs={"gcd": "igcd"})}

    def day_constants():
        out = {}
        for n in ast.walk(td_body()):
            if isinstance(n, ast.BinOp) and isinstance(n.op, (ast.FloorDiv, ast.Mod)) and ast.unparse(n.left) == "seconds" \
                    and isinstance(n.right, ast.Constant) and isinstance(n.right.value, int) and not isinstance(n.right.value, bool):
                key = "dayFloor" if isinstance(n.op, ast.FloorDiv) else "dayMod"
                if key in out:
                    raise KeyError("two " + key)
                out[key] = "%d" % n.right.value
        if set(out) != {"dayFloor", "dayMod"}:
            raise KeyError("seconds // 86400 and seconds % 86400")
        return out

    mt = o.item("displaytd.months_table", lambda: _int_table(src, "TIMEDELTA_MONTHS", 1), PINNED_MONTHS)
    stb = o.item("displaytd.seconds_table", lambda: _int_table(src, "TIMEDELTA_SECONDS", 2), PINNED_SECONDS)
    v = {}
    v["ticks"] = o.item("displaytd.ticks", ticks, PINNED["ticks"])
    v["months"] = o.item("displaytd.months", months, PINNED["months"])
    v["common"] = o.item("displaytd.common", common, PINNED["common"])
    q = o.item("displaytd.quotient", quotient, {"numer": PINNED["numer"], "denom": PINNED["denom"]})
    v["numer"], v["denom"] = q["numer"], q["denom"]
    dc = o.item("displaytd.day_constants", day_constants, {"dayFloor": PINNED["dayFloor"], "dayMod": PINNED["dayMod"]})
    v.update(dc)

    text = HEADER + "set_option linter.unusedVariables false\nnamespace Gen.DisplayTd\n"
    text += "/-- `math.gcd` (non-negative) -/\ndef igcd (a b : Int) : Int := ((Int.gcd a b : Nat) : Int)\n"
    text += "/-- `TIMEDELTA_MONTHS`: months in a tick of the calendar units -/\n"
    text += "def monthsTable : List (String × Int) := [%s]\n" % ", ".join("(%s, %d)" % (lean_str(k), a) for k, a in mt)
    text += "/-- `TIMEDELTA_SECONDS`: a tick is `length / perSecond` seconds -/\n"
    text += "def secondsTable : List (String × Int × Int) := [%s]\n" % ", ".join("(%s, %d, %d)" % (lean_str(k), a, b) for k, a, b in stb)
    for name, sig, doc in SIGS:
        text += "/-- %s -/\ndef %s %s := %s\n" % (doc, name, sig, v[name])
    text += "end Gen.DisplayTd\n"
    o.files["DisplayTd.lean"] = text
