"""C05 extraction, second part: what kind of object a record may be, and who owns a frame's row list.

`Generated/AppendFlow.lean` (namespace `Gen.AppendFlow`), regenerated from the working tree on every run:

* `guardAccepts`      the `isinstance(data, …)` test at the top of `RelationSchema.validate`
* `coerceGuard`       the test under which `DataFrame.append` copies the record into a plain dict
* `rowReadsMapping`   the test under which the Row factory (`Row.__new__`) reads its argument by key
                      (all three as Boolean functions of four measured facts about the record object:
                      isinstance dict, exact dict, MutableMapping, Mapping)
* `sliceTree`         the body of `DataFrame.slice` as a decision tree: assignments to `offset` / `length`,
                      the tests in source order (Python semantics: `None == 0` is false, `None >= 1` raises),
                      and at every `return DataFrame(…, rows=E)` what `E` is — the parent's own list
                      (`Rows.shared`), an empty list, or a slice copy with its bounds
* `headCall`, `tailCall`   the arguments `head(size)` / `tail(size)` pass to `slice`
* `derivedRows`       for every other method that returns a frame bound to the same schema (query, distinct,
                      filter, take, to_batches, +): is its row list fresh, a generator over a snapshot, a generator
                      over the parent's own list (`lazyView`) or the parent's own list (`shared`)

Only a closed vocabulary is emitted (constructors of the inductive types declared in the same file), so the file
always compiles; an unrecognised shape degrades the item to its pinned text.
"""
import ast

from ..extract import lean_list, lean_str

FACTS = "(isDict exactDict isMutableMapping isMapping : Bool)"
PIN_GUARD = "isMutableMapping"
PIN_COERCE = "(isMutableMapping && (!exactDict))"
PIN_ROWREADS = "isDict"
PIN_SLICE = ("(Tree.ite (BExpr.lt IExpr.offset (IExpr.lit 0)) "
             "(Tree.setOffset (IExpr.max (IExpr.add IExpr.len IExpr.offset) (IExpr.lit 0)) {K}) {K})").replace(
    "{K}", "(Tree.ite (BExpr.isNone IExpr.length) (Tree.ret (Rows.cut (some IExpr.offset) none)) "
           "(Tree.ite (BExpr.eq IExpr.length (IExpr.lit 0)) (Tree.ret Rows.empty) "
           "(Tree.ret (Rows.cut (some IExpr.offset) (some (IExpr.add IExpr.offset IExpr.length))))))")
PIN_HEAD = "(IExpr.lit 0, some IExpr.size)"
PIN_TAIL = "(IExpr.sub (IExpr.lit 0) IExpr.size, some IExpr.size)"
PIN_DERIVED = [["query", "fresh"], ["distinct", "fresh"], ["filter", "snapshot"], ["take", "snapshot"], ["to_batches", "fresh"],
               ["__add__", "fresh"]]
ABCS = {"dict": "isDict", "MutableMapping": "isMutableMapping", "Mapping": "isMapping"}


class Unrecognised(Exception):
    pass


def _abc_name(n):
    """`MutableMapping`, `collections.abc.MutableMapping`, `typing.Mapping`, `dict` -> the fact it stands for"""
    nm = n.attr if isinstance(n, ast.Attribute) else (n.id if isinstance(n, ast.Name) else None)
    if nm in ABCS:
        return ABCS[nm]
    raise Unrecognised("class %s" % ast.unparse(n)[:40])


def kind_cond(n, var):
    """A test on the record object `var` -> Lean Bool over the four facts."""
    if isinstance(n, ast.UnaryOp) and isinstance(n.op, ast.Not):
        return "(!%s)" % kind_cond(n.operand, var)
    if isinstance(n, ast.BoolOp):
        j = " && " if isinstance(n.op, ast.And) else " || "
        return "(" + j.join(kind_cond(v, var) for v in n.values) + ")"
    if isinstance(n, ast.Call) and isinstance(n.func, ast.Name) and n.func.id == "isinstance" and len(n.args) == 2 \
            and not n.keywords and ast.unparse(n.args[0]) == var:
        c = n.args[1]
        if isinstance(c, ast.Tuple):
            if not c.elts:
                raise Unrecognised("isinstance against ()")
            return "(" + " || ".join(_abc_name(e) for e in c.elts) + ")"
        return _abc_name(c)
    if isinstance(n, ast.Compare) and len(n.ops) == 1 and ast.unparse(n.left) == "type(%s)" % var \
            and ast.unparse(n.comparators[0]) == "dict":
        if isinstance(n.ops[0], (ast.Is, ast.Eq)):
            return "exactDict"
        if isinstance(n.ops[0], (ast.IsNot, ast.NotEq)):
            return "(!exactDict)"
    raise Unrecognised("test on the record object: %s" % ast.unparse(n)[:60])


def validate_guard(fn):
    """The `isinstance` test that lets a record into `validate` (the leading `if not …: raise TypeError`)."""
    data = fn.args.args[1].arg
    for st in fn.body:
        if isinstance(st, ast.Expr) and isinstance(st.value, ast.Constant):
            continue
        if isinstance(st, ast.If) and any(isinstance(b, ast.Raise) for b in st.body) and not st.orelse:
            return "(!%s)" % kind_cond(st.test, data)
        break
    raise Unrecognised("no leading type test in validate")


def coerce_guard(fn):
    """The path condition under which `append` reaches `entry = dict(entry)` (top-level `if`s only)."""
    entry = fn.args.args[1].arg
    target = "%s = dict(%s)" % (entry, entry)
    found = []

    def walk(stmts, cond):
        for st in stmts:
            if isinstance(st, ast.Assign) and ast.unparse(st) == target:
                found.append(cond)
            elif isinstance(st, ast.If):
                try:
                    c = kind_cond(st.test, entry)
                except Unrecognised:
                    if target in ast.unparse(st):
                        raise
                    continue
                walk(st.body, c if cond == "true" else "(%s && %s)" % (cond, c))
                walk(st.orelse, "(!%s)" % c if cond == "true" else "(%s && (!%s))" % (cond, c))
            elif target in ast.unparse(st):
                raise Unrecognised("record copied inside %s" % type(st).__name__)

    walk(fn.body, "true")
    if not found:
        return "false"
    return found[0] if len(found) == 1 else "(" + " || ".join(found) + ")"


def row_reads(fn):
    """`Row.__new__(cls, data)`: the test under which the argument is read by key (the branch that calls the
    dict extractor or `.get(field)`)."""
    data = fn.args.args[1].arg
    for st in fn.body:
        if isinstance(st, ast.If):
            body = " ".join(ast.unparse(b) for b in st.body)
            if "extract_dict_columns" in body or "%s.get(" % data in body or "%s[" % data in body:
                return kind_cond(st.test, data)
    raise Unrecognised("no branch of Row.__new__ reads the argument by key")


# ----------------------------------------------------------------------------- DataFrame.slice as a tree


def iexpr(n, names):
    t = ast.unparse(n)
    if t in names:
        return names[t]
    if isinstance(n, ast.Constant) and isinstance(n.value, int) and not isinstance(n.value, bool):
        return "(IExpr.lit %s)" % (n.value if n.value >= 0 else "(%d)" % n.value)
    if isinstance(n, ast.UnaryOp) and isinstance(n.op, ast.USub):
        return "(IExpr.sub (IExpr.lit 0) %s)" % iexpr(n.operand, names)
    if isinstance(n, ast.BinOp) and isinstance(n.op, (ast.Add, ast.Sub)):
        return "(IExpr.%s %s %s)" % ("add" if isinstance(n.op, ast.Add) else "sub", iexpr(n.left, names), iexpr(n.right, names))
    if isinstance(n, ast.Call) and isinstance(n.func, ast.Name) and n.func.id in ("max", "min") and len(n.args) == 2 and not n.keywords:
        return "(IExpr.%s %s %s)" % (n.func.id, iexpr(n.args[0], names), iexpr(n.args[1], names))
    raise Unrecognised("integer expression %s" % t[:50])


SLICE_NAMES = {"offset": "IExpr.offset", "length": "IExpr.length", "len(self._rows)": "IExpr.len", "self.rowcount": "IExpr.len",
               "len(self)": "IExpr.len"}


def bexpr(n, names):
    if isinstance(n, ast.UnaryOp) and isinstance(n.op, ast.Not):
        return "(BExpr.not %s)" % bexpr(n.operand, names)
    if isinstance(n, ast.BoolOp):
        vs = [bexpr(v, names) for v in n.values]
        acc = vs[-1]
        for v in reversed(vs[:-1]):
            acc = "(BExpr.%s %s %s)" % ("and" if isinstance(n.op, ast.And) else "or", v, acc)
        return acc
    if isinstance(n, ast.Compare):
        parts, left = [], n.left
        for op, right in zip(n.ops, n.comparators):
            if isinstance(op, (ast.Is, ast.IsNot)) and isinstance(right, ast.Constant) and right.value is None:
                p = "(BExpr.isNone %s)" % iexpr(left, names)
                parts.append(p if isinstance(op, ast.Is) else "(BExpr.not %s)" % p)
            else:
                a, b = iexpr(left, names), iexpr(right, names)
                k = {ast.Lt: ("lt", a, b), ast.LtE: ("le", a, b), ast.Gt: ("lt", b, a), ast.GtE: ("le", b, a),
                     ast.Eq: ("eq", a, b), ast.NotEq: ("ne", a, b)}.get(type(op))
                if k is None:
                    raise Unrecognised("comparison %s" % type(op).__name__)
                parts.append("(BExpr.%s %s %s)" % k)
            left = right
        acc = parts[-1]
        for p in reversed(parts[:-1]):
            acc = "(BExpr.and %s %s)" % (p, acc)
        return acc
    raise Unrecognised("condition %s" % ast.unparse(n)[:50])


def frame_call(n):
    """`DataFrame(schema=self._schema, rows=E)` (keywords in any order; `cls(...)` too) -> E, or None"""
    if not (isinstance(n, ast.Call) and isinstance(n.func, ast.Name) and n.func.id in ("DataFrame", "cls")):
        return None
    kw = {k.arg: k.value for k in n.keywords}
    if n.args or set(kw) != {"schema", "rows"} or ast.unparse(kw["schema"]) != "self._schema":
        return None
    return kw["rows"]


def rows_expr(e, names):
    t = ast.unparse(e)
    if t == "self._rows":
        return "Rows.shared"
    if t in ("[]", "list()"):
        return "Rows.empty"
    if t in ("list(self._rows)", "self._rows.copy()", "self._rows[:]", "copy.copy(self._rows)", "[*self._rows]"):
        return "(Rows.cut none none)"
    if isinstance(e, ast.Subscript) and ast.unparse(e.value) == "self._rows" and isinstance(e.slice, ast.Slice) and e.slice.step is None:
        lo = "none" if e.slice.lower is None else "(some %s)" % iexpr(e.slice.lower, names)
        hi = "none" if e.slice.upper is None else "(some %s)" % iexpr(e.slice.upper, names)
        return "(Rows.cut %s %s)" % (lo, hi)
    raise Unrecognised("rows of the new frame: %s" % t[:50])


def slice_tree(fn):
    args = [a.arg for a in fn.args.args]
    if args != ["self", "offset", "length"]:
        raise Unrecognised("signature of slice")

    def block(stmts):
        if not stmts:
            return "Tree.fallsOff"
        st, rest = stmts[0], list(stmts[1:])
        if isinstance(st, ast.Pass) or (isinstance(st, ast.Expr) and isinstance(st.value, ast.Constant)):
            return block(rest)
        if isinstance(st, ast.Expr) and ast.unparse(st.value) == "self.materialize()":
            return block(rest)
        if isinstance(st, ast.Assign) and len(st.targets) == 1 and isinstance(st.targets[0], ast.Name) and st.targets[0].id in ("offset", "length"):
            return "(Tree.set%s %s %s)" % (st.targets[0].id.capitalize(), iexpr(st.value, SLICE_NAMES), block(rest))
        if isinstance(st, ast.Return):
            e = frame_call(st.value)
            if e is None:
                raise Unrecognised("return %s" % ast.unparse(st)[:50])
            return "(Tree.ret %s)" % rows_expr(e, SLICE_NAMES)
        if isinstance(st, ast.If):
            return "(Tree.ite %s %s %s)" % (bexpr(st.test, SLICE_NAMES), block(list(st.body) + rest), block(list(st.orelse) + rest))
        raise Unrecognised("statement of slice: %s" % ast.unparse(st)[:50])

    return block(list(fn.body))


def slice_call(fn):
    """`head` / `tail`: `return self.slice(a, b)` (positional or keyword) -> (offset expr, optional length expr) over `size`"""
    args = [a.arg for a in fn.args.args]
    if len(args) != 2:
        raise Unrecognised("signature")
    names = {args[1]: "IExpr.size"}
    body = [st for st in fn.body if not (isinstance(st, ast.Expr) and isinstance(st.value, ast.Constant))]
    if len(body) != 1 or not isinstance(body[0], ast.Return):
        raise Unrecognised("body")
    c = body[0].value
    if not (isinstance(c, ast.Call) and ast.unparse(c.func) == "self.slice"):
        raise Unrecognised("not a call of self.slice")
    got = {}
    for name, a in zip(("offset", "length"), c.args):
        got[name] = a
    for k in c.keywords:
        if k.arg not in ("offset", "length") or k.arg in got:
            raise Unrecognised("argument %s" % k.arg)
        got[k.arg] = k.value
    off = iexpr(got["offset"], names) if "offset" in got else "(IExpr.lit 0)"
    if "length" not in got or (isinstance(got["length"], ast.Constant) and got["length"].value is None):
        ln = "none"
    else:
        ln = "(some %s)" % iexpr(got["length"], names)
    return "(%s, %s)" % (off, ln)


# ----------------------------------------------------------------------------- other methods that return a frame


def _fresh(e, fn, depth=0):
    """Is `e` certainly a new list (never the parent's own)?"""
    t = ast.unparse(e)
    if isinstance(e, (ast.List, ast.ListComp)):
        return True
    if isinstance(e, ast.Subscript) and isinstance(e.slice, ast.Slice) and ast.unparse(e.value) == "self._rows":
        return True
    if isinstance(e, ast.Call) and isinstance(e.func, ast.Name) and e.func.id in ("list", "sorted"):
        return True
    if t == "self._rows.copy()":
        return True
    if isinstance(e, ast.BinOp) and isinstance(e.op, ast.Add):
        return True  # list + list builds a new list
    if isinstance(e, ast.Name) and depth < 3:
        vals = [n.value for n in ast.walk(fn) if isinstance(n, ast.Assign) and len(n.targets) == 1
                and isinstance(n.targets[0], ast.Name) and n.targets[0].id == e.id]
        return bool(vals) and all(_fresh(v, fn, depth + 1) for v in vals)
    return False


def _snapshot(e, fn):
    """a fresh list, or `FRESH if isinstance(self._rows, list) else self._rows` (a generator has no list to share)"""
    if _fresh(e, fn):
        return True
    if isinstance(e, ast.IfExp) and ast.unparse(e.test) == "isinstance(self._rows, list)" and _fresh(e.body, fn) \
            and ast.unparse(e.orelse) == "self._rows":
        return True
    if isinstance(e, ast.Name):
        vals = [n.value for n in ast.walk(fn) if isinstance(n, ast.Assign) and len(n.targets) == 1
                and isinstance(n.targets[0], ast.Name) and n.targets[0].id == e.id]
        return bool(vals) and all(_snapshot(v, fn) for v in vals)
    return False


def classify_rows(e, fn):
    if ast.unparse(e) == "self._rows":
        return "shared"
    if isinstance(e, ast.Name) and any(isinstance(n, ast.Assign) and len(n.targets) == 1 and ast.unparse(n.targets[0]) == e.id
                                       and ast.unparse(n.value) == "self._rows" for n in ast.walk(fn)):
        return "shared"  # a local name that is, on some path, the parent's own list
    if _fresh(e, fn):
        return "fresh"
    if isinstance(e, ast.GeneratorExp):
        src = e.generators[0].iter
        # zip(X, …) / enumerate(X) read X
        while isinstance(src, ast.Call) and isinstance(src.func, ast.Name) and src.func.id in ("zip", "enumerate", "iter", "reversed") and src.args:
            src = src.args[0]
        if ast.unparse(src) == "self._rows":
            return "lazyView"
        if _snapshot(src, fn):
            return "snapshot"
    raise Unrecognised("rows of the new frame: %s" % ast.unparse(e)[:50])


def derived_rows(cls):
    out = []
    for name in ("query", "distinct", "filter", "take", "to_batches", "__add__", "head", "tail"):
        fn = next((n for n in cls.body if isinstance(n, ast.FunctionDef) and n.name == name), None)
        if fn is None:
            continue
        kinds = []
        for n in ast.walk(fn):
            e = frame_call(n)
            if e is not None:
                kinds.append(classify_rows(e, fn))
            if isinstance(n, (ast.Return, ast.Yield)) and n.value is not None and ast.unparse(n.value) == "self":
                kinds.append("shared")  # the frame itself is handed out as the new frame
        if not kinds and name in ("head", "tail"):
            continue  # they only call slice (see headCall / tailCall)
        if not kinds:
            raise Unrecognised("%s returns no frame of the same schema" % name)
        worst = next((k for k in ("shared", "lazyView", "snapshot", "fresh") if k in kinds))
        out.append([name, worst])
    return out


PIN_ERRORS = {"bases": [["DataValidationError", ["DataError", "Exception"]], ["ExcessColumnsInDataError", ["DataError", "Exception"]]],
              "stores": [["DataValidationError", "errors", "errors"], ["ExcessColumnsInDataError", "columns", "columns"]],
              "partial": []}

# what the constructors of the two errors do with the offending columns while they build the message: operations that work on
# ANY keys / names / values (total) and operations that need more of them — an order, a number, a hashable (partial)
TOTAL_CALLS = {"str", "repr", "len", "all", "any", "isinstance", "list", "tuple", "enumerate", "zip", "format", "super", "type", "bool", "iter",
               "getattr", "dict", "ascii", "print", "map"}
PARTIAL_CALLS = {"sorted", "min", "max", "sum", "int", "float", "next", "ord", "chr", "hash", "abs", "round", "set", "frozenset", "bytes", "reversed",
                 "complex", "divmod", "hex", "oct", "bin"}
TOTAL_METHODS = {"items", "keys", "values", "get", "__init__", "format", "append", "extend", "strip", "rstrip", "lstrip", "upper", "lower", "copy"}
PARTIAL_METHODS = {"sort", "index", "pop", "remove", "encode", "decode"}


def _stringified(e):
    """is every element this expression yields already a string (str(…), repr(…), an f-string, a literal)?"""
    if isinstance(e, ast.JoinedStr) or (isinstance(e, ast.Constant) and isinstance(e.value, str)):
        return True
    if isinstance(e, ast.Call) and isinstance(e.func, ast.Name) and e.func.id in ("str", "repr", "ascii", "format"):
        return True
    return False


def _strings_iter(e):
    """does this expression yield strings only — whatever the offending keys / values are?"""
    if isinstance(e, (ast.GeneratorExp, ast.ListComp, ast.SetComp)):
        return _stringified(e.elt)
    if isinstance(e, (ast.List, ast.Tuple, ast.Set)):
        return all(_stringified(x) for x in e.elts)
    if isinstance(e, ast.Call) and isinstance(e.func, ast.Name):
        if e.func.id in ("sorted", "list", "tuple", "set", "frozenset", "reversed", "iter") and len(e.args) == 1:
            return _strings_iter(e.args[0])
        if e.func.id == "map" and len(e.args) == 2 and ast.unparse(e.args[0]) in ("str", "repr", "ascii"):
            return True
    return False


def message_ops(init, local_total):
    """[partial operation, …] applied in an error's constructor; raises Unrecognised for an operation of unknown kind."""
    partial = []
    for n in ast.walk(init):
        if isinstance(n, ast.Call):
            f = n.func
            if isinstance(f, ast.Name):
                if f.id in PARTIAL_CALLS:
                    # ordering / hashing what was made a string first works on anything
                    arg = n.args[0] if len(n.args) == 1 else None
                    strings = arg is not None and _strings_iter(arg)
                    by_str = any(k.arg == "key" and ast.unparse(k.value) in ("str", "repr") for k in n.keywords)
                    if not (f.id in ("sorted", "min", "max", "set", "frozenset") and (strings or by_str)):
                        partial.append(f.id)
                elif f.id not in TOTAL_CALLS and f.id not in local_total:
                    raise Unrecognised("call of %s" % f.id)
            elif isinstance(f, ast.Attribute):
                if f.attr == "join":
                    arg = n.args[0] if len(n.args) == 1 else None
                    if arg is None or not _strings_iter(arg):
                        partial.append("join of elements that are not made strings first")
                elif f.attr in PARTIAL_METHODS:
                    partial.append("." + f.attr)
                elif f.attr not in TOTAL_METHODS:
                    raise Unrecognised("call of .%s" % f.attr)
            else:
                raise Unrecognised("call of %s" % ast.unparse(f)[:30])
        elif isinstance(n, ast.BinOp) and isinstance(n.op, ast.Mod) and isinstance(n.left, (ast.Constant, ast.JoinedStr)):
            partial.append("%-formatting")
        elif isinstance(n, ast.Compare) and any(isinstance(o, (ast.Lt, ast.LtE, ast.Gt, ast.GtE)) for o in n.ops):
            # comparing lengths is fine; comparing the offending keys / values is not
            if not all(isinstance(x, ast.Constant) or (isinstance(x, ast.Call) and ast.unparse(x.func) == "len") or isinstance(x, ast.BinOp)
                       for x in [n.left] + n.comparators):
                partial.append("ordering comparison")
    return sorted(set(partial))


def error_classes(tree):
    """exceptions.py: the classes the two validation errors derive from (within the module) and which constructor
    argument each keeps, unchanged, under which attribute (`self.X = <parameter>`)."""
    classes = {n.name: n for n in tree.body if isinstance(n, ast.ClassDef)}

    def bases(name, seen=()):
        out = []
        for b in classes[name].bases:
            nm = b.attr if isinstance(b, ast.Attribute) else getattr(b, "id", None)
            if nm is None:
                raise Unrecognised("base of %s" % name)
            out.append(nm)
            if nm in classes and nm not in seen:
                out.extend(bases(nm, seen + (name,)))
        return out

    res = {"bases": [], "stores": [], "partial": []}
    for name in ("DataValidationError", "ExcessColumnsInDataError"):
        if name not in classes:
            raise Unrecognised("class %s" % name)
        res["bases"].append([name, bases(name)])
        init = next((n for n in classes[name].body if isinstance(n, ast.FunctionDef) and n.name == "__init__"), None)
        if init is None:
            raise Unrecognised("%s.__init__" % name)
        params = {a.arg for a in init.args.args[1:]}
        local_total = {t.id for st in init.body if isinstance(st, ast.Assign) and isinstance(st.value, ast.Lambda)
                       for t in st.targets if isinstance(t, ast.Name)}
        res["partial"] += [[name, op] for op in message_ops(init, local_total)]
        for st in ast.walk(init):
            if isinstance(st, ast.Assign) and len(st.targets) == 1 and isinstance(st.targets[0], ast.Attribute) \
                    and isinstance(st.targets[0].value, ast.Name) and st.targets[0].value.id == "self":
                if isinstance(st.value, ast.Name) and st.value.id in params:
                    res["stores"].append([name, st.targets[0].attr, st.value.id])
                else:
                    raise Unrecognised("%s keeps %s" % (name, ast.unparse(st.value)[:40]))
    return res


def lean_text(header, items):
    t = header + "set_option linter.unusedVariables false\nnamespace Gen.AppendFlow\n"
    t += "/-- integer-or-None expressions of `DataFrame.slice` / `head` / `tail` -/\ninductive IExpr where\n"
    t += "  | offset | length | len | size | lit (i : Int) | add (a b : IExpr) | sub (a b : IExpr) | max (a b : IExpr) | min (a b : IExpr)\n  deriving Repr, DecidableEq\n"
    t += "/-- tests of `DataFrame.slice` -/\ninductive BExpr where\n"
    t += "  | lt (a b : IExpr) | le (a b : IExpr) | eq (a b : IExpr) | ne (a b : IExpr) | isNone (a : IExpr)\n"
    t += "  | not (c : BExpr) | and (a b : BExpr) | or (a b : BExpr)\n  deriving Repr, DecidableEq\n"
    t += "/-- the `rows=` argument of a returned frame: the parent's own list, a new empty list, a slice copy -/\ninductive Rows where\n"
    t += "  | shared | empty | cut (lo hi : Option IExpr)\n  deriving Repr, DecidableEq\n"
    t += "/-- `DataFrame.slice` as a decision tree -/\ninductive Tree where\n"
    t += "  | ret (r : Rows) | ite (c : BExpr) (t e : Tree) | setOffset (v : IExpr) (k : Tree) | setLength (v : IExpr) (k : Tree) | fallsOff\n  deriving Repr, DecidableEq\n"
    t += "/-- who owns the row list of a frame returned by a method -/\ninductive Ownership where\n  | fresh | snapshot | lazyView | shared\n  deriving Repr, DecidableEq\n"
    t += "/-- schema.py `RelationSchema.validate`: the type test a record object must pass -/\n"
    t += "def guardAccepts %s : Bool :=\n  %s\n" % (FACTS, items["guard"])
    t += "/-- dataframe.py `DataFrame.append`: when the record is copied into a plain dict before anything else -/\n"
    t += "def coerceGuard %s : Bool :=\n  %s\n" % (FACTS, items["coerce"])
    t += "/-- row.py `Row.__new__`: when the argument is read by key (otherwise it is iterated, which yields a mapping's KEYS) -/\n"
    t += "def rowReadsMapping %s : Bool :=\n  %s\n" % (FACTS, items["rowreads"])
    t += "/-- dataframe.py `DataFrame.slice` -/\ndef sliceTree : Tree :=\n  %s\n" % items["slice"]
    t += "/-- dataframe.py `head(size)` = `slice(offset, length)` -/\ndef headCall : IExpr × Option IExpr := %s\n" % items["head"]
    t += "/-- dataframe.py `tail(size)` = `slice(offset, length)` -/\ndef tailCall : IExpr × Option IExpr := %s\n" % items["tail"]
    t += "/-- the other methods that return a frame bound to the same schema, and who owns its rows -/\n"
    t += "def derivedRows : List (String × Ownership) := %s\n" % lean_list(items["derived"], lambda p: "(%s, Ownership.%s)" % (lean_str(p[0]), p[1]))
    t += "/-- exceptions.py: the classes each validation error derives from -/\n"
    t += "def errorBases : List (String × List String) := %s\n" % lean_list(items["errors"]["bases"], lambda p: "(%s, %s)" % (lean_str(p[0]), lean_list(p[1], lean_str)))
    t += "/-- exceptions.py: (class, attribute, constructor argument kept unchanged under it) -/\n"
    t += "def errorStores : List (String × String × String) := %s\n" % lean_list(items["errors"]["stores"], lambda p: "(%s, %s, %s)" % tuple(lean_str(x) for x in p))
    t += "/-- exceptions.py: (class, operation) for every operation a constructor applies to the offending columns that does not work\non every key / name / value (sorting, ordering, arithmetic, joining what was not made a string first) -/\n"
    t += "def errorPartialOps : List (String × String) := %s\n" % lean_list(items["errors"].get("partial", []), lambda p: "(%s, %s)" % (lean_str(p[0]), lean_str(p[1])))
    t += "end Gen.AppendFlow\n"
    return t
