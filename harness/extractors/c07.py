"""Cast tables: BOOLEAN_STRINGS, type->class map, type->parser map, decimal defaults, factory constants."""
import ast

from ..extract import HEADER, Src, lean_list, lean_str

PIN_BOOL = ["TRUE", "ON", "YES", "1", "1.0", "T", "Y"]
PIN_MAP = [["BOOLEAN", "bool"], ["BLOB", "bytes"], ["DATE", "datetime.date"], ["TIMESTAMP", "datetime.datetime"], ["TIME", "datetime.time"],
           ["INTERVAL", "datetime.timedelta"], ["STRUCT", "dict"], ["DECIMAL", "decimal.Decimal"], ["DOUBLE", "float"], ["INTEGER", "int"],
           ["ARRAY", "list"], ["VARCHAR", "str"], ["JSONB", "bytes"], ["NULL", "None"]]
PIN_PARSER = [["BOOLEAN", "parse_boolean"], ["BLOB", "parse_bytes"], ["DATE", "parse_date"], ["TIMESTAMP", "parse_timestamp"], ["TIME", "parse_time"],
              ["INTERVAL", "parse_interval"], ["STRUCT", "parse_bytes"], ["DECIMAL", "parse_decimal"], ["DOUBLE", "parse_double"],
              ["INTEGER", "parse_integer"], ["ARRAY", "parse_array"], ["VARCHAR", "parse_varchar"], ["JSONB", "parse_bytes"], ["NULL", "parse_null"]]


def generate(o):
    ty = Src("orso/types.py")
    tl = Src("orso/tools.py")

    def node_of(name):
        for n in ty.tree.body:
            tgt = None
            if isinstance(n, ast.Assign) and len(n.targets) == 1:
                tgt, val = n.targets[0], n.value
            elif isinstance(n, ast.AnnAssign):
                tgt, val = n.target, n.value
            if tgt is not None and isinstance(tgt, ast.Name) and tgt.id == name:
                return val
        raise KeyError(name)

    def bools():
        v = ast.literal_eval(node_of("BOOLEAN_STRINGS"))
        s = [x for x in v if isinstance(x, str)]
        b = [x.decode("ascii") for x in v if isinstance(x, bytes)]
        if not all(x.isascii() for x in s):
            raise KeyError("non-ASCII truthy word")
        return [s, b]

    def dmap(name):
        def g():
            d = node_of(name)
            out = []
            for k, v in zip(d.keys, d.values):
                out.append([k.attr, ast.unparse(v)])
            return out
        return g

    def dec_defaults():
        fn = ty.func("parse_decimal")
        out = {}
        for n in ast.walk(fn):
            if isinstance(n, ast.Assign) and isinstance(n.value, ast.IfExp) and isinstance(n.targets[0], ast.Name) and n.targets[0].id in ("scale", "precision"):
                out[n.targets[0].id] = ast.literal_eval(n.value.body)
        return [out["precision"], out["scale"]]

    def factory():
        fn = tl.func("__call__", "DecimalFactory")
        mins = []
        rounding = None
        for n in ast.walk(fn):
            if isinstance(n, ast.Call) and getattr(n.func, "id", None) == "min" and ast.unparse(n.args[0]) == "self.scale":
                mins.append((n.lineno, ast.literal_eval(n.args[1])))
            if isinstance(n, ast.keyword) and n.arg == "rounding":
                rounding = ast.unparse(n.value).split(".")[-1]
        mins.sort()
        if len(mins) != 2 or rounding is None:
            raise KeyError("factory shape")
        return [rounding, mins[0][1], mins[1][1]]

    def length_tests():
        out = []
        for f in ("parse_varchar", "parse_bytes"):
            fn = ty.func(f)
            ifs = [n for n in ast.walk(fn) if isinstance(n, ast.If) and isinstance(n.test, ast.Name) and n.test.id == "length"]
            sl = [n for n in ast.walk(fn) if isinstance(n, ast.Subscript) and isinstance(n.slice, ast.Slice) and n.slice.lower is None
                  and isinstance(n.slice.upper, ast.Name) and n.slice.upper.id == "length"]
            out.append(len(ifs) == 1 and len(sl) == 1)
        return out

    bs = o.item("cast.BOOLEAN_STRINGS", bools, [PIN_BOOL, PIN_BOOL])
    pm = o.item("cast.ORSO_TO_PYTHON_MAP", dmap("ORSO_TO_PYTHON_MAP"), PIN_MAP)
    pp = o.item("cast.ORSO_TO_PYTHON_PARSER", dmap("ORSO_TO_PYTHON_PARSER"), PIN_PARSER)
    dd = o.item("cast.decimal_defaults", dec_defaults, [38, 21])
    fa = o.item("cast.factory", factory, ["ROUND_HALF_EVEN", 3, 28])
    lt = o.item("cast.length_truthiness", length_tests, [True, True])
    pair = lambda p: "(%s, %s)" % (lean_str(p[0]), lean_str(p[1]))
    t = HEADER + "namespace Gen.Cast\n"
    t += "/-- text entries of BOOLEAN_STRINGS -/\ndef boolStrings : List String := %s\n" % lean_list(bs[0], lean_str)
    t += "/-- bytes entries of BOOLEAN_STRINGS (ASCII) -/\ndef boolBytes : List String := %s\n" % lean_list(bs[1], lean_str)
    t += "def pythonClass : List (String × String) := %s\n" % lean_list(pm, pair)
    t += "def parserOf : List (String × String) := %s\n" % lean_list(pp, pair)
    t += "def defaultPrecision : Nat := %d\ndef defaultScale : Nat := %d\n" % (dd[0], dd[1])
    t += "def rounding : String := %s\ndef padZeros : Nat := %d\ndef maxQuantScale : Nat := %d\n" % (lean_str(fa[0]), fa[1], fa[2])
    t += "/-- `if length:` guards a `[:length]` slice in parse_varchar / parse_bytes -/\n"
    t += "def varcharLengthGuard : Bool := %s\ndef blobLengthGuard : Bool := %s\n" % tuple("true" if x else "false" for x in lt)
    t += "end Gen.Cast\n"
    o.files["Cast.lean"] = t
