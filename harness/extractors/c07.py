"""Cast tables: BOOLEAN_STRINGS, type->class map, type->parser map, decimal defaults, factory constants."""
import ast

from ..extract import HEADER, Src, lean_list, lean_str
from ..pyexpr import assignments, find_function, to_lean

PIN_BOOL = ["TRUE", "ON", "YES", "1", "1.0", "T", "Y"]
PIN_MAP = [["BOOLEAN", "bool"], ["BLOB", "bytes"], ["DATE", "datetime.date"], ["TIMESTAMP", "datetime.datetime"], ["TIME", "datetime.time"],
           ["INTERVAL", "datetime.timedelta"], ["STRUCT", "dict"], ["DECIMAL", "decimal.Decimal"], ["DOUBLE", "float"], ["INTEGER", "int"],
           ["ARRAY", "list"], ["VARCHAR", "str"], ["JSONB", "bytes"], ["NULL", "None"]]
PIN_PARSER = [["BOOLEAN", "parse_boolean"], ["BLOB", "parse_bytes"], ["DATE", "parse_date"], ["TIMESTAMP", "parse_timestamp"], ["TIME", "parse_time"],
              ["INTERVAL", "parse_interval"], ["STRUCT", "parse_bytes"], ["DECIMAL", "parse_decimal"], ["DOUBLE", "parse_double"],
              ["INTEGER", "parse_integer"], ["ARRAY", "parse_array"], ["VARCHAR", "parse_varchar"], ["JSONB", "parse_bytes"], ["NULL", "parse_null"]]


def generate(o):
    ty = Src("orso/types.py")
    tl = Src("orso/tools.py")

    def node_of(name):
        for n in ty.tree.body:
            tgt = None
            if isinstance(n, ast.Assign) and len(n.targets) == 1:
                tgt, val = n.targets[0], n.value
            elif isinstance(n, ast.AnnAssign):
                tgt, val = n.target, n.value
            if tgt is not None and isinstance(tgt, ast.Name) and tgt.id == name:
                return val
        raise KeyError(name)

    def bools():
        v = ast.literal_eval(node_of("BOOLEAN_STRINGS"))
        s = [x for x in v if isinstance(x, str)]
        b = [x.decode("ascii") for x in v if isinstance(x, bytes)]
        if not all(x.isascii() for x in s):
            raise KeyError("non-ASCII truthy word")
        return [s, b]

    def dmap(name):
        def g():
            d = node_of(name)
            out = []
            for k, v in zip(d.keys, d.values):
                out.append([k.attr, ast.unparse(v)])
            return out
        return g

    def dec_defaults():
        fn = ty.func("parse_decimal")
        out = {}
        for n in ast.walk(fn):
            if isinstance(n, ast.Assign) and isinstance(n.value, ast.IfExp) and isinstance(n.targets[0], ast.Name) and n.targets[0].id in ("scale", "precision"):
                out[n.targets[0].id] = ast.literal_eval(n.value.body)
        return [out["precision"], out["scale"]]

    def shared_context(fn):
        """`context = <NAME>` inside the factory's `__call__` where <NAME> is a module-level `decimal.Context(...)`:
        -> (the module-level Context call, the expression assigned to `context.prec` in the call) or None."""
        names = [n for n in ast.walk(fn) if isinstance(n, ast.Assign) and len(n.targets) == 1 and ast.unparse(n.targets[0]) == "context"
                 and isinstance(n.value, ast.Name)]
        if len(names) != 1:
            return None
        mod = [n for n in tl.tree.body if isinstance(n, ast.Assign) and len(n.targets) == 1 and isinstance(n.targets[0], ast.Name)
               and n.targets[0].id == names[0].value.id and isinstance(n.value, ast.Call) and ast.unparse(n.value.func) == "decimal.Context"]
        precs = [n for n in ast.walk(fn) if isinstance(n, ast.Assign) and len(n.targets) == 1 and ast.unparse(n.targets[0]) == "context.prec"]
        if len(mod) != 1 or len(precs) != 1:
            return None
        return mod[0].value, precs[0].value

    def factory():
        fn = tl.func("__call__", "DecimalFactory")
        mins = []
        rounding = None
        sh = shared_context(fn)
        for n in list(ast.walk(fn)) + (list(ast.walk(sh[0])) if sh else []):
            if isinstance(n, ast.Call) and getattr(n.func, "id", None) == "min" and ast.unparse(n.args[0]) == "self.scale":
                mins.append((n.lineno, ast.literal_eval(n.args[1])))
            if isinstance(n, ast.keyword) and n.arg == "rounding":
                rounding = ast.unparse(n.value).split(".")[-1]
        mins.sort()
        if len(mins) != 2 or rounding is None:
            raise KeyError("factory shape")
        return [rounding, mins[0][1], mins[1][1]]

    def factory_exprs():
        """min(self.scale, 28), the exponent of the quantisation factor, the zero padding count, the context precision."""
        fn = find_function(tl.tree, "__call__", "DecimalFactory")
        env = {"self.scale": "scale", "self.precision": "precision", "safe_scale": "safe_scale"}
        ss = assignments(fn, "safe_scale")
        if len(ss) != 1:
            raise KeyError("safe_scale = ...")
        quant_scale = to_lean(ss[0][1], env)
        fa = assignments(fn, "factor")
        if len(fa) != 1:
            raise KeyError("factor = ...")
        fe = fa[0][1]
        if isinstance(fe, ast.BinOp) and isinstance(fe.op, ast.Pow) and ast.unparse(fe.left) in ("decimal.Decimal('10')", "decimal.Decimal(10)"):
            quant_exp = to_lean(fe.right, env)  # computed in the caller's ambient context: listed by `ambient_reads`
        elif (isinstance(fe, ast.Call) and ast.unparse(fe.func) == "decimal.Decimal" and len(fe.args) == 1 and not fe.keywords
              and isinstance(fe.args[0], ast.Tuple) and len(fe.args[0].elts) == 3
              and ast.unparse(fe.args[0].elts[0]) == "0" and ast.unparse(fe.args[0].elts[1]) == "(1,)"):
            quant_exp = to_lean(fe.args[0].elts[2], env)  # Decimal((0, (1,), <exp>)): built from its parts, no context involved
        else:
            raise KeyError("factor = Decimal(10) ** <exp> | Decimal((0, (1,), <exp>))")
        q = [n for n in ast.walk(fn) if isinstance(n, ast.Call) and isinstance(n.func, ast.Attribute) and n.func.attr == "quantize"]
        if len(q) != 1 or ast.unparse(q[0].args[0]) != "factor" or ast.unparse(q[0].func.value) != "decimal_value":
            raise KeyError("decimal_value.quantize(factor, ...)")
        pads = assignments(fn, "value")
        if len(pads) != 1:
            raise KeyError("value += ...")
        e = pads[0][1]  # value + ("." + "0" * <count>)
        r = e.right
        if not (isinstance(r, ast.BinOp) and isinstance(r.op, ast.Add) and ast.literal_eval(r.left) == "."
                and isinstance(r.right, ast.BinOp) and isinstance(r.right.op, ast.Mult) and ast.literal_eval(r.right.left) == "0"):
            raise KeyError('value += "." + "0" * <count>')
        pad = to_lean(r.right.right, env)
        guard = [n for n in ast.walk(fn) if isinstance(n, ast.If) and pads[0][0] in n.body]
        if len(guard) != 1 or ast.unparse(guard[0].test) != "isinstance(value, str) and value.isdigit()":
            raise KeyError("padding guard")
        ctx = [n for n in ast.walk(fn) if isinstance(n, ast.Call) and ast.unparse(n.func) == "decimal.Context"]
        scope = "call"
        if len(ctx) == 1:
            kw = {k.arg: k.value for k in ctx[0].keywords}
            prec = to_lean(kw["prec"], env)
        else:
            sh = shared_context(fn)  # one module-level context whose precision is set per call
            if len(ctx) != 0 or sh is None:
                raise KeyError("decimal.Context(...)")
            prec = to_lean(sh[1], env)
            scope = "module"
        cd = [n for n in ast.walk(fn) if isinstance(n, ast.Call) and isinstance(n.func, ast.Attribute) and n.func.attr == "create_decimal"]
        if len(cd) != 1 or ast.unparse(cd[0].func.value) != "context":
            raise KeyError("context.create_decimal(value)")
        if "context" not in {k.arg for k in q[0].keywords} or ast.unparse({k.arg: k.value for k in q[0].keywords}["context"]) != "context":
            raise KeyError("quantize(..., context=context)")
        return [quant_scale, quant_exp, pad, prec, scope]

    AMBIENT_CALLS = ("decimal.getcontext", "decimal.localcontext", "decimal.setcontext", "getcontext", "localcontext", "setcontext",
                     "os.getenv", "os.environ.get", "time.time", "time.localtime", "time.timezone", "sys.get_int_max_str_digits",
                     "sys.getdefaultencoding", "sys.getrecursionlimit")
    AMBIENT_PREFIX = ("locale.", "random.", "threading.", "os.environ", "sys.flags", "sys.float_repr_style", "sys.float_info", "sys.int_info",
                      "decimal.DefaultContext", "decimal.BasicContext", "decimal.ExtendedContext")
    AMBIENT_SUFFIX = (".now", ".today", ".utcnow")
    CONTEXT_METHODS = ("quantize", "normalize", "to_integral", "to_integral_value", "to_integral_exact", "sqrt", "exp", "ln", "log10", "fma", "scaleb",
                       "next_minus", "next_plus", "next_toward", "remainder_near", "rotate", "shift", "logb", "compare", "max", "min")

    def ambient_reads():
        """What the cast functions read of the interpreter's state outside their arguments: [factory reads, other parsers' reads],
        each a list of `function: expression`.  Recognised: the thread's decimal context (`decimal.getcontext()` / `localcontext()`,
        the module's template contexts, Decimal arithmetic operators and context-sensitive Decimal methods called without an explicit
        `context=` inside the factory), locale / environment / clock / random / `sys` settings."""
        def scan(fn, label, decimal_locals):
            out = []
            for n in ast.walk(fn):
                txt = None
                if isinstance(n, ast.Call):
                    f = ast.unparse(n.func)
                    if f in AMBIENT_CALLS or f.endswith(AMBIENT_SUFFIX):
                        txt = ast.unparse(n)
                    elif decimal_locals is not None and isinstance(n.func, ast.Attribute) and n.func.attr in CONTEXT_METHODS \
                            and ast.unparse(n.func.value) in decimal_locals \
                            and "context" not in {k.arg for k in n.keywords}:
                        txt = ast.unparse(n)
                elif isinstance(n, (ast.Attribute, ast.Name)) and ast.unparse(n).startswith(AMBIENT_PREFIX):
                    txt = ast.unparse(n)
                elif decimal_locals is not None and isinstance(n, ast.BinOp):
                    sides = [ast.unparse(n.left), ast.unparse(n.right)]
                    if any(x in decimal_locals or x.startswith("decimal.Decimal(") for x in sides):
                        txt = ast.unparse(n)
                elif decimal_locals is not None and isinstance(n, ast.UnaryOp) and isinstance(n.op, (ast.USub, ast.UAdd)) \
                        and (ast.unparse(n.operand) in decimal_locals or ast.unparse(n.operand).startswith("decimal.Decimal(")):
                    txt = ast.unparse(n)
                if txt is not None and not any(txt in o_ for o_ in out):
                    out.append("%s: %s" % (label, txt))
            return out
        call = tl.func("__call__", "DecimalFactory")
        dlocals = {"decimal_value", "factor", "quantized_value"}
        fac = scan(call, "DecimalFactory.__call__", dlocals) + scan(tl.func("new_factory", "DecimalFactory"), "DecimalFactory.new_factory", dlocals)
        fac += scan(ty.func("parse_decimal"), "parse_decimal", set())
        oth = []
        names = []
        for _k, v in dmap("ORSO_TO_PYTHON_PARSER")():
            if v not in names and v != "parse_decimal":
                names.append(v)
        for nm in names:
            oth += scan(ty.func(nm), nm, set())
        for n in ast.walk(ty.tree):
            if isinstance(n, ast.ClassDef) and n.name == "OrsoTypes":
                for m in n.body:
                    if isinstance(m, ast.FunctionDef) and m.name == "parse":
                        oth += scan(m, "OrsoTypes.parse", set())
        return [sorted(fac), sorted(oth)]

    def limit_exprs():
        """`if length:` and the `[:stop]` slice of parse_varchar / parse_bytes."""
        out = []
        for f, var in (("parse_varchar", "varchar"), ("parse_bytes", "value")):
            fn = ty.func(f)
            ifs = [n for n in ast.walk(fn) if isinstance(n, ast.If) and "length" in ast.unparse(n.test)]
            if len(ifs) != 1 or len(ifs[0].body) != 1 or ifs[0].orelse:
                raise KeyError(f + ": if length")
            t = ifs[0].test
            test = "(length ≠ 0)" if (isinstance(t, ast.Name) and t.id == "length") else to_lean(t, {"length": "length"})
            st = ifs[0].body[0]
            if not (isinstance(st, ast.Assign) and ast.unparse(st.targets[0]) == var and isinstance(st.value, ast.Subscript)
                    and ast.unparse(st.value.value) == var and isinstance(st.value.slice, ast.Slice)
                    and st.value.slice.lower is None and st.value.slice.step is None and st.value.slice.upper is not None):
                raise KeyError(f + ": %s = %s[:stop]" % (var, var))
            # no other slicing of the value in the function
            others = [n for n in ast.walk(fn) if isinstance(n, ast.Subscript) and isinstance(n.slice, ast.Slice) and n is not st.value]
            if others:
                raise KeyError(f + ": another slice")
            out.append([test, to_lean(st.value.slice.upper, {"length": "length"})])
        return out

    def length_tests():
        out = []
        for f in ("parse_varchar", "parse_bytes"):
            fn = ty.func(f)
            ifs = [n for n in ast.walk(fn) if isinstance(n, ast.If) and isinstance(n.test, ast.Name) and n.test.id == "length"]
            sl = [n for n in ast.walk(fn) if isinstance(n, ast.Subscript) and isinstance(n.slice, ast.Slice) and n.slice.lower is None
                  and isinstance(n.slice.upper, ast.Name) and n.slice.upper.id == "length"]
            out.append(len(ifs) == 1 and len(sl) == 1)
        return out

    def array_shape():
        """parse_array: `[parser(v) for v in x]` with `parser = element_type.parse`, no filter, no condition.
        Local names are normalised (a renamed loop variable / parameter / parser variable is the same shape)."""
        import copy

        fn = ty.func("parse_array")
        comps = [n for n in ast.walk(fn) if isinstance(n, ast.ListComp)]
        if len(comps) != 1:
            raise KeyError("one list comprehension")
        comp = comps[0]
        ren = {}
        if len(comp.generators) == 1 and isinstance(comp.generators[0].target, ast.Name):
            ren[comp.generators[0].target.id] = "v"
        if fn.args.args:
            ren[fn.args.args[0].arg] = "x"
        et = [n for n in ast.walk(fn) if isinstance(n, ast.Assign) and len(n.targets) == 1 and isinstance(n.targets[0], ast.Name)
              and ast.unparse(n.value) in ("kwargs.get('element_type')", "kwargs['element_type']")]
        if len(et) == 1:
            ren[et[0].targets[0].id] = "element_type"
        pa = [n for n in ast.walk(fn) if isinstance(n, ast.Assign) and len(n.targets) == 1 and isinstance(n.targets[0], ast.Name)
              and isinstance(comp.elt, ast.Call) and isinstance(comp.elt.func, ast.Name) and n.targets[0].id == comp.elt.func.id]
        if len(pa) == 1:
            ren[pa[0].targets[0].id] = "parser"
        else:
            pa = [n for n in ast.walk(fn) if isinstance(n, ast.Assign) and ast.unparse(n.targets[0]) == "parser"]
            if len(pa) != 1:
                raise KeyError("parser = ...")

        class R(ast.NodeTransformer):
            def visit_Name(self, node):
                return ast.copy_location(ast.Name(id=ren.get(node.id, node.id), ctx=node.ctx), node)

        return [ast.unparse(R().visit(copy.deepcopy(comp))), ast.unparse(R().visit(copy.deepcopy(pa[0].value)))]

    def type_names():
        """The str-valued members of the OrsoTypes enum, in source order."""
        for n in ty.tree.body:
            if isinstance(n, ast.ClassDef) and n.name == "OrsoTypes":
                out = []
                for st in n.body:
                    if isinstance(st, ast.Assign) and len(st.targets) == 1 and isinstance(st.targets[0], ast.Name) \
                            and isinstance(st.value, ast.Constant) and isinstance(st.value.value, str):
                        if st.targets[0].id != st.value.value:
                            raise KeyError("member %s has another value" % st.targets[0].id)
                        out.append(st.value.value)
                if not out:
                    raise KeyError("no members")
                return out
        raise KeyError("OrsoTypes")

    def parse_method():
        """OrsoTypes.parse: `if <test on value>: return None` then `return <TABLE>[self.value](value, **kwargs)`."""
        fn = find_function(ty.tree, "parse", "OrsoTypes")
        body = [st for st in fn.body if not (isinstance(st, ast.Expr) and isinstance(st.value, ast.Constant))]
        if len(body) != 2 or [a.arg for a in fn.args.args] != ["self", "value"] or fn.args.kwarg is None:
            raise KeyError("parse(self, value, **kwargs): two statements")
        g, r = body
        if not (isinstance(g, ast.If) and not g.orelse and len(g.body) == 1 and isinstance(g.body[0], ast.Return)
                and (g.body[0].value is None or (isinstance(g.body[0].value, ast.Constant) and g.body[0].value.value is None))):
            raise KeyError("if <test>: return None")
        test = to_lean(g.test, {"value is None": "isNone", "value is not None": "(¬ isNone)", "value == None": "isNone",
                                "not value": "falsy"})
        kw = fn.args.kwarg.arg
        if not (isinstance(r, ast.Return) and isinstance(r.value, ast.Call) and isinstance(r.value.func, ast.Subscript)
                and isinstance(r.value.func.value, ast.Name) and ast.unparse(r.value.func.slice) in ("self.value", "self")
                and [ast.unparse(a) for a in r.value.args] == ["value"]
                and [(k.arg, ast.unparse(k.value)) for k in r.value.keywords] == [(None, kw)]):
            raise KeyError("return TABLE[self.value](value, **kwargs)")
        return [test, r.value.func.value.id]

    def bool_fold():
        """parse_boolean: `<text of x>.<fold>() in BOOLEAN_STRINGS`."""
        fn = ty.func("parse_boolean")
        body = [st for st in fn.body if not (isinstance(st, ast.Expr) and isinstance(st.value, ast.Constant))]
        if len(body) != 1 or not isinstance(body[0], ast.Return):
            raise KeyError("single return")
        e = body[0].value
        if not (isinstance(e, ast.Compare) and len(e.ops) == 1 and isinstance(e.ops[0], ast.In) and ast.unparse(e.comparators[0]) == "BOOLEAN_STRINGS"
                and isinstance(e.left, ast.Call) and isinstance(e.left.func, ast.Attribute) and not e.left.args and not e.left.keywords):
            raise KeyError("<text>.<fold>() in BOOLEAN_STRINGS")
        if e.left.func.attr not in ("upper", "lower"):
            raise KeyError("fold %s" % e.left.func.attr)
        return e.left.func.attr

    def conv_body(fname):
        """`parse_integer` / `parse_double`: `[if <test>: x = <fn>(x)]* return <fn>(x)` — the conversions applied to the
        argument before the final one (none today), and the final one."""
        def g():
            fn = ty.func(fname)
            arg = fn.args.args[0].arg
            body = [st for st in fn.body if not (isinstance(st, ast.Expr) and isinstance(st.value, ast.Constant))]
            if not body or not isinstance(body[-1], ast.Return):
                raise KeyError("return <fn>(x)")

            def call_on_arg(e):
                if isinstance(e, ast.Call) and isinstance(e.func, ast.Name) and len(e.args) == 1 and not e.keywords \
                        and isinstance(e.args[0], ast.Name) and e.args[0].id == arg:
                    return e.func.id
                raise KeyError("<fn>(%s)" % arg)

            final = call_on_arg(body[-1].value)
            pre = []
            for st in body[:-1]:
                if isinstance(st, ast.If) and not st.orelse and len(st.body) == 1 and isinstance(st.body[0], ast.Assign) \
                        and len(st.body[0].targets) == 1 and isinstance(st.body[0].targets[0], ast.Name) and st.body[0].targets[0].id == arg:
                    pre.append([ast.unparse(st.test).replace(arg, "x"), call_on_arg(st.body[0].value)])
                elif isinstance(st, ast.Assign) and len(st.targets) == 1 and isinstance(st.targets[0], ast.Name) and st.targets[0].id == arg:
                    pre.append(["True", call_on_arg(st.value)])
                else:
                    raise KeyError("statement before the return")
            return [pre, final]
        return g

    def array_decode():
        """parse_array: `if not isinstance(x, (<native>)): x = <loader>(x)`."""
        fn = ty.func("parse_array")
        arg = fn.args.args[0].arg
        ifs = [n for n in fn.body if isinstance(n, ast.If) and isinstance(n.test, ast.UnaryOp) and isinstance(n.test.op, ast.Not)
               and isinstance(n.test.operand, ast.Call) and ast.unparse(n.test.operand.func) == "isinstance"]
        if len(ifs) != 1 or ifs[0].orelse or len(ifs[0].body) != 1:
            raise KeyError("if not isinstance(x, ...): x = loader(x)")
        call = ifs[0].test.operand
        if ast.unparse(call.args[0]) != arg or not isinstance(call.args[1], ast.Tuple):
            raise KeyError("isinstance(x, (...))")
        native = [ast.unparse(e) for e in call.args[1].elts]
        st = ifs[0].body[0]
        if not (isinstance(st, ast.Assign) and ast.unparse(st.targets[0]) == arg and isinstance(st.value, ast.Call)
                and [ast.unparse(a) for a in st.value.args] == [arg] and not st.value.keywords):
            raise KeyError("x = loader(x)")
        return [native, ast.unparse(st.value.func)]

    def default_cast():
        """FlatColumn.__init__/__post_init__: `if <guard on self.default>: ... self.default = self.type.parse(self.default)`."""
        sc = Src("orso/schema.py")
        hits = []
        for n in ast.walk(sc.tree):
            if isinstance(n, ast.If):
                for st in ast.walk(ast.Module(body=n.body, type_ignores=[])):
                    if isinstance(st, ast.Assign) and ast.unparse(st.targets[0]) == "self.default" and isinstance(st.value, ast.Call) \
                            and ast.unparse(st.value.func).endswith(".parse"):
                        hits.append((n, st))
        hits = [(n, st) for (n, st) in hits if "self.default" in ast.unparse(n.test)]
        if len(hits) != 1:
            raise KeyError("if <self.default>: self.default = self.type.parse(self.default)")
        n, st = hits[0]
        env = {"self.default": "truthy", "self.default is not None": "(¬ isNone)", "self.default is None": "isNone"}
        for c in ast.walk(n.test):
            if isinstance(c, ast.Call) and ast.unparse(c.func) == "isinstance" and ast.unparse(c.args[0]) == "self.default":
                env[ast.unparse(c)] = "isInst"
        return [to_lean(n.test, env), ast.unparse(st.value)]

    ib = o.item("cast.parse_integer_body", conv_body("parse_integer"), [[], "int"])
    db = o.item("cast.parse_double_body", conv_body("parse_double"), [[], "float"])
    ad = o.item("cast.array_decode", array_decode, [["list", "tuple", "set"], "orjson.loads"])
    dc = o.item("cast.column_default", default_cast, ["truthy", "self.type.parse(self.default)"])
    tn = o.item("cast.type_names", type_names, [p_[0] for p_ in PIN_PARSER])
    pmth = o.item("cast.parse_method", parse_method, ["isNone", "ORSO_TO_PYTHON_PARSER"])
    bf = o.item("cast.bool_fold", bool_fold, "upper")
    ar = o.item("cast.array_comprehension", array_shape, ["[parser(v) for v in x]", "element_type.parse"])
    bs = o.item("cast.BOOLEAN_STRINGS", bools, [PIN_BOOL, PIN_BOOL])
    pm = o.item("cast.ORSO_TO_PYTHON_MAP", dmap("ORSO_TO_PYTHON_MAP"), PIN_MAP)
    pp = o.item("cast.ORSO_TO_PYTHON_PARSER", dmap("ORSO_TO_PYTHON_PARSER"), PIN_PARSER)
    dd = o.item("cast.decimal_defaults", dec_defaults, [38, 21])
    fa = o.item("cast.factory", factory, ["ROUND_HALF_EVEN", 3, 28])
    fx = o.item("cast.expr.factory", factory_exprs, ["(min scale 28)", "(-safe_scale)", "(min scale 3)", "precision", "call"])
    am = o.item("cast.ambient_reads", ambient_reads, [[], []])
    lx = o.item("cast.expr.limit", limit_exprs, [["(length ≠ 0)", "length"], ["(length ≠ 0)", "length"]])
    pair = lambda p: "(%s, %s)" % (lean_str(p[0]), lean_str(p[1]))
    t = HEADER + "namespace Gen.Cast\n"
    t += "/-- text entries of BOOLEAN_STRINGS -/\ndef boolStrings : List String := %s\n" % lean_list(bs[0], lean_str)
    t += "/-- bytes entries of BOOLEAN_STRINGS (ASCII) -/\ndef boolBytes : List String := %s\n" % lean_list(bs[1], lean_str)
    t += "def pythonClass : List (String × String) := %s\n" % lean_list(pm, pair)
    t += "def parserOf : List (String × String) := %s\n" % lean_list(pp, pair)
    t += "def defaultPrecision : Nat := %d\ndef defaultScale : Nat := %d\n" % (dd[0], dd[1])
    t += "/-- rounding mode of the factory's context -/\ndef rounding : String := %s\n" % lean_str(fa[0])
    t += "/-- `safe_scale = ...` in DecimalFactory.__call__ -/\ndef quantScale (scale : Int) : Int := %s\n" % fx[0]
    t += "/-- exponent of the quantisation factor `Decimal(10) ** ...` -/\ndef quantExp (safe_scale : Int) : Int := %s\n" % fx[1]
    t += "/-- number of zeros appended to all-digit text: `\".\" + \"0\" * ...` -/\ndef padCount (scale : Int) : Int := %s\n" % fx[2]
    t += "/-- `decimal.Context(prec=...)` -/\ndef contextPrec (precision : Int) : Int := %s\n" % fx[3]
    t += ("/-- where the context object the factory rounds and quantises with is built: `call` = a new one in every call;\n"
          "`module` = one module-level object whose `prec` is assigned per call (state shared by all casts of the process) -/\n"
          "def contextScope : String := %s\n" % lean_str(fx[4] if len(fx) > 4 else "call"))
    for nm, (test, stop) in (("varchar", lx[0]), ("blob", lx[1])):
        t += "/-- parse_%s: the test guarding the slice -/\ndef %sLimitTest (length : Int) : Prop := %s\n" % ("varchar" if nm == "varchar" else "bytes", nm, test)
        t += "instance (length : Int) : Decidable (%sLimitTest length) := by unfold %sLimitTest; infer_instance\n" % (nm, nm)
        t += "/-- …and the upper bound of `value[:stop]` -/\ndef %sStop (length : Int) : Int := %s\n" % (nm, stop)
    t += "/-- parse_array's comprehension and the parser it applies (source text) -/\n"
    t += "def arrayComprehension : String := %s\ndef arrayParser : String := %s\n" % (lean_str(ar[0]), lean_str(ar[1]))
    t += "/-- the str-valued members of the OrsoTypes enum -/\ndef typeNames : List String := %s\n" % lean_list(tn, lean_str)
    t += ("/-- OrsoTypes.parse: the test of the early `return None` (`isNone`: value is None; `falsy`: not value) -/\n"
          "def nullGuard (isNone falsy : Prop) : Prop := %s\n" % pmth[0])
    t += "instance (a b : Prop) [Decidable a] [Decidable b] : Decidable (nullGuard a b) := by unfold nullGuard; infer_instance\n"
    t += "/-- …and the table it dispatches through with `self.value` -/\ndef dispatchTable : String := %s\n" % lean_str(pmth[1])
    t += "/-- parse_boolean: the case fold applied before the membership test -/\ndef boolFold : String := %s\n" % lean_str(bf)
    t += ("/-- parse_integer / parse_double: conversions applied to the argument before the final one (test, function), and the final one -/\n"
          "def integerPre : List (String × String) := %s\ndef integerConv : String := %s\n" % (lean_list(ib[0], pair), lean_str(ib[1])))
    t += "def doublePre : List (String × String) := %s\ndef doubleConv : String := %s\n" % (lean_list(db[0], pair), lean_str(db[1]))
    t += ("/-- parse_array: the classes iterated as they are, and the reader everything else is handed to -/\n"
          "def arrayNative : List String := %s\ndef arrayLoader : String := %s\n" % (lean_list(ad[0], lean_str), lean_str(ad[1])))
    t += ("/-- FlatColumn: the test under which the default is cast (`truthy`: bool(self.default); `isNone`: self.default is None;\n"
          "`isInst`: any isinstance(self.default, …) test), and the cast expression -/\n"
          "def defaultGuard (truthy isNone isInst : Prop) : Prop := %s\n" % dc[0])
    t += "instance (a b c : Prop) [Decidable a] [Decidable b] [Decidable c] : Decidable (defaultGuard a b c) := by unfold defaultGuard; infer_instance\n"
    t += "def defaultCast : String := %s\n" % lean_str(dc[1])
    t += ("/-- what DecimalFactory.__call__ / new_factory / parse_decimal read of the interpreter's state outside their arguments (the calling\n"
          "thread's decimal context: `decimal.getcontext()`, Decimal operators, context-sensitive Decimal methods without `context=`; locale, environment,\n"
          "clock, `sys` settings), as `function: expression` -/\n"
          "def factoryAmbient : List String := %s\n" % lean_list(am[0], lean_str))
    t += "/-- the same for the other parsers of ORSO_TO_PYTHON_PARSER and OrsoTypes.parse -/\ndef parserAmbient : List String := %s\n" % lean_list(am[1], lean_str)
    t += "end Gen.Cast\n"
    o.files["Cast.lean"] = t
