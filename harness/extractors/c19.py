"""C19: the atomic-step programs of the two cache wrappers in orso/tools.py.

For every source line of a wrapper body the extractor determines, from the AST, which
shared state the line reads or writes (the cache cell / its slots, the clock, the wrapped
function) and turns it into the micro-operations of `Model/Cache.lean`.  Lines that touch
only locals are merged into the preceding line (they commute with every step of every
other thread); the line numbers of the remaining "step lines" go to generated.json so the
scheduler harness can project a real line trace onto model steps.

Unknown shapes raise -> `o.item` falls back to the pinned value and records a degradation;
the harness then skips the per-schedule model comparison and relies on the oracle.
"""
import ast
import os

from .. import core
from ..extract import HEADER, Src, lean_list, lean_str

PINNED_SINGLE = {
    "lines": [
        ["clk"],
        ["rd.args", "rd.kwargs", "rd.result", "rd.time", "test.args", "test.kwargs", "test.time", "retHit"],
        ["call"],
        ["wr.args", "wr.kwargs", "wr.result", "wr.time", "retMiss"],
    ],
    "linenos": [440, 442, 450, 451],
    "all_lines": {},
    "fresh_op": "<=",
}
PINNED_LRU = {
    "lines": [[487, "clk"], [490, "lock1"], [492, "iter"], [498, "del"], [501, "in"], [503, "move"], [504, "get"],
              [507, "call"], [509, "lock2"], [510, "store"], [513, "len"], [514, "pop"]],
    "locked": [["lock1", ["iter", "del", "in", "move", "get"]], ["lock2", ["store", "len", "pop"]]],
    "lock_kind": "RLock",
    "expire_op": ">",
    "pop_last": False,
    "result_index": [1, 1],
    "key_form": "tuple(args, frozenset(kwargs.items()))",
}

PINNED_GLUE = {
    "single": ["guard:func is None", "forward:valid_for_seconds", "cache:per-function", "init:no-entry", "return:wrapper"],
    "lru": ["guard:func is None", "forward:max_size", "forward:valid_for_seconds", "cache:per-function", "lock:per-function", "init:no-entry", "return:wrapper"],
}
PINNED_SITES = [
    {"module": "orso.dataframe", "qualname": "DataFrame.column_names", "decorator": "single_item_cache", "form": "bare", "others": ["property"], "nested": False},
    {"module": "orso.dataframe", "qualname": "DataFrame.columncount", "decorator": "single_item_cache", "form": "bare", "others": ["property"], "nested": False},
]
DECORATORS = ("single_item_cache", "lru_cache_with_expiry")

CMP = {ast.LtE: "<=", ast.Lt: "<", ast.GtE: ">=", ast.Gt: ">", ast.Eq: "==", ast.NotEq: "!="}


def _wrapper(src, outer):
    fn = src.func(outer)
    for n in ast.walk(fn):
        if isinstance(n, ast.FunctionDef) and n.name == "wrapper":
            return n
    raise KeyError("wrapper of " + outer)


def _is_name(n, name=None):
    return isinstance(n, ast.Name) and (name is None or n.id == name)


def _slot(n, cell):
    """`cache["slot"]` -> slot name, else None"""
    if isinstance(n, ast.Subscript) and _is_name(n.value, cell) and isinstance(n.slice, ast.Constant):
        return n.slice.value
    return None


def single(src):
    w = _wrapper(src, "single_item_cache")
    cell = "cache"
    varg = w.args.vararg.arg
    vkw = w.args.kwarg.arg
    time_var = result_var = None
    ops = []  # (lineno, col, op)
    slot_field = {}  # dict-slot name or local snapshot name -> field
    fresh_op = None
    body = [s for s in w.body if not isinstance(s, (ast.Nonlocal, ast.Expr))]

    def field_of_value(n):
        if _is_name(n, varg):
            return "args"
        if _is_name(n, vkw):
            return "kwargs"
        if result_var and _is_name(n, result_var):
            return "result"
        if time_var and _is_name(n, time_var):
            return "time"
        raise KeyError("published value")

    # first pass: find the variables and what is published where
    for s in body:
        if isinstance(s, ast.Assign) and len(s.targets) == 1 and _is_name(s.targets[0]) and isinstance(s.value, ast.Call):
            f = s.value.func
            if isinstance(f, ast.Attribute) and f.attr == "time" and _is_name(f.value, "time"):
                time_var = s.targets[0].id
            elif _is_name(f, "func"):
                result_var = s.targets[0].id
    if not time_var or not result_var:
        raise KeyError("clock / call statements")
    publish = None
    for s in body:
        if isinstance(s, ast.Assign) and len(s.targets) == 1:
            t = s.targets[0]
            if _slot(t, cell) is not None:
                slot_field[_slot(t, cell)] = field_of_value(s.value)
            elif _is_name(t, cell) and isinstance(s.value, ast.Tuple):
                publish = [field_of_value(e) for e in s.value.elts]
    unpack_names = {}
    for s in body:
        if isinstance(s, ast.Assign) and len(s.targets) == 1 and isinstance(s.targets[0], ast.Tuple) and _is_name(s.value, cell):
            if publish is None or len(publish) != len(s.targets[0].elts):
                raise KeyError("snapshot unpack does not match the published tuple")
            for e, f in zip(s.targets[0].elts, publish):
                if not _is_name(e):
                    raise KeyError("unpack target")
                unpack_names[e.id] = f

    def read_of(n):
        """expression holding a cached field -> (field, ops to get it)"""
        sl = _slot(n, cell)
        if sl is not None:
            f = slot_field[sl]
            return f, [(n.lineno, n.col_offset, "rd." + f)]
        if _is_name(n) and n.id in unpack_names:
            return unpack_names[n.id], []
        raise KeyError("cached field expression")

    seen_call = False
    for s in body:
        if isinstance(s, ast.Assign) and len(s.targets) == 1:
            t, v = s.targets[0], s.value
            if _is_name(t, time_var) and isinstance(v, ast.Call):
                ops.append((s.lineno, s.col_offset, "clk"))
            elif _is_name(t, result_var) and isinstance(v, ast.Call):
                ops.append((s.lineno, s.col_offset, "call"))
                seen_call = True
            elif isinstance(t, ast.Tuple) and _is_name(v, cell):
                for i, f in enumerate(publish):
                    ops.append((s.lineno, s.col_offset + i, "rd." + f))
            elif _slot(t, cell) is not None:
                ops.append((s.lineno, s.col_offset, "wr." + slot_field[_slot(t, cell)]))
            elif _is_name(t, cell) and isinstance(v, ast.Tuple):
                for i, f in enumerate(publish):
                    ops.append((s.lineno, s.col_offset + i, "wr." + f))
            else:
                raise KeyError("unrecognised assignment at line %d" % s.lineno)
        elif isinstance(s, ast.If):
            if s.orelse or len(s.body) != 1 or not isinstance(s.body[0], ast.Return):
                raise KeyError("hit branch shape")
            conds = s.test.values if isinstance(s.test, ast.BoolOp) and isinstance(s.test.op, ast.And) else [s.test]
            for c in conds:
                if not (isinstance(c, ast.Compare) and len(c.ops) == 1):
                    raise KeyError("comparison shape")
                if isinstance(c.ops[0], ast.Eq):
                    f, rd = read_of(c.left)
                    if f != field_of_value(c.comparators[0]) or f not in ("args", "kwargs"):
                        raise KeyError("compares a cached field with the wrong argument")
                    ops.extend(rd)
                    ops.append((c.lineno, c.col_offset + 1000, "test." + f))
                else:
                    if not (isinstance(c.left, ast.BinOp) and isinstance(c.left.op, ast.Sub) and _is_name(c.left.left, time_var)
                            and _is_name(c.comparators[0], "valid_for_seconds")):
                        raise KeyError("validity test shape")
                    f, rd = read_of(c.left.right)
                    if f != "time":
                        raise KeyError("validity test reads the wrong field")
                    fresh_op = CMP[type(c.ops[0])]
                    ops.extend(rd)
                    ops.append((c.lineno, c.col_offset + 1000, "test.time"))
            r = s.body[0]
            f, rd = read_of(r.value)
            if f != "result":
                raise KeyError("hit branch returns the wrong field")
            ops.extend(rd)
            ops.append((r.lineno, r.col_offset + 1000, "retHit"))
        elif isinstance(s, ast.Return):
            if not (seen_call and _is_name(s.value, result_var)):
                raise KeyError("final return")
            ops.append((s.lineno, s.col_offset, "retMiss"))
        else:
            raise KeyError("unrecognised statement at line %d" % s.lineno)
    if fresh_op is None:
        raise KeyError("no validity test")
    ops.sort()
    by_line = []
    for ln, _, op in ops:
        if by_line and by_line[-1][0] == ln:
            by_line[-1][1].append(op)
        else:
            by_line.append([ln, [op]])
    all_lines = {str(ln): o for ln, o in by_line}
    merged = []
    for ln, o in by_line:
        local = all(x.startswith("test.") or x in ("retHit", "retMiss") for x in o)
        if local and merged:
            merged[-1][1].extend(o)
        else:
            merged.append([ln, list(o)])
    return {"lines": [o for _, o in merged], "linenos": [ln for ln, _ in merged], "all_lines": all_lines, "fresh_op": fresh_op}


def lru(src):
    w = _wrapper(src, "lru_cache_with_expiry")
    cell = "cache"
    lines = []
    expire_op = pop_last = None
    res_idx = [None, None]
    time_var = result_var = key_var = key_form = None
    # `with lock:` blocks (lock = a threading lock created next to the cache, in the decorator's
    # scope): the `with` line is a step of its own (acquire when entered, release when the block
    # is left: CPython attributes the call of __exit__ to the `with` line), the statements of
    # the block follow in source order; `locked` records which shared-state lines each block guards.
    outer = src.func("lru_cache_with_expiry")
    lock_names = {}
    for n in outer.body:
        if (isinstance(n, (ast.Assign, ast.AnnAssign)) and isinstance(n.value, ast.Call)
                and isinstance(n.value.func, ast.Attribute) and n.value.func.attr in ("Lock", "RLock")
                and _is_name(n.value.func.value, "threading")):
            t = n.targets[0] if isinstance(n, ast.Assign) else n.target
            if _is_name(t):
                lock_names[t.id] = n.value.func.attr
    locked = []
    lock_kinds = set()
    body = []

    def flatten(stmts, inside):
        for s in stmts:
            if isinstance(s, ast.With):
                if inside is not None or len(s.items) != 1 or s.items[0].optional_vars is not None or not _is_name(s.items[0].context_expr):
                    raise KeyError("with statement shape at line %d" % s.lineno)
                nm = s.items[0].context_expr.id
                if nm not in lock_names:
                    raise KeyError("with statement on something that is not a lock of the decorator's scope")
                lock_kinds.add(lock_names[nm])
                kind = "lock%d" % (len(locked) + 1)
                locked.append([kind, []])
                body.append((("with", kind, s.lineno), None))
                flatten(s.body, locked[-1][1])
            else:
                body.append((s, inside))

    flatten(w.body, None)
    for s, inside in body:
        if isinstance(s, tuple):
            lines.append([s[2], s[1]])
            continue
        if isinstance(s, (ast.Nonlocal, ast.Expr)) and not (isinstance(s, ast.Expr) and isinstance(s.value, ast.Call)):
            continue
        if isinstance(s, ast.Assign) and len(s.targets) == 1:
            t, v = s.targets[0], s.value
            if _is_name(t) and isinstance(v, ast.Call) and isinstance(v.func, ast.Attribute) and v.func.attr == "time":
                time_var = t.id
                lines.append([s.lineno, "clk"])
            elif _is_name(t) and key_var is None and len(lines) == 1 and not isinstance(v, ast.ListComp):
                key_var = t.id  # key = (args, frozenset(kwargs.items())): local, but HOW it is built decides what "equal arguments" means
                va, vk = w.args.vararg.arg, w.args.kwarg.arg
                fs = v.elts[1] if isinstance(v, ast.Tuple) and len(v.elts) == 2 else None
                if (fs is not None and _is_name(v.elts[0], va) and isinstance(fs, ast.Call) and _is_name(fs.func, "frozenset")
                        and len(fs.args) == 1 and not fs.keywords and isinstance(fs.args[0], ast.Call) and not fs.args[0].args
                        and isinstance(fs.args[0].func, ast.Attribute) and fs.args[0].func.attr == "items"
                        and _is_name(fs.args[0].func.value, vk)):
                    key_form = "tuple(args, frozenset(kwargs.items()))"
                else:
                    key_form = "other: " + ast.unparse(v)[:120]
            elif _is_name(t) and isinstance(v, ast.ListComp):
                g = v.generators[0]
                it = g.iter
                if not (isinstance(it, ast.Call) and isinstance(it.func, ast.Attribute) and it.func.attr == "items"
                        and _is_name(it.func.value, cell) and len(v.generators) == 1 and len(g.ifs) == 1):
                    raise KeyError("expiry comprehension shape")
                if it.lineno == v.lineno:
                    raise KeyError("expiry comprehension on one line (line events differ)")
                c = g.ifs[0]
                if not (isinstance(c, ast.Compare) and isinstance(c.left, ast.BinOp) and isinstance(c.left.op, ast.Sub)
                        and _is_name(c.left.left, time_var) and _is_name(c.comparators[0], "valid_for_seconds")):
                    raise KeyError("expiry test shape")
                expire_op = CMP[type(c.ops[0])]
                lines.append([v.lineno, "iter"])
            elif _is_name(t) and isinstance(v, ast.Call) and _is_name(v.func, "func"):
                result_var = t.id
                lines.append([s.lineno, "call"])
            elif isinstance(t, ast.Subscript) and _is_name(t.value, cell) and _is_name(t.slice, key_var) and isinstance(v, ast.Tuple):
                names = [e.id if _is_name(e) else None for e in v.elts]
                if sorted(map(str, names)) != sorted([time_var, result_var]):
                    raise KeyError("stored tuple")
                res_idx[0] = names.index(result_var)
                lines.append([s.lineno, "store"])
            else:
                raise KeyError("unrecognised assignment at line %d" % s.lineno)
        elif isinstance(s, ast.For):
            if not (len(s.body) == 1 and isinstance(s.body[0], ast.Delete) and isinstance(s.body[0].targets[0], ast.Subscript)
                    and _is_name(s.body[0].targets[0].value, cell) and s.body[0].lineno != s.lineno):
                raise KeyError("sweep loop shape")
            lines.append([s.body[0].lineno, "del"])
        elif isinstance(s, ast.If):
            c = s.test
            if isinstance(c, ast.Compare) and isinstance(c.ops[0], ast.In) and _is_name(c.comparators[0], cell):
                if not _is_name(c.left, key_var):
                    raise KeyError("membership test on something else than the key")
                lines.append([s.lineno, "in"])
                if len(s.body) != 2:
                    raise KeyError("hit branch shape")
                mv, rt = s.body
                if not (isinstance(mv, ast.Expr) and isinstance(mv.value, ast.Call) and isinstance(mv.value.func, ast.Attribute)
                        and mv.value.func.attr == "move_to_end" and _is_name(mv.value.func.value, cell)
                        and len(mv.value.args) == 1 and _is_name(mv.value.args[0], key_var) and not mv.value.keywords):
                    raise KeyError("move_to_end shape")
                lines.append([mv.lineno, "move"])
                r = rt.value if isinstance(rt, ast.Return) else None
                if not (isinstance(r, ast.Subscript) and isinstance(r.slice, ast.Constant) and isinstance(r.value, ast.Subscript)
                        and _is_name(r.value.value, cell) and _is_name(r.value.slice, key_var)):
                    raise KeyError("hit return shape")
                res_idx[1] = r.slice.value
                lines.append([rt.lineno, "get"])
            elif (isinstance(c, ast.Compare) and isinstance(c.ops[0], ast.Gt) and isinstance(c.left, ast.Call)
                  and _is_name(c.left.func, "len") and _is_name(c.left.args[0], cell) and _is_name(c.comparators[0], "max_size")):
                lines.append([s.lineno, "len"])
                p = s.body[0]
                if not (len(s.body) == 1 and isinstance(p, ast.Expr) and isinstance(p.value, ast.Call)
                        and isinstance(p.value.func, ast.Attribute) and p.value.func.attr == "popitem"
                        and _is_name(p.value.func.value, cell)):
                    raise KeyError("popitem shape")
                kw = {k.arg: k.value for k in p.value.keywords}
                if p.value.args:
                    kw["last"] = p.value.args[0]
                pop_last = ast.literal_eval(kw["last"]) if "last" in kw else True
                lines.append([p.lineno, "pop"])
            else:
                raise KeyError("unrecognised if at line %d" % s.lineno)
        elif isinstance(s, ast.Return):
            if not _is_name(s.value, result_var):
                raise KeyError("final return")
        else:
            raise KeyError("unrecognised statement at line %d" % s.lineno)
    if expire_op is None or pop_last is None or None in res_idx or key_form is None:
        raise KeyError("incomplete lru wrapper")
    # which lock block guards which step line: by source position (a step line belongs to the
    # innermost `with` whose span contains it)
    spans = []
    for n in ast.walk(w):
        if isinstance(n, ast.With):
            spans.append((n.lineno, n.end_lineno))
    spans.sort()
    for ln, kind in lines:
        if kind.startswith("lock"):
            continue
        for (a, b), blk in zip(spans, locked):
            if a < ln <= b:
                blk[1].append(kind)
    if len(lock_kinds) > 1:
        raise KeyError("two kinds of lock")
    return {"lines": lines, "expire_op": expire_op, "pop_last": bool(pop_last), "result_index": res_idx, "key_form": key_form,
            "locked": locked, "lock_kind": (sorted(lock_kinds) or ["none"])[0]}


def glue(src, outer):
    """The decorator's own plumbing, as facts: the `func is None` guard and what the factory branch forwards, in which
    scope the cache is created relative to the scope that binds the wrapped function, its initial value, what is returned.

    Two shapes are understood (anything else raises -> pinned value, degradation note, never an alarm):
      A  def D(func=None, *, p=..): if func is None: return lambda f: D(f, p=p); cache = ..; def wrapper..; return wrapper
      B  def D(func=None, *, p=..): def decorator(func): [cache = ..]; def wrapper..; return wrapper
                                    [cache = ..]; return decorator if func is None else decorator(func)   (or the two-statement form)
    `cache:per-function` = the cache is created in the body of the function whose parameter is the wrapped function, i.e. once
    per decorated function; `cache:outer-scope` = in shape B it is created in D's own body: ONE cache for everything a configured
    decorator `d = D(p=..)` is applied to."""
    fn = src.func(outer)
    w = _wrapper(src, outer)
    called = [c.func.id for c in ast.walk(w) if isinstance(c, ast.Call) and isinstance(c.func, ast.Name)
              and any(isinstance(a, ast.Starred) for a in c.args)]
    if len(set(called)) != 1:
        raise KeyError("the call of the wrapped function")
    fvar = called[0]
    body = [b for b in fn.body if not (isinstance(b, ast.Expr) and isinstance(b.value, ast.Constant))]
    kwonly = [a.arg for a in fn.args.kwonlyargs]
    if not fn.args.args or fn.args.args[0].arg != fvar or len(fn.args.args) != 1 or fn.args.vararg or fn.args.kwarg:
        raise KeyError("signature of the decorator")

    def cache_assign(stmts):
        out = []
        for i, b in enumerate(stmts):
            t = b.targets[0] if isinstance(b, ast.Assign) and len(b.targets) == 1 else (b.target if isinstance(b, ast.AnnAssign) else None)
            if t is not None and _is_name(t, "cache") and getattr(b, "value", None) is not None:
                out.append((i, b.value))
        return out

    def is_lock(b):
        t = b.targets[0] if isinstance(b, ast.Assign) and len(b.targets) == 1 else (b.target if isinstance(b, ast.AnnAssign) else None)
        v = getattr(b, "value", None)
        return (t is not None and _is_name(t) and isinstance(v, ast.Call) and not v.args and not v.keywords
                and ast.unparse(v.func) in ("threading.Lock", "threading.RLock"))

    facts = []
    lock_fact = None
    if any(b is w for b in body):
        # shape A
        g = body[0]
        if not (isinstance(g, ast.If) and ast.unparse(g.test) == "%s is None" % fvar and len(g.body) == 1
                and isinstance(g.body[0], ast.Return) and not g.orelse):
            raise KeyError("guard shape")
        facts.append("guard:%s is None" % fvar)
        lam = g.body[0].value
        if not (isinstance(lam, ast.Lambda) and len(lam.args.args) == 1 and isinstance(lam.body, ast.Call) and _is_name(lam.body.func, outer)
                and len(lam.body.args) == 1 and _is_name(lam.body.args[0], lam.args.args[0].arg)):
            raise KeyError("factory branch shape")
        fwd = {}
        for k in lam.body.keywords:
            if k.arg is None or k.arg not in kwonly or not _is_name(k.value):
                raise KeyError("factory branch forwards something unusual")
            fwd[k.arg] = k.value.id
        for a in sorted(kwonly):
            if a not in fwd:
                facts.append("not-forwarded:%s" % a)       # the configured value is dropped: the default applies
            elif fwd[a] != a:
                facts.append("forward:%s=%s" % (a, fwd[a]))  # another parameter's value is passed
            else:
                facts.append("forward:%s" % a)
        rest = body[1:]
        ca = cache_assign(rest)
        widx = [i for i, b in enumerate(rest) if b is w][0]
        if len(ca) != 1 or ca[0][0] > widx:
            raise KeyError("where the cache is created")
        if any(not (b is w or (i == ca[0][0]) or isinstance(b, ast.Return) or (is_lock(b) and i < widx)) for i, b in enumerate(rest)):
            raise KeyError("other statements in the decorator")
        facts.append("cache:per-function")
        if any(is_lock(b) for b in rest):
            lock_fact = "lock:per-function"
        init = ca[0][1]
        ret = [b for b in rest if isinstance(b, ast.Return)]
    else:
        # shape B
        decs = [b for b in body if isinstance(b, ast.FunctionDef) and any(x is w for x in b.body)]
        if len(decs) != 1:
            raise KeyError("enclosing function of wrapper")
        dec = decs[0]
        if [a.arg for a in dec.args.args] != [fvar] or dec.args.vararg or dec.args.kwarg or dec.args.kwonlyargs:
            raise KeyError("signature of the inner decorator")
        others = [b for b in body if b is not dec]
        if any(is_lock(b) for b in others):
            lock_fact = "lock:outer-scope"   # one lock for every function the configured decorator is applied to: still mutual exclusion
            others = [b for b in others if not is_lock(b)]
        elif any(is_lock(b) for b in dec.body):
            lock_fact = "lock:per-function"
        ca_outer, ca_inner = cache_assign(others), cache_assign(dec.body)
        disp = [b for i, b in enumerate(others) if i not in [i for i, _ in ca_outer]]
        texts = [ast.unparse(b) for b in disp]
        d = dec.name
        ok_disp = (texts == ["if %s is None:\n    return %s" % (fvar, d), "return %s(%s)" % (d, fvar)]
                   or texts == ["return %s if %s is None else %s(%s)" % (d, fvar, d, fvar)]
                   or texts == ["if %s is not None:\n    return %s(%s)" % (fvar, d, fvar), "return %s" % d])
        if not ok_disp:
            raise KeyError("dispatch shape")
        if any(a in [x.arg for x in ast.walk(dec) if isinstance(x, ast.arg)] for a in kwonly):
            raise KeyError("a configuration parameter is shadowed")
        facts.append("guard:%s is None" % fvar)
        facts.extend("forward:%s" % a for a in sorted(kwonly))  # closed over: nothing to forward
        widx = [i for i, b in enumerate(dec.body) if b is w][0]
        if len(ca_inner) == 1 and not ca_outer and ca_inner[0][0] < widx:
            facts.append("cache:per-function")
            init = ca_inner[0][1]
        elif len(ca_outer) == 1 and not ca_inner:
            facts.append("cache:outer-scope")
            init = ca_outer[0][1]
        else:
            raise KeyError("where the cache is created")
        ret = [b for b in dec.body if isinstance(b, ast.Return)]
    if lock_fact is not None:
        facts.append(lock_fact)
    facts.append("init:" + _init_kind(init, w))
    if len(ret) != 1 or ret[0].value is None:
        raise KeyError("what the decorator returns")
    facts.append("return:" + ast.unparse(ret[0].value))
    return facts


def _init_kind(init, w):
    """What the initial cache value means for the first call: `no-entry` (it can equal no call / the dict is empty),
    `equals-zero-argument-call` (it IS the argument signature of f()); anything else is not understood (raises)."""
    if isinstance(init, ast.Call) and not init.args and not init.keywords and ast.unparse(init.func) in ("OrderedDict", "collections.OrderedDict", "dict"):
        return "no-entry"
    if isinstance(init, ast.Dict) and not init.keys:
        return "no-entry"
    if isinstance(init, ast.Tuple):
        varg, vkw = w.args.vararg.arg, w.args.kwarg.arg
        pub = [s.value for s in ast.walk(w) if isinstance(s, ast.Assign) and len(s.targets) == 1 and _is_name(s.targets[0], "cache")
               and isinstance(s.value, ast.Tuple)]
        if len(pub) != 1 or len(pub[0].elts) != len(init.elts):
            raise KeyError("published tuple")
        names = [e.id if _is_name(e) else None for e in pub[0].elts]
        if varg not in names or vkw not in names:
            raise KeyError("published tuple fields")
        a, k = init.elts[names.index(varg)], init.elts[names.index(vkw)]
        is_none = lambda n: isinstance(n, ast.Constant) and n.value is None  # noqa: E731
        if is_none(a) or is_none(k):
            return "no-entry"  # None is equal to no tuple of positional arguments / no dict of keyword arguments
        empty_args = isinstance(a, ast.Tuple) and not a.elts or ast.unparse(a) == "tuple()"
        empty_kw = isinstance(k, ast.Dict) and not k.keys or ast.unparse(k) == "dict()"
        if empty_args and empty_kw:
            return "equals-zero-argument-call"
    raise KeyError("initial cache value")


FUNCTOOLS_CACHES = ("lru_cache", "cache", "cached_property")


def use_sites(DECORATORS=DECORATORS):
    """Every `def` in the orso package decorated with one of the two cache decorators (bare, called, through an import alias,
    or through a module-level name bound to a configured decorator).  With DECORATORS extended by FUNCTOOLS_CACHES the
    functools caches are listed too."""
    root = os.path.join(core.REPO, "orso")
    out = []
    for dp, dns, fns in os.walk(root):
        dns[:] = sorted(d for d in dns if d not in ("tests", "__pycache__"))
        for f in sorted(fns):
            if not f.endswith(".py"):
                continue
            path = os.path.join(dp, f)
            try:
                tree = ast.parse(open(path, encoding="utf-8").read())
            except (OSError, SyntaxError):
                continue
            rel = os.path.relpath(path, core.REPO)[:-3].replace(os.sep, ".")
            if rel.endswith(".__init__"):
                rel = rel[: -len(".__init__")]
            names = {d: d for d in DECORATORS} if rel == "orso.tools" else {}
            for n in ast.walk(tree):
                if isinstance(n, ast.ImportFrom):
                    for a in n.names:
                        if a.name in DECORATORS:
                            names[a.asname or a.name] = a.name
            for b in tree.body:  # configured decorators bound to a name
                if isinstance(b, ast.Assign) and len(b.targets) == 1 and _is_name(b.targets[0]) and isinstance(b.value, ast.Call):
                    base = b.value.func
                    nm = base.id if _is_name(base) else (base.attr if isinstance(base, ast.Attribute) else None)
                    if names.get(nm, nm if nm in DECORATORS and isinstance(base, ast.Attribute) else None):
                        names[b.targets[0].id] = names.get(nm, nm) + "(...)"

            def visit(node, path_, nested):
                for ch in ast.iter_child_nodes(node):
                    if isinstance(ch, ast.ClassDef):
                        visit(ch, path_ + [ch.name], nested)
                    elif isinstance(ch, (ast.FunctionDef, ast.AsyncFunctionDef)):
                        others, hit = [], None
                        for d in ch.decorator_list:
                            base = d.func if isinstance(d, ast.Call) else d
                            nm = base.id if _is_name(base) else (base.attr if isinstance(base, ast.Attribute) else None)
                            real = names.get(nm) or (nm if isinstance(base, ast.Attribute) and nm in DECORATORS else None)
                            if real:
                                dargs = ([["#%d" % i, ast.unparse(a)] for i, a in enumerate(d.args)]
                                         + [[k.arg or "**", ast.unparse(k.value)] for k in d.keywords]) if isinstance(d, ast.Call) else []
                                if real.endswith("(...)"):  # a module-level name bound to a configured decorator
                                    dargs = [["(configured elsewhere)", nm]] + dargs
                                hit = (real, "call" if isinstance(d, ast.Call) else "bare", ast.unparse(d), dargs)
                            else:
                                others.append(ast.unparse(d))
                        if hit and not (rel == "orso.tools" and ch.name in DECORATORS):
                            out.append({"module": rel, "qualname": ".".join(path_ + [ch.name]), "decorator": hit[0], "form": hit[1],
                                        "text": hit[2], "args": hit[3], "others": others, "nested": nested, "lineno": ch.lineno})
                        visit(ch, path_ + [ch.name], True)
                    else:
                        visit(ch, path_, nested)

            visit(tree, [], False)
    return out


PINNED_SITE_FACTS = [
    {"name": "orso.dataframe.DataFrame.column_names", "decorator": "single_item_cache", "arity": 1, "is_property": True,
     "receiver_defines_eq": False, "receiver_defines_hash": True, "reads_self_state": ["_schema"]},
    {"name": "orso.dataframe.DataFrame.columncount", "decorator": "single_item_cache", "arity": 1, "is_property": True,
     "receiver_defines_eq": False, "receiver_defines_hash": True, "reads_self_state": ["_schema"]},
]


def site_facts(sites):
    """Per decorated use site (orso's two caches and the functools caches, whole package): key arity (parameters incl. self),
    whether the receiver class defines __eq__ / __hash__ (no __eq__: `(self,) == (self,)` is identity), and which attributes
    of self the wrapped body reads (state the result depends on and that can change while the receiver stays the same object)."""
    out = []
    for st in sites:
        rel = st["module"].replace(".", "/") + ".py"
        tree = Src(rel).tree
        if tree is None:
            tree = Src(st["module"].replace(".", "/") + "/__init__.py").tree
        parts = st["qualname"].split(".")
        scope, cls = tree, None
        for nm in parts:
            nxt = [n for n in scope.body if isinstance(n, (ast.ClassDef, ast.FunctionDef)) and n.name == nm]
            if not nxt:
                raise KeyError("use site " + st["qualname"])
            if isinstance(nxt[0], ast.ClassDef):
                cls = nxt[0]
            scope = nxt[-1] if isinstance(nxt[-1], ast.ClassDef) else nxt[0]
        fn = scope
        a = fn.args
        arity = len(a.posonlyargs) + len(a.args) + len(a.kwonlyargs)
        first = (a.posonlyargs + a.args)[0].arg if (a.posonlyargs + a.args) else None
        reads = sorted({n.attr for n in ast.walk(fn) if isinstance(n, ast.Attribute) and _is_name(n.value, first)}) if cls is not None and first else []
        defs = {b.name for b in cls.body if isinstance(b, ast.FunctionDef)} if cls is not None else set()
        out.append({"name": st["module"] + "." + st["qualname"], "decorator": st["decorator"], "arity": arity,
                    "varargs": bool(a.vararg or a.kwarg), "decorator_args": [list(x) for x in st.get("args", [])], "is_property": "property" in st.get("others", []),
                    "receiver_defines_eq": "__eq__" in defs, "receiver_defines_hash": "__hash__" in defs, "reads_self_state": reads})
    return out


def generate(o):
    src = Src("orso/tools.py")
    s = o.item("c19.single", lambda: single(src), PINNED_SINGLE)
    l = o.item("c19.lru", lambda: lru(src), PINNED_LRU)
    gs = o.item("c19.single_glue", lambda: glue(src, "single_item_cache"), PINNED_GLUE["single"])
    gl = o.item("c19.lru_glue", lambda: glue(src, "lru_cache_with_expiry"), PINNED_GLUE["lru"])
    try:
        df = Src("orso/dataframe.py")
        cls = [n for n in df.tree.body if isinstance(n, ast.ClassDef) and n.name == "DataFrame"][0]
        o.json["c19.dataframe_defines_eq"] = any(isinstance(b, ast.FunctionDef) and b.name == "__eq__" for b in cls.body)
    except Exception:
        o.json["c19.dataframe_defines_eq"] = None
    try:
        o.json["c19.use_sites"] = use_sites()
    except Exception as e:  # never an alarm: the run-time scan still finds the sites
        o.json["c19.use_sites"] = PINNED_SITES
        o.degraded.append("c19.use_sites (%s: %s)" % (type(e).__name__, str(e)[:60]))
    text = HEADER + "namespace Gen.Cache\n"
    text += "/-- single_item_cache wrapper: the source lines that touch shared state, each with its atomic micro-operations (local-only lines merged into the preceding line) -/\n"
    text += "def singleLines : List (List String) := %s\n" % lean_list(s["lines"], lambda ops: lean_list(ops, lean_str))
    text += "/-- comparison operator of the validity test `current_time - last_time <op> valid_for_seconds` (hit when true) -/\n"
    text += "def singleFreshOp : String := %s\n" % lean_str(s["fresh_op"])
    text += "/-- lru_cache_with_expiry wrapper: kinds of the source lines that touch shared state, in source order -/\n"
    text += "def lruLines : List String := %s\n" % lean_list([k for _, k in l["lines"]], lean_str)
    text += "/-- the `with lock:` blocks of the LRU wrapper: which shared-state lines each one guards (the `with` line itself is the acquire step and, when the block is left, the release step) -/\n"
    text += "def lruLocked : List (String × List String) := %s\n" % lean_list(
        l.get("locked", []), lambda b: "(%s, %s)" % (lean_str(b[0]), lean_list(b[1], lean_str)))
    text += "/-- the kind of lock (`threading.RLock` / `threading.Lock`), \"none\" when the wrapper takes no lock -/\n"
    text += "def lruLockKind : String := %s\n" % lean_str(l.get("lock_kind", "none"))
    text += "/-- comparison operator of the expiry sweep `current_time - timestamp <op> valid_for_seconds` (deleted when true) -/\n"
    text += "def lruExpireOp : String := %s\n" % lean_str(l["expire_op"])
    text += "/-- the `last=` argument of `cache.popitem` -/\n"
    text += "def lruPopLast : Bool := %s\n" % ("true" if l["pop_last"] else "false")
    text += "/-- index of the result in the stored tuple, and the index the hit path returns -/\n"
    text += "def lruResultIndex : Nat × Nat := (%d, %d)\n" % tuple(l["result_index"])
    text += "/-- how the LRU wrapper builds the dictionary key from the call's arguments (anything but the tuple of the positional arguments and the frozenset of the keyword items changes what `equal arguments` means, e.g. a hash) -/\n"
    text += "def lruKeyForm : String := %s\n" % lean_str(l.get("key_form", PINNED_LRU["key_form"]))
    text += "/-- the decorator plumbing of single_item_cache: the `func is None` guard, what the factory branch forwards, the scope in which the cache is created (per decorated function, or an outer scope shared by everything one configured decorator is applied to), its initial value, what is returned -/\n"
    text += "def singleGlue : List String := %s\n" % lean_list(gs, lean_str)
    text += "/-- the same for lru_cache_with_expiry -/\n"
    text += "def lruGlue : List String := %s\n" % lean_list(gl, lean_str)
    facts = o.item("c19.site_facts", lambda: site_facts(use_sites(DECORATORS + FUNCTOOLS_CACHES)), PINNED_SITE_FACTS)
    b = lambda v: "true" if v else "false"
    text += "/-- one decorated use site of a cache in the orso package -/\n"
    text += "structure Site where\n  name : String\n  decorator : String\n  arity : Nat\n  isProperty : Bool\n  receiverDefinesEq : Bool\n  receiverDefinesHash : Bool\n  readsSelfState : List String\n  decoratorArgs : List (String × String)\n  deriving Repr, DecidableEq\n"
    text += "/-- every decorated use site found by parsing orso/**/*.py (the decorators' own definitions excluded); `decoratorArgs`: the arguments the decorator is CALLED with at the site, as (keyword or #position, source text), [] for the bare form -/\n"
    text += "def useSites : List Site := %s\n" % lean_list(facts, lambda f: "{ name := %s, decorator := %s, arity := %d, isProperty := %s, receiverDefinesEq := %s, receiverDefinesHash := %s, readsSelfState := %s, decoratorArgs := %s }" % (
        lean_str(f["name"]), lean_str(f["decorator"]), f["arity"], b(f["is_property"]), b(f["receiver_defines_eq"]), b(f["receiver_defines_hash"]), lean_list(f["reads_self_state"], lean_str),
        lean_list(f.get("decorator_args", []), lambda a: "(%s, %s)" % (lean_str(a[0]), lean_str(a[1])))))
    text += "end Gen.Cache\n"
    o.files["Cache.lean"] = text
