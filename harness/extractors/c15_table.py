"""C15: the glue of TableProfile.__add__ (orso/profiler/profiler.py) around ColumnProfile.__add__ — what stands in for a
column that one side lacks (the profile of a batch without rows has no columns), lifted into Generated/ProfileTable.lean.

Read off the method:
* `left_rows = self._columns[0].count if self._columns else 0` (and the same for the right side): recognised as "the
  rows of that side"; any other right-hand side is outside the grammar;
* in the loop over `self._column_names`: `if not right_column: right_column = ColumnProfile(name, type, C, M)` — the count
  C and missing M of the stand-in, each one of: the rows of the left side, the rows of the right side, `left_column.count`, a literal;
* whether a second loop over `right_profile._column_names` adds the columns only the right side has, and its stand-in.
A shape that is not recognised degrades to the pinned values (`extraction_degraded`).
"""
import ast

from ..extract import HEADER, Src

PINNED = {"right_missing": ["rightRows", "rightRows"], "left_missing": ["leftRows", "leftRows"], "keeps_right_only": True}


def pinned_json():
    return {"proftable.right_missing": PINNED["right_missing"], "proftable.left_missing": PINNED["left_missing"],
            "proftable.keeps_right_only": PINNED["keeps_right_only"]}


class Shape(Exception):
    pass


def _rows_of(expr):
    """`X._columns[0].count if X._columns else 0` -> 'self' / 'right_profile'."""
    if not isinstance(expr, ast.IfExp):
        raise Shape("rows expression")
    t, b, o = ast.unparse(expr.test), ast.unparse(expr.body), ast.unparse(expr.orelse)
    for side in ("self", "right_profile"):
        if t == "%s._columns" % side and b == "%s._columns[0].count" % side and o == "0":
            return side
    raise Shape("rows expression " + ast.unparse(expr)[:50])


def _analyse(fn):
    names = {}
    for s in fn.body:
        if isinstance(s, ast.Assign) and len(s.targets) == 1 and isinstance(s.targets[0], ast.Name) and isinstance(s.value, ast.IfExp):
            names[s.targets[0].id] = {"self": "leftRows", "right_profile": "rightRows"}[_rows_of(s.value)]

    def term(e, own):
        if isinstance(e, ast.Name) and e.id in names:
            return names[e.id]
        if ast.unparse(e) == own + ".count":
            return "otherCount"
        if isinstance(e, ast.Constant) and isinstance(e.value, int) and not isinstance(e.value, bool) and e.value >= 0:
            return "%d" % e.value
        raise Shape("stand-in argument " + ast.unparse(e)[:40])

    def standin(loop, var, own):
        for n in ast.walk(loop):
            if (isinstance(n, ast.Assign) and len(n.targets) == 1 and isinstance(n.targets[0], ast.Name) and n.targets[0].id == var
                    and isinstance(n.value, ast.Call) and isinstance(n.value.func, ast.Name) and n.value.func.id == "ColumnProfile"):
                a = n.value.args
                if len(a) != 4 or n.value.keywords:
                    raise Shape("ColumnProfile(...) arguments")
                return [term(a[2], own), term(a[3], own)]
        raise Shape("no stand-in for " + var)

    loops = [s for s in fn.body if isinstance(s, ast.For)]
    left_loop = [l for l in loops if ast.unparse(l.iter) == "self._column_names"]
    right_loop = [l for l in loops if ast.unparse(l.iter) == "right_profile._column_names"]
    if len(left_loop) != 1 or len(right_loop) > 1 or len(loops) != len(left_loop) + len(right_loop):
        raise Shape("loops")
    rm = standin(left_loop[0], "right_column", "left_column")
    if right_loop:
        lm = standin(right_loop[0], "left_column", "right_column")
        guard = [n for n in ast.walk(right_loop[0]) if isinstance(n, ast.If)]
        if len(guard) != 1 or ast.unparse(guard[0].test) != "column_name not in self._column_names":
            raise Shape("guard of the second loop")
        if not any(isinstance(n, ast.Call) and ast.unparse(n.func) == "new_profile.add_column" for n in ast.walk(guard[0])):
            raise Shape("second loop does not add the column")
        return rm, lm, True
    return rm, PINNED["left_missing"], False


def generate(o):
    src = Src("orso/profiler/profiler.py")

    def fn():
        return src.func("__add__", "TableProfile")

    rm = o.item("proftable.right_missing", lambda: _analyse(fn())[0], PINNED["right_missing"])
    lm = o.item("proftable.left_missing", lambda: _analyse(fn())[1], PINNED["left_missing"])
    ko = o.item("proftable.keeps_right_only", lambda: _analyse(fn())[2], PINNED["keeps_right_only"])
    t = HEADER + "/-! TableProfile.__add__ (orso/profiler/profiler.py): the stand-in for a column one side lacks (harness/extractors/c15_table.py). -/\n"
    t += "namespace Gen.ProfileTable\n\n"
    t += ("/-- `ColumnProfile(name, type, count, missing)` standing in for a column the RIGHT side lacks: (count, missing), in terms of\n"
          "the rows of the two sides and the count of the column on the side that has it -/\n")
    t += "def rightMissing (leftRows rightRows otherCount : Nat) : Nat × Nat := (%s, %s)\n" % tuple(rm)
    t += "/-- …standing in for a column the LEFT side lacks (meaningful when `keepsRightOnly`) -/\n"
    t += "def leftMissing (leftRows rightRows otherCount : Nat) : Nat × Nat := (%s, %s)\n" % tuple(lm)
    t += "/-- the columns only the right side has are added too (a second loop over `right_profile._column_names`) -/\n"
    t += "def keepsRightOnly : Bool := %s\n" % ("true" if ko else "false")
    t += "end Gen.ProfileTable\n"
    o.files["ProfileTable.lean"] = t
