"""C18: the `if` chains of `type_formatter` and `numpy_type_mapper` (orso/display.py), lifted from the AST.

Generated/DisplayFmt.lean holds, in source order, every test of `type_formatter` as a term of the guard
language `PyKinds.G` (isinstance / `is None` / hasattr / isnan, and / or / not), the colour token the
branch writes and what the branch reads from `value` (attributes, iteration, inner tests) — and the
decision tree of `numpy_type_mapper` with the conversion each leaf returns.  Props/C18.lean proves over
the generated chain that every value kind of the statement is formatted without an exception and reaches
its own branch (the ORDER of the tests is what is extracted: bool before int, datetime before date,
hasattr(days) before list/tuple).  A shape the translator does not know degrades to the pinned text.
"""
import ast
import re

from ..extract import HEADER, Src
from ..pyexpr import find_function

CLS = {"bool": "bool", "int": "int", "float": "float", "decimal.Decimal": "decimal", "str": "str",
       "datetime.datetime": "datetime", "datetime.date": "date", "datetime.time": "time",
       "datetime.timedelta": "timedelta", "bytes": "bytes", "bytearray": "bytearray", "dict": "dict",
       "list": "list", "tuple": "tuple", "set": "set", "frozenset": "frozenset", "complex": "complex",
       "numpy.generic": "npGeneric", "numpy.ndarray": "npNdarray", "numpy.timedelta64": "npTimedelta64"}
ATTRS = ["days", "months", "nanoseconds", "microseconds", "seconds", "strftime", "decode", "items", "tolist", "dtype",
         "rjust", "ljust", "astype"]
NPCLS = {"numpy.integer": "integer", "numpy.floating": "floating", "numpy.bool_": "bool_", "numpy.ndarray": "ndarray"}

PINNED_MAPGUARD = "[.npGeneric, .npNdarray]"
PINNED_BRANCHES = None  # set below (text as generated from the repaired tree)
PINNED_MAPPER = None


class Unknown(Exception):
    pass


def _chars(s):
    return "[" + ", ".join("Char.ofNat %d" % ord(c) for c in s) + "]"


def classes(node):
    elts = node.elts if isinstance(node, ast.Tuple) else [node]
    out = []
    for e in elts:
        t = ast.unparse(e)
        if t not in CLS:
            raise Unknown("class " + t)
        out.append("." + CLS[t])
    return "[" + ", ".join(out) + "]"


def guard(n, var="value"):
    if isinstance(n, ast.BoolOp):
        op = ".and" if isinstance(n.op, ast.And) else ".or"
        parts = [guard(v, var) for v in n.values]
        out = parts[-1]
        for p in reversed(parts[:-1]):
            out = "(%s %s %s)" % (op, p, out)
        return out
    if isinstance(n, ast.UnaryOp) and isinstance(n.op, ast.Not):
        return "(.not %s)" % guard(n.operand, var)
    if isinstance(n, ast.Compare) and len(n.ops) == 1 and ast.unparse(n.left) == var and isinstance(n.comparators[0], ast.Constant) \
            and n.comparators[0].value is None:
        if isinstance(n.ops[0], ast.Is):
            return ".isNone"
        if isinstance(n.ops[0], ast.IsNot):
            return "(.not .isNone)"
    if isinstance(n, ast.Call) and not n.keywords:
        f = ast.unparse(n.func)
        if f == "isinstance" and len(n.args) == 2 and ast.unparse(n.args[0]) == var:
            return "(.isInst %s)" % classes(n.args[1])
        if f == "hasattr" and len(n.args) == 2 and ast.unparse(n.args[0]) == var and isinstance(n.args[1], ast.Constant) \
                and n.args[1].value in ATTRS:
            return "(.hasAttr .%s)" % n.args[1].value
        if f in ("isnan", "math.isnan") and len(n.args) == 1 and ast.unparse(n.args[0]) == var:
            return ".isNan"
    raise Unknown("test " + ast.unparse(n)[:60])


def reads(node, var="value"):
    """(attributes of `var` read, iterated?) inside one statement / expression."""
    attrs, it = [], False
    for n in ast.walk(node):
        if isinstance(n, ast.Attribute) and isinstance(n.value, ast.Name) and n.value.id == var:
            if n.attr not in ATTRS:
                raise Unknown("attribute " + n.attr)
            if n.attr not in attrs:
                attrs.append(n.attr)
        if isinstance(n, ast.Call) and ast.unparse(n.func) in ("map", "list", "tuple", "sorted", "enumerate", "iter", "set") \
                and any(isinstance(a, ast.Name) and a.id == var for a in n.args[-1:]):
            it = True
        if isinstance(n, ast.Call) and isinstance(n.func, ast.Attribute) and n.func.attr == "join" \
                and any(isinstance(a, ast.Name) and a.id == var for a in n.args):
            it = True
        if isinstance(n, (ast.For, ast.comprehension)) and isinstance(n.iter, ast.Name) and n.iter.id == var:
            it = True
    return attrs, it


def body(stmts, acc=None, it=False, var="value"):
    acc = list(acc or [])
    for i, st in enumerate(stmts):
        if isinstance(st, ast.If) and any(isinstance(n, ast.Name) and n.id == var for n in ast.walk(st.test)):
            g = guard(st.test, var)
            rest = stmts[i + 1:]
            return "(.ite %s %s %s)" % (g, body(list(st.body) + rest, acc, it, var), body(list(st.orelse) + rest, acc, it, var))
        a, t = reads(st, var)
        acc += [x for x in a if x not in acc]
        it = it or t
        assigns_var = isinstance(st, (ast.Assign, ast.AugAssign, ast.AnnAssign)) and any(
            isinstance(n, ast.Name) and n.id == var and isinstance(n.ctx, ast.Store) for n in ast.walk(st))
        if assigns_var or isinstance(st, ast.Return):
            break  # from here on `value` is the text that was just built
    return "(.leaf [%s] %s)" % (", ".join("." + a for a in acc), "true" if it else "false")


def first_token(stmts):
    """The colour token the branch writes first: the leftmost one of the `return` expression, else the
    earliest one in the text the branch builds."""
    best = None
    rets = [st for st in stmts if isinstance(st, ast.Return)]
    for group in (rets, stmts):
        best = _earliest(group)
        if best:
            return best
    return ""


def _earliest(stmts):
    best = None
    for st in stmts:
        for n in ast.walk(st):
            if isinstance(n, ast.Constant) and isinstance(n.value, str):
                m = re.search("\x01([A-Z_]+)m", n.value)
                if m and (best is None or (n.lineno, n.col_offset) < best[0]):
                    best = ((n.lineno, n.col_offset), m.group(0))
    return best[1] if best else ""


def layout(stmts):
    """(.pad, .cut) of a branch, read off its `return` expression."""
    rets = [st for st in stmts if isinstance(st, ast.Return)]
    if len(rets) != 1 or rets[0].value is None:
        raise Unknown("return of a branch")
    r = rets[0].value
    cut = ".uncut"
    for n in ast.walk(r):
        if isinstance(n, ast.Subscript) and isinstance(n.slice, ast.Slice) and n.slice.lower is None and n.slice.step is None \
                and n.slice.upper is not None and ast.unparse(n.slice.upper) == "width":
            cut = ".slice"
        if isinstance(n, ast.Call) and ast.unparse(n.func) == "trunc_printable":
            if len(n.args) != 2 or n.keywords or ast.unparse(n.args[1]) != "width":
                raise Unknown("trunc_printable arguments")
            cut = ".trunc"
    pads = [n.func.attr for n in ast.walk(r) if isinstance(n, ast.Call) and isinstance(n.func, ast.Attribute) and n.func.attr in ("rjust", "ljust")
            and len(n.args) == 1 and ast.unparse(n.args[0]) == "width"]
    if len(set(pads)) > 1:
        raise Unknown("two paddings")
    return "." + pads[0] if pads else ".nopad", cut


def formatter_chain(tf):
    args = [a.arg for a in tf.args.args]
    if not args or args[0] != "value":
        raise Unknown("first parameter is not `value`")
    stmts = list(tf.body)
    if not stmts:
        raise Unknown("empty")
    pre = stmts[0]
    if not (isinstance(pre, ast.If) and not pre.orelse and len(pre.body) == 1 and isinstance(pre.body[0], ast.Assign)
            and ast.unparse(pre.body[0].targets[0]) == "value" and "numpy_type_mapper(value)" == ast.unparse(pre.body[0].value)
            and isinstance(pre.test, ast.Call) and ast.unparse(pre.test.func) == "isinstance" and ast.unparse(pre.test.args[0]) == "value"):
        raise Unknown("first statement is not the numpy mapping step")
    mapguard = classes(pre.test.args[1])
    out = []
    for st in stmts[1:]:
        if isinstance(st, ast.If) and not st.orelse and any(isinstance(n, ast.Return) for n in ast.walk(st)):
            if not isinstance(st.body[-1], ast.Return):
                raise Unknown("branch does not end in return")
            out.append("{ guard := %s, token := %s, body := %s, pad := %s, cut := %s }"
                       % ((guard(st.test), _chars(first_token(st.body)), body(st.body)) + layout(st.body)))
        elif isinstance(st, ast.Return):
            out.append("{ guard := .always, token := %s, body := %s, pad := %s, cut := %s }"
                       % ((_chars(first_token([st])), body([st])) + layout([st])))
            break
        else:
            raise Unknown("statement " + type(st).__name__)
    else:
        raise Unknown("no final return")
    return mapguard, "[\n  " + ",\n  ".join(out) + "]"


def nguard(n, units=(), tables=None):
    """`units`: names bound to `numpy.datetime_data(value.dtype)[0]` by an earlier assignment; `tables`: the
    module-level dict / tuple literals (a membership test in one whose keys are Y and M is the calendar test)."""
    t = ast.unparse(n)
    if isinstance(n, ast.Compare) and len(n.ops) == 1 and isinstance(n.ops[0], ast.In) \
            and (ast.unparse(n.left) == "numpy.datetime_data(value.dtype)[0]" or ast.unparse(n.left) in units):
        c = n.comparators[0]
        keys = None
        if isinstance(c, (ast.Tuple, ast.List, ast.Set)):
            keys = ast.literal_eval(c)
        elif isinstance(c, ast.Name) and tables is not None and c.id in tables:
            keys = tables[c.id]
        if keys is not None and sorted(keys) == ["M", "Y"]:
            return ".calUnit"
    if isinstance(n, ast.Call) and not n.keywords:
        f = ast.unparse(n.func)
        if f == "isinstance" and len(n.args) == 2 and ast.unparse(n.args[0]) == "value":
            cs = sorted(ast.unparse(e) for e in (n.args[1].elts if isinstance(n.args[1], ast.Tuple) else [n.args[1]]))
            if cs == ["numpy.ndarray"]:
                return ".isNdarray"
            if cs == ["numpy.timedelta64"]:
                return ".isTd64"
        if f == "numpy.isnat" and len(n.args) == 1 and ast.unparse(n.args[0]) == "value":
            return ".isNaT"
        if f == "numpy.issubdtype" and len(n.args) == 2 and ast.unparse(n.args[0]) == "value.dtype" and ast.unparse(n.args[1]) in NPCLS:
            return "(.subdtype .%s)" % NPCLS[ast.unparse(n.args[1])]
    raise Unknown("mapper test " + t[:60])


def nres(e):
    t = ast.unparse(e)
    if isinstance(e, ast.Constant) and e.value is None:
        return ".none"
    if t == "value.tolist()":
        return ".tolist"
    if isinstance(e, ast.Call) and ast.unparse(e.func) in ("SimpleNamespace", "types.SimpleNamespace") and not e.args \
            and sorted(k.arg for k in e.keywords) == ["days", "months", "nanoseconds"]:
        return ".namespace_"
    for f in ("int", "float", "bool", "list", "str"):
        if t == "%s(value)" % f:
            return "." + f
    raise Unknown("mapper result " + t[:60])


def _targets(st):
    out = []
    for t in st.targets:
        out += list(t.elts) if isinstance(t, ast.Tuple) else [t]
    return out


def nbody(stmts, units=(), tables=None):
    units = tuple(units)
    for i, st in enumerate(stmts):
        if isinstance(st, ast.If):
            if st.orelse or not isinstance(st.body[-1], ast.Return):
                raise Unknown("mapper branch shape")
            return "(.ite %s %s %s)" % (nguard(st.test, units, tables), nbody(list(st.body), units, tables), nbody(stmts[i + 1:], units, tables))
        if isinstance(st, ast.Return):
            return "(.ret %s)" % nres(st.value)
        if isinstance(st, (ast.ImportFrom, ast.Import)):
            continue
        if isinstance(st, ast.Assign) and all(isinstance(t, ast.Name) and t.id != "value" for t in _targets(st)):
            # `unit, step = numpy.datetime_data(value.dtype)[:2]` / `unit = numpy.datetime_data(value.dtype)[0]` name the unit
            v, tg = ast.unparse(st.value), st.targets[0]
            bound = {t.id for t in _targets(st)}
            units = tuple(u for u in units if u not in bound)
            if len(st.targets) == 1 and isinstance(tg, ast.Tuple) and tg.elts and v in ("numpy.datetime_data(value.dtype)", "numpy.datetime_data(value.dtype)[:2]"):
                units += (tg.elts[0].id,)
            elif len(st.targets) == 1 and isinstance(tg, ast.Name) and v == "numpy.datetime_data(value.dtype)[0]":
                units += (tg.id,)
            continue
        raise Unknown("mapper statement " + type(st).__name__)
    raise Unknown("mapper falls off the end")


PINNED_BRANCHES = """[
  { guard := (.or .isNone (.and (.isInst [.float]) .isNan)), token := [Char.ofNat 1, Char.ofNat 78, Char.ofNat 85, Char.ofNat 76, Char.ofNat 76, Char.ofNat 109], body := (.leaf [] false), pad := .rjust, cut := .slice },
  { guard := (.isInst [.bool]), token := [Char.ofNat 1, Char.ofNat 67, Char.ofNat 79, Char.ofNat 78, Char.ofNat 83, Char.ofNat 84, Char.ofNat 109], body := (.leaf [] false), pad := .rjust, cut := .slice },
  { guard := (.isInst [.int]), token := [Char.ofNat 1, Char.ofNat 73, Char.ofNat 78, Char.ofNat 84, Char.ofNat 69, Char.ofNat 71, Char.ofNat 69, Char.ofNat 82, Char.ofNat 109], body := (.leaf [] false), pad := .rjust, cut := .slice },
  { guard := (.isInst [.float, .decimal]), token := [Char.ofNat 1, Char.ofNat 70, Char.ofNat 76, Char.ofNat 79, Char.ofNat 65, Char.ofNat 84, Char.ofNat 109], body := (.leaf [] false), pad := .rjust, cut := .slice },
  { guard := (.isInst [.str]), token := [Char.ofNat 1, Char.ofNat 86, Char.ofNat 65, Char.ofNat 82, Char.ofNat 67, Char.ofNat 72, Char.ofNat 65, Char.ofNat 82, Char.ofNat 109], body := (.leaf [] false), pad := .ljust, cut := .trunc },
  { guard := (.isInst [.datetime]), token := [Char.ofNat 1, Char.ofNat 68, Char.ofNat 65, Char.ofNat 84, Char.ofNat 69, Char.ofNat 109], body := (.leaf [.strftime] false), pad := .rjust, cut := .trunc },
  { guard := (.isInst [.date]), token := [Char.ofNat 1, Char.ofNat 68, Char.ofNat 65, Char.ofNat 84, Char.ofNat 69, Char.ofNat 109], body := (.leaf [.strftime] false), pad := .rjust, cut := .trunc },
  { guard := (.isInst [.bytes, .bytearray]), token := [Char.ofNat 1, Char.ofNat 66, Char.ofNat 76, Char.ofNat 79, Char.ofNat 66, Char.ofNat 109], body := (.leaf [.decode] false), pad := .ljust, cut := .trunc },
  { guard := (.isInst [.dict]), token := [Char.ofNat 1, Char.ofNat 80, Char.ofNat 85, Char.ofNat 78, Char.ofNat 67, Char.ofNat 109], body := (.leaf [.items] false), pad := .nopad, cut := .trunc },
  { guard := (.hasAttr .days), token := [Char.ofNat 1, Char.ofNat 73, Char.ofNat 78, Char.ofNat 84, Char.ofNat 69, Char.ofNat 82, Char.ofNat 86, Char.ofNat 65, Char.ofNat 76, Char.ofNat 109], body := (.ite (.isInst [.timedelta]) (.leaf [.days, .seconds, .microseconds] false) (.leaf [.days, .months, .nanoseconds] false)), pad := .nopad, cut := .trunc },
  { guard := (.isInst [.list, .tuple]), token := [Char.ofNat 1, Char.ofNat 80, Char.ofNat 85, Char.ofNat 78, Char.ofNat 67, Char.ofNat 109], body := (.leaf [] true), pad := .nopad, cut := .trunc },
  { guard := .always, token := [], body := (.leaf [] false), pad := .ljust, cut := .slice }]"""
PINNED_MAPPER = "(.ite .isNdarray (.ret .tolist) (.ite .isTd64 (.ite .isNaT (.ret .none) (.ite .calUnit (.ret .namespace_) (.ret .namespace_))) (.ite (.subdtype .integer) (.ret .int) (.ite (.subdtype .floating) (.ret .float) (.ite (.subdtype .bool_) (.ret .bool) (.ite (.subdtype .ndarray) (.ret .list) (.ret .str)))))))"


def generate(o):
    src = Src("orso/display.py")

    def fn():
        return find_function(src.tree, "ascii_table")

    ch = o.item("displayfmt.type_formatter_chain", lambda: list(formatter_chain(find_function(fn(), "type_formatter"))),
                [PINNED_MAPGUARD, PINNED_BRANCHES])
    def tables():
        out = {}
        for node in src.tree.body:
            if isinstance(node, ast.Assign) and len(node.targets) == 1 and isinstance(node.targets[0], ast.Name):
                try:
                    val = ast.literal_eval(node.value)
                except Exception:  # noqa
                    continue
                if isinstance(val, (dict, tuple, list, set, frozenset)):
                    out[node.targets[0].id] = list(val)
        return out

    mp = o.item("displayfmt.numpy_type_mapper", lambda: nbody(list(find_function(fn(), "numpy_type_mapper").body), (), tables()), PINNED_MAPPER)
    text = HEADER + "import OrsoVerif.Model.PyKinds\n"
    text += "/-! The `if` chains of `type_formatter` and `numpy_type_mapper` (orso/display.py), in source order\n"
    text += "(harness/extractors/displayfmt.py). -/\nnamespace Gen.DisplayFmt\nopen PyKinds\n"
    text += "/-- classes of the first test of `type_formatter`: values that go through `numpy_type_mapper` -/\n"
    text += "def mapGuard : List Cls := %s\n" % ch[0]
    text += "/-- `type_formatter`: test, first colour token and reads of `value` of every branch, in order -/\n"
    text += "def branches : List Branch := %s\n" % ch[1]
    text += "/-- `numpy_type_mapper` as a decision tree -/\n"
    text += "def mapper : NBody := %s\n" % mp
    text += "end Gen.DisplayFmt\n"
    o.files["DisplayFmt.lean"] = text
