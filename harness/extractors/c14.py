"""C14: the *sequencing* facts of `ColumnProfile` in `orso/profiler/profiler.py`, lifted from the AST.

The estimators (`estimate_values_at / below / above`) build a `Distogram` from the profile's fields on
first use and keep it on the object; `__add__` starts from a deep copy of the left operand.  Whether a
sum still carries the left operand's cached histogram is therefore decided by two statements of the
source, and the C14 theorems about *sequences on one profile* (query, add, query again) are proved
against what those statements say now:

* `estimateUsesCache` — an estimator reuses an attribute it set earlier
  (`if not hasattr(self, "<attr>"): self.<attr> = distogram.load(self.histogram, self.minimum, self.maximum)`);
* `addDropsCache` — `__add__` removes that attribute from the copy it starts from
  (`new.__dict__.pop("<attr>", …)`, `del new.<attr>`, `delattr(new, "<attr>")`, or it does not start
  from a copy at all);
* `addCount`, `addMissing` — the two counters of the sum (`new.count += profile.count`, …);
* `addSwapTest` — the test under which the histograms are merged the other way round;
* `loadMin`, `loadMax` — how `distogram.load` sets the bounds of the histogram the estimators work on: the
  arguments as they are, or `minimum or <first centre>` (`or` also replaces a legitimate bound of 0).

A shape that is not recognised degrades to the pinned value (reported as `extraction_degraded`) and the
sequences are then carried by the correspondence run alone.
"""
import ast

from ..extract import HEADER, Src
from ..pyexpr import find_function, to_lean

LOAD_ARGS = "distogram.load(%s.histogram, %s.minimum, %s.maximum)"
ESTIMATORS = ("estimate_values_at", "estimate_values_below", "estimate_values_above")


def _cls(tree, name):
    for n in tree.body:
        if isinstance(n, ast.ClassDef) and n.name == name:
            return n
    raise KeyError(name)


def cache_attrs(cls):
    """Attributes `a` with `if not hasattr(self, "a"): self.a = distogram.load(self.histogram, …)` in the class."""
    out = set()
    for n in ast.walk(cls):
        if not isinstance(n, ast.If) or not isinstance(n.test, ast.UnaryOp) or not isinstance(n.test.op, ast.Not):
            continue
        t = n.test.operand
        if not (isinstance(t, ast.Call) and ast.unparse(t.func) == "hasattr" and len(t.args) == 2 and ast.unparse(t.args[0]) == "self"
                and isinstance(t.args[1], ast.Constant) and isinstance(t.args[1].value, str)):
            continue
        attr = t.args[1].value
        for s in n.body:
            if isinstance(s, ast.Assign) and len(s.targets) == 1 and ast.unparse(s.targets[0]) == "self." + attr \
                    and ast.unparse(s.value) == LOAD_ARGS % ("self", "self", "self"):
                out.add(attr)
    return out


def uses_cache(prof):
    cls = _cls(prof.tree, "ColumnProfile")
    attrs = cache_attrs(cls)
    if len(attrs) == 1:
        return True, next(iter(attrs))
    if len(attrs) > 1:
        raise KeyError("more than one cached attribute: %s" % sorted(attrs))
    # no cached attribute: every estimator must then load afresh, or the shape is unknown
    for name in ESTIMATORS:
        f = find_function(prof.tree, name, "ColumnProfile")
        if LOAD_ARGS % ("self", "self", "self") not in ast.unparse(f) or "self.distogram" in ast.unparse(f):
            raise KeyError("%s: neither the cached nor the uncached shape" % name)
    return False, ""


def add_start(f):
    """-> (name of the object `__add__` builds, 'copy' | 'fresh')."""
    for s in f.body:
        if isinstance(s, ast.Assign) and len(s.targets) == 1 and isinstance(s.targets[0], ast.Name):
            v = ast.unparse(s.value).replace(" ", "")
            if v in ("self.deep_copy()", "deepcopy(self)", "copy.deepcopy(self)"):
                return s.targets[0].id, "copy"
            if v.startswith("ColumnProfile("):
                return s.targets[0].id, "fresh"
    raise KeyError("__add__: the object the sum is built on")


def drops_cache(prof):
    _, attr = uses_cache(prof)
    f = find_function(prof.tree, "__add__", "ColumnProfile")
    new, how = add_start(f)
    if how == "fresh" or not attr:
        return True
    rets = [n for n in ast.walk(f) if isinstance(n, ast.Return)]
    if len(rets) != 1 or ast.unparse(rets[0].value) != new or f.body[-1] is not rets[0]:
        raise KeyError("__add__: a single `return %s` at the end" % new)

    def removes(s, guarded):
        if isinstance(s, ast.Expr) and isinstance(s.value, ast.Call):
            c = s.value
            fn = ast.unparse(c.func)
            if fn == new + ".__dict__.pop" and len(c.args) == 2 and isinstance(c.args[0], ast.Constant) and c.args[0].value == attr:
                return True
            if guarded and fn == new + ".__dict__.pop" and len(c.args) == 1 and isinstance(c.args[0], ast.Constant) and c.args[0].value == attr:
                return True
            if guarded and fn == "delattr" and len(c.args) == 2 and ast.unparse(c.args[0]) == new \
                    and isinstance(c.args[1], ast.Constant) and c.args[1].value == attr:
                return True
        if guarded and isinstance(s, ast.Delete) and [ast.unparse(t) for t in s.targets] == ["%s.%s" % (new, attr)]:
            return True
        return False

    def guard(test):
        t = ast.unparse(test).replace("'", '"').replace(" ", "")
        return t in ('hasattr(%s,"%s")' % (new, attr), '"%s"in%s.__dict__' % (attr, new), '"%s"invars(%s)' % (attr, new))

    for s in f.body:
        if removes(s, False):
            return True
        if isinstance(s, ast.If) and guard(s.test) and not s.orelse and any(removes(x, True) for x in s.body):
            return True
        if isinstance(s, ast.Try) and any(removes(x, True) for x in s.body):
            return True
    # the copy is returned with everything an estimate left on the operand
    if attr in [n.attr for n in ast.walk(f) if isinstance(n, ast.Attribute)]:
        raise KeyError("__add__ touches .%s in a shape that is not recognised" % attr)
    return False


def load_bound(dist, which):
    """How `load(bins, minimum, maximum)` sets `dgram.min` / `dgram.max`: 'given' (the argument as it is), or
    'falsy-first' / 'falsy-last' (`minimum or dgram.bins[0][0]`: a bound that is None *or zero* is replaced by the
    first / last centre).  Anything else is not recognised."""
    f = find_function(dist.tree, "load")
    arg = {"min": "minimum", "max": "maximum"}[which]
    params = [a.arg for a in f.args.args]
    if params[:3] != ["bins", "minimum", "maximum"]:
        raise KeyError("load(bins, minimum, maximum)")
    obj = None
    for s in f.body:
        if isinstance(s, ast.Assign) and len(s.targets) == 1 and isinstance(s.targets[0], ast.Name) and ast.unparse(s.value) == "Distogram()":
            obj = s.targets[0].id
    if obj is None:
        raise KeyError("load: dgram = Distogram()")
    hits = [n for n in ast.walk(f) if isinstance(n, ast.Assign) and len(n.targets) == 1 and ast.unparse(n.targets[0]) == "%s.%s" % (obj, which)]
    if not hits:
        raise KeyError("load: %s.%s = ..." % (obj, which))
    hits.sort(key=lambda n: (n.lineno, n.col_offset))
    last = ast.unparse(hits[-1].value).replace(" ", "")
    if all(ast.unparse(h.value) == arg for h in hits):
        return "given"
    # a later assignment under `if <obj>.bins:` (or `if bins:`) wins whenever there is a bin — the only case estimates look at
    for end, tag in (("[0][0]", "falsy-first"), ("[-1][0]", "falsy-last")):
        if last in ("%sor%s.bins%s" % (arg, obj, end), "%sorbins%s" % (arg, end)):
            return tag
    raise KeyError("load: %s.%s = %s" % (obj, which, last[:40]))


def generate(o):
    prof = Src("orso/profiler/profiler.py")
    dist = Src("orso/profiler/distogram/__init__.py")

    def counter(field):
        f = find_function(prof.tree, "__add__", "ColumnProfile")
        new, _ = add_start(f)
        hits = [s for s in f.body if isinstance(s, ast.AugAssign) and ast.unparse(s.target) == "%s.%s" % (new, field)]
        if len(hits) != 1:
            raise KeyError("%s.%s op= ..." % (new, field))
        s = hits[0]
        e = ast.BinOp(left=s.target, op=s.op, right=s.value)
        return to_lean(ast.parse(ast.unparse(e), mode="eval").body, {"%s.%s" % (new, field): "mine", "profile.%s" % field: "theirs"}, mode="field")

    def swap_test():
        f = find_function(prof.tree, "__add__", "ColumnProfile")
        new, _ = add_start(f)
        outer = [s for s in f.body if isinstance(s, ast.If) and ast.unparse(s.test) == "self.histogram and profile.histogram"]
        if len(outer) != 1:
            raise KeyError("if self.histogram and profile.histogram")
        body = outer[0].body
        names = {}
        for s in body:
            if isinstance(s, ast.Assign) and len(s.targets) == 1 and isinstance(s.targets[0], ast.Name):
                v = ast.unparse(s.value)
                if v == LOAD_ARGS % ("self", "self", "self"):
                    names[s.targets[0].id] = "mine"
                elif v == LOAD_ARGS % ("profile", "profile", "profile"):
                    names[s.targets[0].id] = "theirs"
        inner = [s for s in body if isinstance(s, ast.If)]
        if len(inner) != 1 or sorted(names.values()) != ["mine", "theirs"]:
            raise KeyError("the two loads and the inner if")
        inner = inner[0]

        def merged(stmts):
            if len(stmts) != 1 or not isinstance(stmts[0], ast.Assign) or ast.unparse(stmts[0].targets[0]) != new + ".histogram":
                raise KeyError("histogram assignment")
            v = stmts[0].value
            if not (isinstance(v, ast.Attribute) and v.attr == "bins" and isinstance(v.value, ast.Call)
                    and ast.unparse(v.value.func) == "distogram.merge" and len(v.value.args) == 2):
                raise KeyError("distogram.merge(a, b).bins")
            return [names.get(ast.unparse(a)) for a in v.value.args]

        if merged(inner.body) != ["theirs", "mine"] or merged(inner.orelse) != ["mine", "theirs"]:
            raise KeyError("merge order of the two branches")
        other = outer[0].orelse
        if not (len(other) == 1 and isinstance(other[0], ast.If) and ast.unparse(other[0].test) == "profile.histogram" and not other[0].orelse):
            raise KeyError("elif profile.histogram")
        return to_lean(inner.test, {"len(self.histogram)": "la", "len(profile.histogram)": "lb"}, mode="int")

    def only(names, getter, nat=False):
        import re

        def g():
            text = getter()
            free = set(re.findall(r"[A-Za-z_][A-Za-z0-9_]*", text)) - {"if", "then", "else", "min", "max"}
            if not free <= set(names):
                raise KeyError("uses %s" % sorted(free - set(names)))
            lits = set(re.findall(r"(?<![A-Za-z_0-9.])\d+(?![A-Za-z_0-9])", text)) - {"0", "1", "2"}
            if lits and not nat:
                raise KeyError("numeric literal %s" % sorted(lits))
            return text

        return g

    uses = o.item("profile_est.estimate_uses_cache", lambda: uses_cache(prof)[0], True)
    drops = o.item("profile_est.add_drops_cache", lambda: drops_cache(prof), True)
    cnt = o.item("profile_est.add_count", only(["mine", "theirs"], lambda: counter("count")), "(mine + theirs)")
    mis = o.item("profile_est.add_missing", only(["mine", "theirs"], lambda: counter("missing")), "(mine + theirs)")
    swp = o.item("profile_est.add_swap_test", only(["la", "lb"], swap_test, nat=True), "(lb > la)")
    lmin = o.item("profile_est.load_min", lambda: load_bound(dist, "min"), "given")
    lmax = o.item("profile_est.load_max", lambda: load_bound(dist, "max"), "given")
    how = {"given": "LoadBound.given", "falsy-first": "LoadBound.falsyFirst", "falsy-last": "LoadBound.falsyLast"}
    b = lambda x: "true" if x else "false"
    text = HEADER + '''/-!
Sequencing facts of `ColumnProfile` (`orso/profiler/profiler.py`): the cached `Distogram` of the estimators and
what `__add__` copies and recomputes (harness/extractors/c14.py).
-/
namespace Gen.ProfileEst
set_option linter.unusedVariables false

/-- How `distogram.load(bins, minimum, maximum)` sets a bound of the histogram it returns: the argument as it is, or
`argument or <first / last centre>` — Python's `or` replaces a bound that is `None` **or zero**. -/
inductive LoadBound where
  | given
  | falsyFirst
  | falsyLast
  deriving DecidableEq, Repr

/-- `dgram.min = …` in `load` -/
def loadMin : LoadBound := %s

/-- `dgram.max = …` in `load` -/
def loadMax : LoadBound := %s

/-- the estimators reuse the `Distogram` an earlier estimate left on the object (`if not hasattr(self, …)`) -/
def estimateUsesCache : Bool := %s

/-- `__add__` removes that attribute from the deep copy of `self` it starts from -/
def addDropsCache : Bool := %s

section
variable {K : Type} [Add K] [Sub K] [Mul K] [Div K] [OfNat K 0] [OfNat K 1] [OfNat K 2]

/-- `new_profile.count += profile.count` -/
def addCount (mine theirs : K) : K := %s

/-- `new_profile.missing += profile.missing` -/
def addMissing (mine theirs : K) : K := %s
end

/-- `len(profile.histogram) > len(self.histogram)`: the longer histogram receives the other one's bins -/
def addSwapTest (la lb : Nat) : Bool := decide %s

end Gen.ProfileEst
''' % (how[lmin], how[lmax], b(uses), b(drops), cnt, mis, swp)
    o.files["ProfileEstExpr.lean"] = text
