"""C14: the *sequencing* facts of `ColumnProfile` in `orso/profiler/profiler.py`, lifted from the AST.

The estimators (`estimate_values_at / below / above`) build a `Distogram` from the profile's fields on
first use and keep it on the object; `__add__` starts from a deep copy of the left operand.  Whether a
sum still carries the left operand's cached histogram is therefore decided by two statements of the
source, and the C14 theorems about *sequences on one profile* (query, add, query again) are proved
against what those statements say now:

* `estimateUsesCache` — an estimator reuses an attribute it set earlier
  (`if not hasattr(self, "<attr>"): self.<attr> = distogram.load(self.histogram, self.minimum, self.maximum)`);
* `addDropsCache` — `__add__` removes that attribute from the copy it starts from
  (`new.__dict__.pop("<attr>", …)`, `del new.<attr>`, `delattr(new, "<attr>")`, or it does not start
  from a copy at all);
* `addCount`, `addMissing` — the two counters of the sum (`new.count += profile.count`, …);
* `addSwapTest` — the test under which the histograms are merged the other way round;
* `loadMin`, `loadMax` — how `distogram.load` sets the bounds of the histogram the estimators work on: the
  arguments as they are, or `minimum or <first centre>` (`or` also replaces a legitimate bound of 0).

A shape that is not recognised degrades to the pinned value (reported as `extraction_degraded`) and the
sequences are then carried by the correspondence run alone.

Round 3 — facts about histogram *objects* (`Generated/DistogramObj.lean`):

* `updBounds` — the statements of `update` that set `h.min` / `h.max` after an insertion, translated **with their
  control flow** (a sequence of `if`s, `elif` / `else` chains, nested): a little state program over `(min, max)`;
* `addTarget` — what `Distogram.__add__` merges the right operand into: the left operand itself (the sum *is* the left
  operand), a shallow copy of it (`copy.copy(self)`: a second object that shares the bin list) or a deep copy.
"""
import ast

from ..extract import HEADER, Src
from ..pyexpr import find_function, to_lean

LOAD_ARGS = "distogram.load(%s.histogram, %s.minimum, %s.maximum)"
ESTIMATORS = ("estimate_values_at", "estimate_values_below", "estimate_values_above")


def _cls(tree, name):
    for n in tree.body:
        if isinstance(n, ast.ClassDef) and n.name == name:
            return n
    raise KeyError(name)


def cache_attrs(cls):
    """Attributes `a` with `if not hasattr(self, "a"): self.a = distogram.load(self.histogram, …)` in the class."""
    out = set()
    for n in ast.walk(cls):
        if not isinstance(n, ast.If) or not isinstance(n.test, ast.UnaryOp) or not isinstance(n.test.op, ast.Not):
            continue
        t = n.test.operand
        if not (isinstance(t, ast.Call) and ast.unparse(t.func) == "hasattr" and len(t.args) == 2 and ast.unparse(t.args[0]) == "self"
                and isinstance(t.args[1], ast.Constant) and isinstance(t.args[1].value, str)):
            continue
        attr = t.args[1].value
        for s in n.body:
            if isinstance(s, ast.Assign) and len(s.targets) == 1 and ast.unparse(s.targets[0]) == "self." + attr \
                    and ast.unparse(s.value) == LOAD_ARGS % ("self", "self", "self"):
                out.add(attr)
    return out


def uses_cache(prof):
    cls = _cls(prof.tree, "ColumnProfile")
    attrs = cache_attrs(cls)
    if len(attrs) == 1:
        return True, next(iter(attrs))
    if len(attrs) > 1:
        raise KeyError("more than one cached attribute: %s" % sorted(attrs))
    # no cached attribute: every estimator must then load afresh, or the shape is unknown
    for name in ESTIMATORS:
        f = find_function(prof.tree, name, "ColumnProfile")
        if LOAD_ARGS % ("self", "self", "self") not in ast.unparse(f) or "self.distogram" in ast.unparse(f):
            raise KeyError("%s: neither the cached nor the uncached shape" % name)
    return False, ""


def add_start(f):
    """-> (name of the object `__add__` builds, 'copy' | 'fresh')."""
    for s in f.body:
        if isinstance(s, ast.Assign) and len(s.targets) == 1 and isinstance(s.targets[0], ast.Name):
            v = ast.unparse(s.value).replace(" ", "")
            if v in ("self.deep_copy()", "deepcopy(self)", "copy.deepcopy(self)"):
                return s.targets[0].id, "copy"
            if v.startswith("ColumnProfile("):
                return s.targets[0].id, "fresh"
    raise KeyError("__add__: the object the sum is built on")


def drops_cache(prof):
    _, attr = uses_cache(prof)
    f = find_function(prof.tree, "__add__", "ColumnProfile")
    new, how = add_start(f)
    if how == "fresh" or not attr:
        return True
    rets = [n for n in ast.walk(f) if isinstance(n, ast.Return)]
    if len(rets) != 1 or ast.unparse(rets[0].value) != new or f.body[-1] is not rets[0]:
        raise KeyError("__add__: a single `return %s` at the end" % new)

    def removes(s, guarded):
        if isinstance(s, ast.Expr) and isinstance(s.value, ast.Call):
            c = s.value
            fn = ast.unparse(c.func)
            if fn == new + ".__dict__.pop" and len(c.args) == 2 and isinstance(c.args[0], ast.Constant) and c.args[0].value == attr:
                return True
            if guarded and fn == new + ".__dict__.pop" and len(c.args) == 1 and isinstance(c.args[0], ast.Constant) and c.args[0].value == attr:
                return True
            if guarded and fn == "delattr" and len(c.args) == 2 and ast.unparse(c.args[0]) == new \
                    and isinstance(c.args[1], ast.Constant) and c.args[1].value == attr:
                return True
        if guarded and isinstance(s, ast.Delete) and [ast.unparse(t) for t in s.targets] == ["%s.%s" % (new, attr)]:
            return True
        return False

    def guard(test):
        t = ast.unparse(test).replace("'", '"').replace(" ", "")
        return t in ('hasattr(%s,"%s")' % (new, attr), '"%s"in%s.__dict__' % (attr, new), '"%s"invars(%s)' % (attr, new))

    for s in f.body:
        if removes(s, False):
            return True
        if isinstance(s, ast.If) and guard(s.test) and not s.orelse and any(removes(x, True) for x in s.body):
            return True
        if isinstance(s, ast.Try) and any(removes(x, True) for x in s.body):
            return True
    # the copy is returned with everything an estimate left on the operand
    if attr in [n.attr for n in ast.walk(f) if isinstance(n, ast.Attribute)]:
        raise KeyError("__add__ touches .%s in a shape that is not recognised" % attr)
    return False


def load_bound(dist, which):
    """How `load(bins, minimum, maximum)` sets `dgram.min` / `dgram.max`: 'given' (the argument as it is), or
    'falsy-first' / 'falsy-last' (`minimum or dgram.bins[0][0]`: a bound that is None *or zero* is replaced by the
    first / last centre).  Anything else is not recognised."""
    f = find_function(dist.tree, "load")
    arg = {"min": "minimum", "max": "maximum"}[which]
    params = [a.arg for a in f.args.args]
    if params[:3] != ["bins", "minimum", "maximum"]:
        raise KeyError("load(bins, minimum, maximum)")
    obj = None
    for s in f.body:
        if isinstance(s, ast.Assign) and len(s.targets) == 1 and isinstance(s.targets[0], ast.Name) and ast.unparse(s.value) == "Distogram()":
            obj = s.targets[0].id
    if obj is None:
        raise KeyError("load: dgram = Distogram()")
    hits = [n for n in ast.walk(f) if isinstance(n, ast.Assign) and len(n.targets) == 1 and ast.unparse(n.targets[0]) == "%s.%s" % (obj, which)]
    if not hits:
        raise KeyError("load: %s.%s = ..." % (obj, which))
    hits.sort(key=lambda n: (n.lineno, n.col_offset))
    last = ast.unparse(hits[-1].value).replace(" ", "")
    if all(ast.unparse(h.value) == arg for h in hits):
        return "given"
    # a later assignment under `if <obj>.bins:` (or `if bins:`) wins whenever there is a bin — the only case estimates look at
    for end, tag in (("[0][0]", "falsy-first"), ("[-1][0]", "falsy-last")):
        if last in ("%sor%s.bins%s" % (arg, obj, end), "%sorbins%s" % (arg, end)):
            return tag
    raise KeyError("load: %s.%s = %s" % (obj, which, last[:40]))


# --------------------------------------------------------------------------- histogram objects (round 3)

CMP = {ast.Lt: "<", ast.LtE: "≤", ast.Gt: ">", ast.GtE: "≥"}
FIELD_IDX = {"min": "1", "max": "2"}
PIN_UPD_BOUNDS = ("(let s := (if (noneOr s.1 (fun m => decide (m > value))) then (let s := ((some value), s.2); s) else s); "
                  "(let s := (if (noneOr s.2 (fun m => decide (m < value))) then (let s := (s.1, (some value)); s) else s); s))")
PIN_ADD_BOUNDS = "(let s := (if (o.1).isSome then (let s := ((pyMin s.1 o.1), s.2); (let s := (s.1, (pyMax s.2 o.2)); s)) else s); s)"
PIN_BULK_BOUNDS = ("(let s := (if (s.1).isNone then (let s := ((some lo), s.2); (let s := (s.1, (some hi)); s)) "
                   "else (let s := ((pyMin s.1 (some lo)), s.2); (let s := (s.1, (pyMax s.2 (some hi))); s))); s)")


class BoundsProg:
    """Statements on the bounds of a histogram -> a Lean term of type `Option K × Option K` (the state `s = (min, max)`).

    Restricted grammar — anything else raises KeyError and the item degrades to its pinned text:
      statements   `<state>.min = E`, `<state>.max = E`, `<state>.min = <state>.max = <atom>`, `if / elif / else` of such blocks, `pass`
      E            a bound (`<state>.min`, `<other>.max`, ...), an atom of `atoms` (a number: `value`, `values.min()`),
                   `min(E, E)`, `max(E, E)` (Python's: `None` operands are a TypeError -> `none`)
      tests        `B is None`, `B is not None`, `(B is None) or (B <cmp> atom)`, `(B is not None) and (B <cmp> atom)`,
                   a bare comparison once the same bound was tested earlier in the `and` / `or`, truthiness of a bound
                   (`None` and zero are falsy), `and` / `or` / `not` of tests."""

    def __init__(self, state, others, atoms):
        self.state, self.others, self.atoms = set(state), dict(others), dict(atoms)

    def bound(self, n):
        """A bound expression -> Lean term of type Option K, or None."""
        if isinstance(n, ast.Attribute) and isinstance(n.value, ast.Name) and n.attr in FIELD_IDX:
            if n.value.id in self.state:
                return "s.%s" % FIELD_IDX[n.attr]
            if n.value.id in self.others:
                return "%s.%s" % (self.others[n.value.id], FIELD_IDX[n.attr])
        return None

    def atom(self, n):
        return self.atoms.get(ast.unparse(n))

    def expr(self, n):
        b = self.bound(n)
        if b:
            return b
        a = self.atom(n)
        if a:
            return "(some %s)" % a
        if isinstance(n, ast.Call) and isinstance(n.func, ast.Name) and n.func.id in ("min", "max") and len(n.args) == 2 and not n.keywords:
            return "(py%s %s %s)" % (n.func.id.capitalize(), self.expr(n.args[0]), self.expr(n.args[1]))
        raise KeyError("bound set to %s" % ast.unparse(n)[:40])

    def cmp_of(self, n, b):
        """`<b> <cmp> atom` or `atom <cmp> <b>` as `fun m => decide (...)`."""
        if not (isinstance(n, ast.Compare) and len(n.ops) == 1 and type(n.ops[0]) in CMP):
            return None
        l, r = n.left, n.comparators[0]
        op = CMP[type(n.ops[0])]
        if self.bound(l) == b and self.atom(r):
            return "(fun m => decide (m %s %s))" % (op, self.atom(r))
        if self.bound(r) == b and self.atom(l):
            return "(fun m => decide (%s %s m))" % (self.atom(l), op)
        return None

    def bounds_in(self, n):
        return {self.bound(x) for x in ast.walk(n) if self.bound(x)}

    def test(self, t):
        def is_none(n, neg):
            if isinstance(n, ast.Compare) and len(n.ops) == 1 and isinstance(n.ops[0], ast.IsNot if neg else ast.Is) \
                    and isinstance(n.comparators[0], ast.Constant) and n.comparators[0].value is None:
                return self.bound(n.left)
            return None

        b = is_none(t, False)
        if b:
            return "(%s).isNone" % b
        b = is_none(t, True)
        if b:
            return "(%s).isSome" % b
        if isinstance(t, ast.BoolOp) and len(t.values) == 2:
            for neg, fn in ((False, "noneOr"), (True, "someAnd")):
                if isinstance(t.op, ast.And if neg else ast.Or):
                    b = is_none(t.values[0], neg)
                    c = self.cmp_of(t.values[1], b) if b else None
                    if c:
                        return "(%s %s %s)" % (fn, b, c)
        if self.bound(t):
            return "(truthy %s)" % self.bound(t)  # truthiness of a bound: `None` and zero are falsy
        if isinstance(t, ast.BoolOp):
            j = " && " if isinstance(t.op, ast.And) else " || "
            parts = [self.test(t.values[0])]
            guarded = self.bounds_in(t.values[0])
            for v in t.values[1:]:
                # a bare comparison is only evaluated after a test on the same bound short-circuited `None` away
                hit = next(((g, self.cmp_of(v, g)) for g in sorted(guarded) if self.cmp_of(v, g)), None)
                if hit:
                    parts.append("(someAnd %s %s)" % hit)
                else:
                    parts.append(self.test(v))
                    guarded |= self.bounds_in(v)
            return "(" + j.join(parts) + ")"
        if isinstance(t, ast.UnaryOp) and isinstance(t.op, ast.Not):
            return "(!%s)" % self.test(t.operand)
        raise KeyError("bounds test %s" % ast.unparse(t)[:50])

    def block(self, stmts, depth=0):
        if depth > 6:
            raise KeyError("bounds statements nested too deeply")
        lines = []
        for st in stmts:
            if isinstance(st, ast.Pass):
                continue
            if isinstance(st, ast.Assign) and len(st.targets) == 1 and self.bound(st.targets[0]) in ("s.1", "s.2"):
                e = self.expr(st.value)
                lines.append("(%s, s.2)" % e if self.bound(st.targets[0]) == "s.1" else "(s.1, %s)" % e)
            elif isinstance(st, ast.Assign) and len(st.targets) > 1 and all(self.bound(t) in ("s.1", "s.2") for t in st.targets) and self.atom(st.value):
                # `h.min = h.max = value`: the right-hand side (a number, not a bound) is evaluated once, the targets are set left to right
                e = self.expr(st.value)
                for t in st.targets:
                    lines.append("(%s, s.2)" % e if self.bound(t) == "s.1" else "(s.1, %s)" % e)
            elif isinstance(st, ast.If):
                lines.append("(if %s then %s else %s)" % (self.test(st.test), self.block(st.body, depth + 1), self.block(st.orelse, depth + 1)))
            else:
                raise KeyError("bounds statement %s" % type(st).__name__)
        out = "s"
        for ln in reversed(lines):
            out = "(let s := %s; %s)" % (ln, out)
        return out

    def touches(self, st):
        """Does the statement assign a bound of the state?"""
        for n in ast.walk(st):
            if isinstance(n, (ast.Assign, ast.AugAssign, ast.AnnAssign)):
                for t in (n.targets if isinstance(n, ast.Assign) else [n.target]):
                    if self.bound(t) in ("s.1", "s.2"):
                        return True
        return False

    def adjacent(self, body, what):
        idx = [i for i, st in enumerate(body) if self.touches(st)]
        if not idx:
            raise KeyError("%s: no statement sets the bounds" % what)
        if idx != list(range(idx[0], idx[-1] + 1)):
            raise KeyError("%s: the bounds statements are not adjacent" % what)
        return [body[i] for i in idx]


def upd_bounds(dist):
    """The top-level statements of `update(h, value, count)` that assign `h.min` / `h.max`, as one state program."""
    f = find_function(dist.tree, "update")
    params = [a.arg for a in f.args.args]
    if params[:2] != ["h", "value"]:
        raise KeyError("update(h, value, ...)")
    bp = BoundsProg({"h"}, {}, {"value": "value"})
    # `value = _caster(value)` precedes them and nothing re-binds `value` or `h` in between
    return bp.block(bp.adjacent(f.body, "update"))


PURE_CALLS = {"_caster", "float", "int", "len", "abs", "numpy.float64", "math.isnan", "math.isinf", "math.isfinite", "isinstance"}


def upd_before_reject(dist):
    """What `update(h, value, count)` has done to the bounds **by the time it refuses a call**: the top-level statements that
    precede the last point at which the function can still reject its arguments — the cast `value = _caster(value)` (a value
    that is no number) and the validations `if <test>: raise ...` — in source order, restricted to the statements on the bounds
    (same grammar as `updBounds`).  On the tree as it is nothing precedes the validation but the cast: the program is the
    identity `s`.  A statement in that prefix that is neither a bounds statement nor recognisably free of effects on the
    histogram (an assignment to a local name whose right-hand side calls nothing but casts / `len`) raises KeyError."""
    f = find_function(dist.tree, "update")
    params = [a.arg for a in f.args.args]
    if params[:3] != ["h", "value", "count"]:
        raise KeyError("update(h, value, count)")
    bp = BoundsProg({"h"}, {}, {"value": "value"})

    def rejects(st):
        return isinstance(st, ast.If) and not st.orelse and len(st.body) == 1 and isinstance(st.body[0], ast.Raise)

    def pure(st):
        if isinstance(st, ast.Expr) and isinstance(st.value, ast.Constant):
            return True  # docstring
        if isinstance(st, (ast.Assign, ast.AnnAssign)):
            targets = st.targets if isinstance(st, ast.Assign) else [st.target]
            if not all(isinstance(t, ast.Name) and t.id != "h" for t in targets) or st.value is None:
                return False
            return all(ast.unparse(c.func) in PURE_CALLS for c in ast.walk(st.value) if isinstance(c, ast.Call))
        if rejects(st):
            return all(ast.unparse(c.func) in PURE_CALLS for c in ast.walk(st.test) if isinstance(c, ast.Call))
        return False

    checks = [i for i, st in enumerate(f.body) if rejects(st) and "count" in {n.id for n in ast.walk(st.test) if isinstance(n, ast.Name)}]
    if not checks:
        raise KeyError("update: no top-level `if <test on count>: raise ...`")
    # a `raise` anywhere else (nested, in a helper) is a rejection this walk does not place
    raises = [n for n in ast.walk(f) if isinstance(n, ast.Raise)]
    if len(raises) != len([i for i, st in enumerate(f.body) if rejects(st)]):
        raise KeyError("update: a raise that is not a top-level validation")
    before = []
    for st in f.body[: checks[-1]]:
        if bp.touches(st):
            before.append(st)
        elif not pure(st):
            raise KeyError("update: `%s` precedes the validation" % ast.unparse(st).split("\n")[0][:40])
    return bp.block(before)


def add_bounds(dist):
    """The statements of `Distogram.__add__` that set the bounds of the sum after the merge.  `self.min` / `self.max`
    denote the sum's bounds only when `merge` received `self` (the sum is the left operand, updated in place)."""
    f = find_function(dist.tree, "__add__", "Distogram")
    params = [a.arg for a in f.args.args]
    if len(params) != 2 or params[0] != "self":
        raise KeyError("__add__(self, operand)")
    res = [st for st in f.body if isinstance(st, ast.Assign) and len(st.targets) == 1 and isinstance(st.targets[0], ast.Name)
           and isinstance(st.value, ast.Call) and ast.unparse(st.value.func) == "merge"]
    if len(res) != 1:
        raise KeyError("__add__: <sum> = merge(...)")
    name = res[0].targets[0].id
    state = {name} | ({"self"} if ast.unparse(res[0].value.args[0]) == "self" else set())
    bp = BoundsProg(state, {params[1]: "o"}, {})
    after = f.body[f.body.index(res[0]) + 1:]
    if not after or not isinstance(after[-1], ast.Return) or ast.unparse(after[-1].value) != name:
        raise KeyError("__add__: return <sum>")
    return bp.block(bp.adjacent(after[:-1], "__add__"))


def bulk_bounds(dist):
    """The statements of `Distogram.bulkload(values)` that set the bounds once the bins are in: `values.min()` / `.max()`."""
    f = find_function(dist.tree, "bulkload", "Distogram")
    params = [a.arg for a in f.args.args]
    if params != ["self", "values"]:
        raise KeyError("bulkload(self, values)")
    bp = BoundsProg({"self"}, {}, {"values.min()": "lo", "values.max()": "hi"})
    return bp.block(bp.adjacent(f.body, "bulkload"))


def add_target(dist):
    """What `Distogram.__add__` hands to `merge` as the histogram that receives the right operand's bins."""
    f = find_function(dist.tree, "__add__", "Distogram")
    params = [a.arg for a in f.args.args]
    if len(params) != 2 or params[0] != "self":
        raise KeyError("__add__(self, operand)")
    calls = [n for n in ast.walk(f) if isinstance(n, ast.Call) and ast.unparse(n.func) == "merge" and len(n.args) == 2 and not n.keywords]
    if len(calls) != 1 or ast.unparse(calls[0].args[1]) != params[1]:
        raise KeyError("__add__: one merge(<left>, operand)")
    left = calls[0].args[0]
    names = {}
    for st in f.body:
        if isinstance(st, ast.Assign) and len(st.targets) == 1 and isinstance(st.targets[0], ast.Name):
            names[st.targets[0].id] = st.value
    if isinstance(left, ast.Name) and left.id != "self" and left.id in names:
        nm = left.id
        # the copy must reach merge() as it was made: no attribute of it is re-bound in between
        for n in ast.walk(f):
            if isinstance(n, (ast.Assign, ast.AugAssign)):
                for t in (n.targets if isinstance(n, ast.Assign) else [n.target]):
                    if isinstance(t, ast.Attribute) and isinstance(t.value, ast.Name) and t.value.id == nm and n.lineno < calls[0].lineno:
                        raise KeyError("__add__: %s.%s is set before the merge" % (nm, t.attr))
        left = names[nm]
    text = ast.unparse(left).replace(" ", "")
    if text == "self":
        return "self"
    if text in ("copy(self)", "copy.copy(self)", "self.__copy__()"):
        return "shallowCopy"
    if text in ("deepcopy(self)", "copy.deepcopy(self)", "self.__deepcopy__({})"):
        return "deepCopy"
    raise KeyError("__add__: merge(%s, operand)" % text[:40])


def generate_obj(o, dist):
    import re

    WORDS = {"if", "then", "else", "let", "fun", "decide", "some", "noneOr", "someAnd", "truthy", "pyMin", "pyMax", "s", "s.1", "s.2", "m",
             "isNone", "isSome"}

    def checked(getter, extra):
        def g():
            text = getter()
            free = set(re.findall(r"[A-Za-z_][A-Za-z0-9_.]*", text)) - WORDS - set(extra)
            if free:
                raise KeyError("uses %s" % sorted(free))
            return text
        return g

    ub = o.item("distogram.obj.update_bounds", checked(lambda: upd_bounds(dist), ["value"]), PIN_UPD_BOUNDS)
    ab = o.item("distogram.obj.add_bounds", checked(lambda: add_bounds(dist), ["o", "o.1", "o.2"]), PIN_ADD_BOUNDS)
    bb = o.item("distogram.obj.bulk_bounds", checked(lambda: bulk_bounds(dist), ["lo", "hi"]), PIN_BULK_BOUNDS)
    ur = o.item("distogram.obj.update_before_reject", checked(lambda: upd_before_reject(dist), ["value"]), "s")
    tgt = o.item("distogram.obj.add_target", lambda: add_target(dist), "self")
    o.files["DistogramObj.lean"] = HEADER + '''/-!
Facts about histogram *objects* of `orso/profiler/distogram/__init__.py` (harness/extractors/c14.py):
the statements that set `min` / `max` in `update`, `Distogram.__add__` and `Distogram.bulkload` **with their control
flow**, and what `Distogram.__add__` merges into.
-/
namespace Gen.DistogramObj
set_option linter.unusedVariables false

/-- What `Distogram.__add__` hands to `merge` as the receiving histogram: the left operand itself (the sum *is* the left
operand, updated in place), a shallow copy (`copy.copy(self)`: a second object whose `bins` / `diffs` attributes are the
*same lists*), or a deep copy. -/
inductive AddTarget where
  | self
  | shallowCopy
  | deepCopy
  deriving DecidableEq, Repr

/-- `dgram = merge(<this>, operand)` in `Distogram.__add__` -/
def addTarget : AddTarget := .%s

section
variable {K : Type} [LT K] [LE K] [DecidableLT K] [DecidableLE K] [OfNat K 0]

/-- Python's truthiness of a bound: `None` and zero are falsy -/
def truthy (b : Option K) : Bool :=
  match b with
  | none => false
  | some m => !(decide (m ≤ 0) && decide (0 ≤ m))

/-- `(b is None) or test(b)` — Python's `or` does not evaluate the comparison on `None` -/
def noneOr (b : Option K) (test : K → Bool) : Bool :=
  match b with
  | none => true
  | some m => test m

/-- `(b is not None) and test(b)` -/
def someAnd (b : Option K) (test : K → Bool) : Bool :=
  match b with
  | none => false
  | some m => test m

/-- Python's `min(a, b)` on bounds: `a` unless `b < a`; a `None` operand is a `TypeError` (`none`) -/
def pyMin (a b : Option K) : Option K :=
  match a, b with
  | some x, some y => some (if y < x then y else x)
  | _, _ => none

/-- Python's `max(a, b)` on bounds: `a` unless `a < b` -/
def pyMax (a b : Option K) : Option K :=
  match a, b with
  | some x, some y => some (if x < y then y else x)
  | _, _ => none

/-- The statements of `update(h, value, count)` that set `h.min` / `h.max` once a bin was inserted, with the control flow
they have in the source now; `s = (h.min, h.max)` on entry, the result is `(h.min, h.max)` afterwards. -/
def updBounds (mn mx : Option K) (value : K) : Option K × Option K :=
  let s := (mn, mx)
  %s

/-- What `update(h, value, count)` has done to `h.min` / `h.max` **when it refuses the call** (`raise ValueError` for a count
that is not strictly positive): the bounds statements that precede the validation in the source, in source order.  Nothing
precedes it but the cast of the value when this is `s`. -/
def updBeforeReject (mn mx : Option K) (value : K) : Option K × Option K :=
  let s := (mn, mx)
  %s

/-- The statements of `Distogram.__add__` that set the bounds of the sum after `merge`; `s` = the bounds `merge` left on
the sum, `o` = the right operand's. -/
def addBounds (mn mx omn omx : Option K) : Option K × Option K :=
  let s := (mn, mx)
  let o := (omn, omx)
  %s

/-- The statements of `Distogram.bulkload(values)` that set the bounds once the bins are in; `lo = values.min()`,
`hi = values.max()`. -/
def bulkBounds (mn mx : Option K) (lo hi : K) : Option K × Option K :=
  let s := (mn, mx)
  %s
end

end Gen.DistogramObj
''' % (tgt, ub, ur, ab, bb)


def below_expr(prof):
    """`estimate_values_below(point)`: what it returns, over `c` = `distogram.count_at(<the kept Distogram>, point)` and
    `total` = that histogram's own total.  In the source as it is: `c`."""
    f = find_function(prof.tree, "estimate_values_below", "ColumnProfile")
    params = [a.arg for a in f.args.args]
    if len(params) != 2 or params[0] != "self":
        raise KeyError("estimate_values_below(self, point)")
    rets = [n for n in ast.walk(f) if isinstance(n, ast.Return)]
    if len(rets) != 1 or f.body[-1] is not rets[0] or rets[0].value is None:
        raise KeyError("estimate_values_below: a single return at the end")
    calls = [n for n in ast.walk(rets[0].value) if isinstance(n, ast.Call) and ast.unparse(n.func) == "distogram.count_at"]
    if len(calls) != 1 or calls[0].keywords or len(calls[0].args) != 2 or ast.unparse(calls[0].args[1]) != params[1] \
            or not ast.unparse(calls[0].args[0]).startswith("self."):
        raise KeyError("estimate_values_below: one distogram.count_at(self.<kept>, point)")
    env = {ast.unparse(calls[0]): "c"}
    for n in ast.walk(rets[0].value):
        if isinstance(n, ast.Call) and not n.keywords and ast.unparse(n.func) == "distogram.count" and len(n.args) == 1 \
                and ast.unparse(n.args[0]) == ast.unparse(calls[0].args[0]):
            env[ast.unparse(n)] = "total"
    return to_lean(rets[0].value, env, mode="field")


# --------------------------------------------------------------------------- table profiles (round 4)

ROWS_SHAPES = ("{r}._columns[0].countif{r}._columnselse0", "{r}._columns[0].countiflen({r}._columns)>0else0",
               "{r}._columns[0].countiflen({r}._columns)else0")


def _placeholder_args(call, name, other, env):
    """`ColumnProfile(<name>, <other>.type, <count>, <missing>)` (positional or keyword, nothing else set) -> (count, missing)
    over `c` / `m` (count / missing of the column on the side that has it), `lr` / `rr` (the two tables' row counts)."""
    if not (isinstance(call, ast.Call) and ast.unparse(call.func) == "ColumnProfile"):
        raise KeyError("the stand-in is a ColumnProfile(...)")
    if len(call.args) > 4:
        raise KeyError("stand-in: more than four positional arguments")
    args = {k: v for k, v in zip(("name", "type", "count", "missing"), call.args)}
    for kw in call.keywords:
        if kw.arg in args or kw.arg not in ("name", "type", "count", "missing"):
            raise KeyError("stand-in: argument %s" % kw.arg)
        args[kw.arg] = kw.value
    if ast.unparse(args.get("name", ast.Constant(None))) != name or ast.unparse(args.get("type", ast.Constant(None))) != other + ".type":
        raise KeyError("stand-in: name and type of the column on the other side")
    penv = dict(env)
    penv.update({other + ".count": "c", other + ".missing": "m"})
    zero = ast.Constant(0)
    return to_lean(args.get("count", zero), penv, mode="field"), to_lean(args.get("missing", zero), penv, mode="field")


def _sum_order(stmt, new, name, left_c, right_c):
    if not (isinstance(stmt, ast.Expr) and isinstance(stmt.value, ast.Call) and ast.unparse(stmt.value.func) == new + ".add_column"
            and len(stmt.value.args) == 2 and not stmt.value.keywords and ast.unparse(stmt.value.args[1]) == name):
        raise KeyError("statement in the loop: %s" % ast.unparse(stmt)[:50])
    e = ast.unparse(stmt.value.args[0]).replace(" ", "")
    if e == "%s+%s" % (left_c, right_c):
        return True
    if e == "%s+%s" % (right_c, left_c):
        return False
    raise KeyError("add_column(%s, ...)" % e[:30])


def table_add(prof):
    """`TableProfile.__add__` walked statement by statement.

    * before the loops: `new = TableProfile()` and the row counts of the two tables (`X._columns[0].count if X._columns else 0`);
    * first loop, over the LEFT table's column names: the two look-ups, `if not right_column:` -> the stand-in
      `ColumnProfile(name, left.type, <count>, <missing>)`, `new.add_column(left + right, name)`;
    * optional second loop, over the RIGHT table's column names: `if name not in self._column_names:` -> look-up of the right column,
      the stand-in for the left side, `new.add_column(left + right, name)`;
    * `return new`.

    -> dict with the stand-ins' count / missing expressions, the two sum orders and whether the second loop exists."""
    f = find_function(prof.tree, "__add__", "TableProfile")
    params = [a.arg for a in f.args.args]
    if len(params) != 2 or params[0] != "self":
        raise KeyError("__add__(self, right)")
    right = params[1]
    loops = [s for s in f.body if isinstance(s, ast.For)]
    if len(loops) not in (1, 2) or any(not isinstance(l.target, ast.Name) or l.orelse for l in loops):
        raise KeyError("one or two for-loops over column names")
    if ast.unparse(loops[0].iter) != "self._column_names":
        raise KeyError("for <name> in self._column_names")
    i0 = f.body.index(loops[0])
    if [f.body.index(l) for l in loops] != list(range(i0, i0 + len(loops))):
        raise KeyError("the loops follow each other")
    env, new = {}, None
    for s in f.body[:i0]:
        if isinstance(s, ast.Expr) and isinstance(s.value, ast.Constant):
            continue
        if not (isinstance(s, ast.Assign) and len(s.targets) == 1 and isinstance(s.targets[0], ast.Name)):
            raise KeyError("statement before the loop: %s" % type(s).__name__)
        v = ast.unparse(s.value).replace(" ", "")
        if v == "TableProfile()":
            new = s.targets[0].id
        elif v in [t.format(r=right) for t in ROWS_SHAPES]:
            env[s.targets[0].id] = "rr"
        elif v in [t.format(r="self") for t in ROWS_SHAPES]:
            env[s.targets[0].id] = "lr"
        else:
            raise KeyError("before the loop: %s = %s" % (s.targets[0].id, v[:40]))
    after = f.body[i0 + len(loops):]
    if new is None or len(after) != 1 or not isinstance(after[0], ast.Return) or ast.unparse(after[0].value) != new:
        raise KeyError("new = TableProfile() ... return new")

    # ---- first loop
    name = loops[0].target.id
    left_c = right_c = placeholder = order = None
    for s in loops[0].body:
        if isinstance(s, ast.Assign) and len(s.targets) == 1 and isinstance(s.targets[0], ast.Name) and placeholder is None and order is None:
            v = ast.unparse(s.value).replace(" ", "")
            if v == "self.column(%s)" % name and left_c is None:
                left_c = s.targets[0].id
                continue
            if v == "%s.column(%s)" % (right, name) and right_c is None:
                right_c = s.targets[0].id
                continue
            raise KeyError("in the loop: %s = %s" % (s.targets[0].id, v[:40]))
        if isinstance(s, ast.If) and right_c and left_c and placeholder is None and order is None and not s.orelse \
                and ast.unparse(s.test).replace(" ", "") in ("not%s" % right_c, "%sisNone" % right_c) and len(s.body) == 1:
            a = s.body[0]
            if not (isinstance(a, ast.Assign) and len(a.targets) == 1 and ast.unparse(a.targets[0]) == right_c):
                raise KeyError("the stand-in assignment")
            placeholder = _placeholder_args(a.value, name, left_c, env)
            continue
        if order is None and left_c and right_c and placeholder is not None:
            order = _sum_order(s, new, name, left_c, right_c)
            continue
        raise KeyError("statement in the loop: %s" % ast.unparse(s)[:50])
    if placeholder is None or order is None:
        raise KeyError("stand-in / add_column not found")
    out = {"rc": placeholder[0], "rm": placeholder[1], "first": order, "second": False, "lc": "lr", "lm": "lr", "second_first": True}

    # ---- second loop: the columns only the right table has
    if len(loops) == 2:
        lp = loops[1]
        n2 = lp.target.id
        if ast.unparse(lp.iter) != right + "._column_names":
            raise KeyError("second loop: for <name> in <right>._column_names")
        if not (len(lp.body) == 1 and isinstance(lp.body[0], ast.If) and not lp.body[0].orelse
                and ast.unparse(lp.body[0].test).replace(" ", "") in ("%snotinself._column_names" % n2, "notself.column(%s)" % n2,
                                                                       "self.column(%s)isNone" % n2)):
            raise KeyError("second loop: if <name> not in self._column_names")
        l2 = r2 = ph2 = ord2 = None
        for s in lp.body[0].body:
            if isinstance(s, ast.Assign) and len(s.targets) == 1 and isinstance(s.targets[0], ast.Name) and ord2 is None:
                v = ast.unparse(s.value).replace(" ", "")
                if v == "%s.column(%s)" % (right, n2) and r2 is None:
                    r2 = s.targets[0].id
                    continue
                if r2 is not None and ph2 is None and isinstance(s.value, ast.Call):
                    l2 = s.targets[0].id
                    ph2 = _placeholder_args(s.value, n2, r2, env)
                    continue
                raise KeyError("in the second loop: %s = %s" % (s.targets[0].id, v[:40]))
            if ord2 is None and l2 and r2:
                ord2 = _sum_order(s, new, n2, l2, r2)
                continue
            raise KeyError("statement in the second loop: %s" % ast.unparse(s)[:50])
        if ph2 is None or ord2 is None:
            raise KeyError("second loop: stand-in / add_column not found")
        out.update({"second": True, "lc": ph2[0], "lm": ph2[1], "second_first": ord2})
    return out


def generate_table(o, prof):
    import re

    cache = {}

    def part(key, expr):
        def g():
            if "v" not in cache:
                try:
                    cache["v"] = table_add(prof)
                except Exception as e:
                    cache["v"] = e
            if isinstance(cache["v"], Exception):
                raise cache["v"]
            text = cache["v"][key]
            if expr:
                free = set(re.findall(r"[A-Za-z_][A-Za-z0-9_.]*", text)) - {"c", "m", "lr", "rr"}
                if free:
                    raise KeyError("uses %s" % sorted(free))
                if set(re.findall(r"(?<![A-Za-z_0-9.])\d+(?![A-Za-z_0-9])", text)) - {"0", "1", "2"}:
                    raise KeyError("numeric literal")
            return text
        return g

    rc = o.item("table_prof.placeholder_count", part("rc", True), "rr")
    rm = o.item("table_prof.placeholder_missing", part("rm", True), "rr")
    lc = o.item("table_prof.left_placeholder_count", part("lc", True), "lr")
    lm = o.item("table_prof.left_placeholder_missing", part("lm", True), "lr")
    lf = o.item("table_prof.sum_left_first", part("first", False), True)
    sec = o.item("table_prof.keeps_right_only", part("second", False), True)
    lf2 = o.item("table_prof.right_only_left_first", part("second_first", False), True)
    b = lambda x: "true" if x else "false"
    o.files["TableProfExpr.lean"] = HEADER + '''/-!
The glue of `TableProfile.__add__` (`orso/profiler/profiler.py`) above `ColumnProfile.__add__`, lifted from the working tree
(harness/extractors/c14.py): for every column name of the **left** table the left and the right column are looked up by name;
a column the right table lacks is replaced by a stand-in `ColumnProfile(name, left.type, <count>, <missing>)` — no bounds,
no histogram — and the two are added.  A second loop (when the source has one) runs over the **right** table's names and adds
every column the left table lacks to a stand-in for the left side.

In the expressions `c` / `m` are `count` / `missing` of the column on the side that has it, `lr` / `rr` the row counts the left /
right table reports (`X._columns[0].count if X._columns else 0`).
-/
namespace Gen.TableProf
set_option linter.unusedVariables false

section
variable {K : Type} [Add K] [Sub K] [Mul K] [Div K] [OfNat K 0] [OfNat K 1] [OfNat K 2]

/-- `count` of the stand-in for a column the RIGHT table lacks -/
def placeholderCount (c m lr rr : K) : K := %s

/-- `missing` of that stand-in -/
def placeholderMissing (c m lr rr : K) : K := %s

/-- `count` of the stand-in for a column the LEFT table lacks (second loop) -/
def leftPlaceholderCount (c m lr rr : K) : K := %s

/-- `missing` of that stand-in -/
def leftPlaceholderMissing (c m lr rr : K) : K := %s
end

/-- first loop: `new.add_column(left_column + right_column, name)` — the left column is the left operand of the column sum -/
def sumLeftFirst : Bool := %s

/-- the source has the second loop: columns only the right table has are carried into the sum, after the left table's -/
def keepsRightOnly : Bool := %s

/-- second loop: `new.add_column(<stand-in> + right_column, name)` — the stand-in is the left operand -/
def rightOnlyLeftFirst : Bool := %s

end Gen.TableProf
''' % (rc, rm, lc, lm, b(lf), b(sec), b(lf2))


def generate(o):
    prof = Src("orso/profiler/profiler.py")
    dist = Src("orso/profiler/distogram/__init__.py")
    try:
        generate_obj(o, dist)
    except Exception as e:  # never let the object facts stop the profile facts
        o.degraded.append("distogram.obj failed: %s: %s" % (type(e).__name__, str(e)[:100]))
    try:
        generate_table(o, prof)
    except Exception as e:
        o.degraded.append("table_prof failed: %s: %s" % (type(e).__name__, str(e)[:100]))

    def counter(field):
        f = find_function(prof.tree, "__add__", "ColumnProfile")
        new, _ = add_start(f)
        hits = [s for s in f.body if isinstance(s, ast.AugAssign) and ast.unparse(s.target) == "%s.%s" % (new, field)]
        if len(hits) != 1:
            raise KeyError("%s.%s op= ..." % (new, field))
        s = hits[0]
        e = ast.BinOp(left=s.target, op=s.op, right=s.value)
        return to_lean(ast.parse(ast.unparse(e), mode="eval").body, {"%s.%s" % (new, field): "mine", "profile.%s" % field: "theirs"}, mode="field")

    def swap_test():
        f = find_function(prof.tree, "__add__", "ColumnProfile")
        new, _ = add_start(f)
        outer = [s for s in f.body if isinstance(s, ast.If) and ast.unparse(s.test) == "self.histogram and profile.histogram"]
        if len(outer) != 1:
            raise KeyError("if self.histogram and profile.histogram")
        body = outer[0].body
        names = {}
        for s in body:
            if isinstance(s, ast.Assign) and len(s.targets) == 1 and isinstance(s.targets[0], ast.Name):
                v = ast.unparse(s.value)
                if v == LOAD_ARGS % ("self", "self", "self"):
                    names[s.targets[0].id] = "mine"
                elif v == LOAD_ARGS % ("profile", "profile", "profile"):
                    names[s.targets[0].id] = "theirs"
        inner = [s for s in body if isinstance(s, ast.If)]
        if len(inner) != 1 or sorted(names.values()) != ["mine", "theirs"]:
            raise KeyError("the two loads and the inner if")
        inner = inner[0]

        def merged(stmts):
            if len(stmts) != 1 or not isinstance(stmts[0], ast.Assign) or ast.unparse(stmts[0].targets[0]) != new + ".histogram":
                raise KeyError("histogram assignment")
            v = stmts[0].value
            if not (isinstance(v, ast.Attribute) and v.attr == "bins" and isinstance(v.value, ast.Call)
                    and ast.unparse(v.value.func) == "distogram.merge" and len(v.value.args) == 2):
                raise KeyError("distogram.merge(a, b).bins")
            return [names.get(ast.unparse(a)) for a in v.value.args]

        if merged(inner.body) != ["theirs", "mine"] or merged(inner.orelse) != ["mine", "theirs"]:
            raise KeyError("merge order of the two branches")
        other = outer[0].orelse
        if not (len(other) == 1 and isinstance(other[0], ast.If) and ast.unparse(other[0].test) == "profile.histogram" and not other[0].orelse):
            raise KeyError("elif profile.histogram")
        return to_lean(inner.test, {"len(self.histogram)": "la", "len(profile.histogram)": "lb"}, mode="int")

    def only(names, getter, nat=False):
        import re

        def g():
            text = getter()
            free = set(re.findall(r"[A-Za-z_][A-Za-z0-9_]*", text)) - {"if", "then", "else", "min", "max"}
            if not free <= set(names):
                raise KeyError("uses %s" % sorted(free - set(names)))
            lits = set(re.findall(r"(?<![A-Za-z_0-9.])\d+(?![A-Za-z_0-9])", text)) - {"0", "1", "2"}
            if lits and not nat:
                raise KeyError("numeric literal %s" % sorted(lits))
            return text

        return g

    uses = o.item("profile_est.estimate_uses_cache", lambda: uses_cache(prof)[0], True)
    drops = o.item("profile_est.add_drops_cache", lambda: drops_cache(prof), True)
    cnt = o.item("profile_est.add_count", only(["mine", "theirs"], lambda: counter("count")), "(mine + theirs)")
    mis = o.item("profile_est.add_missing", only(["mine", "theirs"], lambda: counter("missing")), "(mine + theirs)")
    swp = o.item("profile_est.add_swap_test", only(["la", "lb"], swap_test, nat=True), "(lb > la)")
    blw = o.item("profile_est.estimate_below", only(["total", "c"], lambda: below_expr(prof)), "c")
    lmin = o.item("profile_est.load_min", lambda: load_bound(dist, "min"), "given")
    lmax = o.item("profile_est.load_max", lambda: load_bound(dist, "max"), "given")
    how = {"given": "LoadBound.given", "falsy-first": "LoadBound.falsyFirst", "falsy-last": "LoadBound.falsyLast"}
    b = lambda x: "true" if x else "false"
    text = HEADER + '''/-!
Sequencing facts of `ColumnProfile` (`orso/profiler/profiler.py`): the cached `Distogram` of the estimators and
what `__add__` copies and recomputes (harness/extractors/c14.py).
-/
namespace Gen.ProfileEst
set_option linter.unusedVariables false

/-- How `distogram.load(bins, minimum, maximum)` sets a bound of the histogram it returns: the argument as it is, or
`argument or <first / last centre>` — Python's `or` replaces a bound that is `None` **or zero**. -/
inductive LoadBound where
  | given
  | falsyFirst
  | falsyLast
  deriving DecidableEq, Repr

/-- `dgram.min = …` in `load` -/
def loadMin : LoadBound := %s

/-- `dgram.max = …` in `load` -/
def loadMax : LoadBound := %s

/-- the estimators reuse the `Distogram` an earlier estimate left on the object (`if not hasattr(self, …)`) -/
def estimateUsesCache : Bool := %s

/-- `__add__` removes that attribute from the deep copy of `self` it starts from -/
def addDropsCache : Bool := %s

section
variable {K : Type} [Add K] [Sub K] [Mul K] [Div K] [OfNat K 0] [OfNat K 1] [OfNat K 2]

/-- `new_profile.count += profile.count` -/
def addCount (mine theirs : K) : K := %s

/-- `new_profile.missing += profile.missing` -/
def addMissing (mine theirs : K) : K := %s

/-- what `estimate_values_below(point)` returns: `c` = `distogram.count_at(<the kept Distogram>, point)`, `total` = that
histogram's own total -/
def estimateBelowExpr (total c : K) : K := %s
end

/-- `len(profile.histogram) > len(self.histogram)`: the longer histogram receives the other one's bins -/
def addSwapTest (la lb : Nat) : Bool := decide %s

end Gen.ProfileEst
''' % (how[lmin], how[lmax], b(uses), b(drops), cnt, mis, blw, swp)
    o.files["ProfileEstExpr.lean"] = text
