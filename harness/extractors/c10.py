"""C10: the guards of collect_cython / calculate_data_width, lifted from compiled.pyx into Lean terms.

The `.pyx` is not Python, but these guard lines are Python expressions; they are located by the
statement shape (`if <expr>:` over the expected variable names) and translated with pyexpr.
"""
import ast
import re

from ..extract import HEADER, Src
from ..pyexpr import to_lean


def generate(o):
    pyx = Src("orso/compute/compiled.pyx")
    text_src = pyx.text

    def func_body(name):
        m = re.search(r"^cpdef[^\n]*\b%s\s*\(.*?(?=^cpdef |^def |\Z)" % name, text_src, re.S | re.M)
        if not m:
            raise KeyError(name)
        return m.group(0)

    def if_expr(body, must_mention):
        for m in re.finditer(r"^\s*if\s+(.+?):\s*(?:#.*)?$", body, re.M):
            e = m.group(1)
            if all(v in e for v in must_mention):
                return ast.parse(e.strip(), mode="eval").body
        raise KeyError("if over %s" % (must_mention,))

    def bad_index():
        return to_lean(if_expr(func_body("collect_cython"), ["col_idx", "row_width"]), {"col_idx": "c", "row_width": "width"})

    def limit_applies():
        return to_lean(if_expr(func_body("collect_cython"), ["limit", "num_rows"]), {"limit": "limit", "num_rows": "n"})

    def early_exit():
        return to_lean(if_expr(func_body("collect_cython"), ["num_rows", "num_cols", "=="]), {"num_rows": "nrows", "num_cols": "ncols"})

    def width_floor():
        m = re.search(r"^\s*max_width\s*=\s*(\d+)", func_body("calculate_data_width"), re.M)
        if not m:
            raise KeyError("max_width = N")
        return int(m.group(1))

    def width_test():
        return to_lean(if_expr(func_body("calculate_data_width"), ["width", "max_width"]), {"width": "w", "max_width": "acc"})

    bi = o.item("pyx.collect.bad_index", bad_index, "((c < 0) ∨ (c ≥ width))")
    la = o.item("pyx.collect.limit_applies", limit_applies, "((limit ≥ 0) ∧ (limit < n))")
    ee = o.item("pyx.collect.early_exit", early_exit, "((nrows = 0) ∨ (ncols = 0))")
    wf = o.item("pyx.width.floor", width_floor, 4)
    wt = o.item("pyx.width.update_test", width_test, "(w > acc)")
    t = HEADER + "namespace Gen.Kernels\n"
    t += "/-- collect_cython: the one-time bounds check on a requested column index -/\n"
    t += "def badIndex (c width : Int) : Prop := %s\n" % bi
    t += "instance (c width : Int) : Decidable (badIndex c width) := by unfold badIndex; infer_instance\n"
    t += "/-- collect_cython: when the limit replaces the row count -/\n"
    t += "def limitApplies (limit n : Int) : Prop := %s\n" % la
    t += "instance (limit n : Int) : Decidable (limitApplies limit n) := by unfold limitApplies; infer_instance\n"
    t += "/-- collect_cython: the early exit for nothing to collect -/\n"
    t += "def earlyExit (nrows ncols : Int) : Prop := %s\n" % ee
    t += "instance (nrows ncols : Int) : Decidable (earlyExit nrows ncols) := by unfold earlyExit; infer_instance\n"
    t += "/-- calculate_data_width: the default width and the update test -/\n"
    t += "def widthFloor : Nat := %d\n" % wf
    t += "def widthUpdates (w acc : Int) : Prop := %s\n" % wt
    t += "instance (w acc : Int) : Decidable (widthUpdates w acc) := by unfold widthUpdates; infer_instance\n"
    t += "end Gen.Kernels\n"
    o.files["KernelsExpr.lean"] = t
