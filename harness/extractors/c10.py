"""C10: the guards of collect_cython / calculate_data_width, lifted from compiled.pyx into Lean terms.

The `.pyx` is not Python, but these guard lines are Python expressions; they are located by the
statement shape (`if <expr>:` over the expected variable names) and translated with pyexpr.
"""
import ast
import re

from ..extract import HEADER, Src
from ..pyexpr import to_lean


def generate(o):
    pyx = Src("orso/compute/compiled.pyx")
    text_src = pyx.text

    def func_body(name):
        m = re.search(r"^cpdef[^\n]*\b%s\s*\(.*?(?=^cpdef |^def |\Z)" % name, text_src, re.S | re.M)
        if not m:
            raise KeyError(name)
        return m.group(0)

    def if_expr(body, must_mention):
        for m in re.finditer(r"^\s*if\s+(.+?):\s*(?:#.*)?$", body, re.M):
            e = m.group(1)
            if all(v in e for v in must_mention):
                return ast.parse(e.strip(), mode="eval").body
        raise KeyError("if over %s" % (must_mention,))

    def bad_index():
        return to_lean(if_expr(func_body("collect_cython"), ["col_idx", "row_width"]), {"col_idx": "c", "row_width": "width"})

    def limit_applies():
        return to_lean(if_expr(func_body("collect_cython"), ["limit", "num_rows"]), {"limit": "limit", "num_rows": "n"})

    def early_exit():
        return to_lean(if_expr(func_body("collect_cython"), ["num_rows", "num_cols", "=="]), {"num_rows": "nrows", "num_cols": "ncols"})

    def width_floor():
        m = re.search(r"^\s*max_width\s*=\s*(\d+)", func_body("calculate_data_width"), re.M)
        if not m:
            raise KeyError("max_width = N")
        return int(m.group(1))

    def width_test():
        return to_lean(if_expr(func_body("calculate_data_width"), ["width", "max_width"]), {"width": "w", "max_width": "acc"})

    def fast_paths():
        """[(num_cols, {result row: position in `columns`})] for the specialised branches, plus a check of the general one."""
        body = func_body("collect_cython")
        lines = body.split("\n")
        heads = [(i, re.match(r"^(\s*)(if|elif)\s+num_cols\s*==\s*(\d+)\s*:\s*(?:#.*)?$", l)) for i, l in enumerate(lines)]
        heads = [(i, m) for i, m in heads if m]
        if len(heads) != 2 or heads[0][1].group(2) != "if" or heads[1][1].group(2) != "elif":
            raise KeyError("if num_cols == a / elif num_cols == b")
        indent = heads[0][1].group(1)
        els = [i for i, l in enumerate(lines) if re.match(r"^%selse\s*:\s*(?:#.*)?$" % re.escape(indent), l) and i > heads[1][0]]
        if len(els) != 1:
            raise KeyError("else branch of the num_cols dispatch")
        end = next((i for i in range(els[0] + 1, len(lines)) if lines[i].strip() and not lines[i].startswith(indent + " ")), len(lines))
        blocks = [(int(heads[0][1].group(3)), lines[heads[0][0] + 1 : heads[1][0]]), (int(heads[1][1].group(3)), lines[heads[1][0] + 1 : els[0]])]
        out = []
        for width, blk in blocks:
            code = [l.split("#")[0].strip() for l in blk]
            code = [l for l in code if l]
            src, loopvar, table = {}, None, {}
            for l in code:
                m = re.match(r"^(\w+)\s*=\s*columns\[(\d+)\]$", l)
                if m:
                    src[m.group(1)] = int(m.group(2))
                    continue
                m = re.match(r"^for\s+(\w+)\s+in\s+range\(num_rows\)\s*:$", l)
                if m and loopvar is None:
                    loopvar = m.group(1)
                    continue
                m = re.match(r"^tuple_row\s*=\s*<tuple>\s*rows\[(\w+)\]$", l)
                if m and m.group(1) == loopvar:
                    continue
                m = re.match(r"^result\[(\d+),\s*(\w+)\]\s*=\s*tuple_row\[(\w+)\]$", l)
                if m and m.group(2) == loopvar and m.group(3) in src and int(m.group(1)) not in table:
                    table[int(m.group(1))] = src[m.group(3)]
                    continue
                raise KeyError("unrecognised statement in the %d-column path: %s" % (width, l))
            if sorted(table) != list(range(len(out) + 1)):
                raise KeyError("the %d-column path does not fill result rows 0..%d" % (width, len(out)))
            out.append([width, [table[r] for r in range(len(out) + 1)]])
        gen = [l.split("#")[0].strip() for l in lines[els[0] + 1 : end]]
        gen = [l for l in gen if l]
        want = ["for i in range(num_rows):", "tuple_row = <tuple>rows[i]", "for j in range(num_cols):", "result[j, i] = tuple_row[columns[j]]"]
        if gen != want:
            raise KeyError("general path is not the plain double loop")
        return out

    def int_expr(text, env):
        node = ast.parse(text.strip(), mode="eval").body

        def ok(n):
            if ast.unparse(n) in env:
                return True
            if isinstance(n, ast.Constant):
                return isinstance(n.value, int) and not isinstance(n.value, bool)
            if isinstance(n, ast.BinOp):
                return type(n.op) in (ast.Add, ast.Sub, ast.Mult) and ok(n.left) and ok(n.right)
            return False

        if not ok(node):
            raise KeyError("not an integer expression: " + text.strip())
        return to_lean(node, env)

    def extract_exprs():
        body = func_body("extract_dict_columns")
        m1 = re.search(r"\bnum_fields\s*=\s*([^\n,#]+)", body)
        m2 = re.search(r"^\s*(?:cdef\s+list\s+)?field_data\s*=\s*\[None\]\s*\*\s*([^\n#]+)$", body, re.M)
        m3 = re.search(r"^\s*for\s+i\s+in\s+range\(([^\n#]+)\)\s*:", body, re.M)
        if not (m1 and m2 and m3):
            raise KeyError("num_fields = …, field_data = [None] * …, for i in range(…)")
        if not (re.search(r"PyDict_GetItem\(data,\s*fields\[i\]\)", body) and len(re.findall(r"field_data\[i\]\s*=", body)) == 2
                and re.search(r"return\s+tuple\(field_data\)", body)):
            raise KeyError("loop body of extract_dict_columns")
        return [int_expr(m1.group(1), {"len(fields)": "len"}), int_expr(m2.group(1), {"num_fields": "num_fields"}),
                int_expr(m3.group(1), {"num_fields": "num_fields"})]

    xe = o.item("pyx.extract.sizes", extract_exprs, ["len", "num_fields", "num_fields"])
    fp = o.item("pyx.collect.fast_paths", fast_paths, [[1, [0]], [2, [0, 1]]])
    bi = o.item("pyx.collect.bad_index", bad_index, "((c < 0) ∨ (c ≥ width))")
    la = o.item("pyx.collect.limit_applies", limit_applies, "((limit ≥ 0) ∧ (limit < n))")
    ee = o.item("pyx.collect.early_exit", early_exit, "((nrows = 0) ∨ (ncols = 0))")
    wf = o.item("pyx.width.floor", width_floor, 4)
    wt = o.item("pyx.width.update_test", width_test, "(w > acc)")
    t = HEADER + "namespace Gen.Kernels\n"
    t += "/-- collect_cython: the one-time bounds check on a requested column index -/\n"
    t += "def badIndex (c width : Int) : Prop := %s\n" % bi
    t += "instance (c width : Int) : Decidable (badIndex c width) := by unfold badIndex; infer_instance\n"
    t += "/-- collect_cython: when the limit replaces the row count -/\n"
    t += "def limitApplies (limit n : Int) : Prop := %s\n" % la
    t += "instance (limit n : Int) : Decidable (limitApplies limit n) := by unfold limitApplies; infer_instance\n"
    t += "/-- collect_cython: the early exit for nothing to collect -/\n"
    t += "def earlyExit (nrows ncols : Int) : Prop := %s\n" % ee
    t += "instance (nrows ncols : Int) : Decidable (earlyExit nrows ncols) := by unfold earlyExit; infer_instance\n"
    t += "/-- calculate_data_width: the default width and the update test -/\n"
    t += "def widthFloor : Nat := %d\n" % wf
    t += "def widthUpdates (w acc : Int) : Prop := %s\n" % wt
    t += "instance (w acc : Int) : Decidable (widthUpdates w acc) := by unfold widthUpdates; infer_instance\n"
    t += "/-- collect_cython: the specialised branches `num_cols == 1` / `num_cols == 2`: which position of `columns` feeds each result row -/\n"
    t += "def fastWidth1 : Nat := %d\n" % fp[0][0]
    t += "def path1Src : Nat := %d\n" % fp[0][1][0]
    t += "def fastWidth2 : Nat := %d\n" % fp[1][0]
    t += "def path2Src0 : Nat := %d\n" % fp[1][1][0]
    t += "def path2Src1 : Nat := %d\n" % fp[1][1][1]
    t += "/-- extract_dict_columns: the field count, the size of the allocated list and the loop bound -/\n"
    t += "def extractCount (len : Int) : Int := %s\n" % xe[0]
    t += "def extractAlloc (num_fields : Int) : Int := %s\n" % xe[1]
    t += "def extractBound (num_fields : Int) : Int := %s\n" % xe[2]
    t += "end Gen.Kernels\n"
    o.files["KernelsExpr.lean"] = t
