"""C16 tables from orso/schema.py: the declared attributes of FlatColumn and RelationSchema (dataclass
fields, in order), the keyword arguments to_flatcolumn forwards (keyword -> attribute read from self),
the RelationSchema attributes from_dict restores (keyword -> dictionary key read), whether to_dict /
to_json emit every declared attribute (dataclasses.asdict), and the ColumnDisposition members.

Everything is read with `ast` from the working tree; each item degrades to its pinned value when the
construct is not found in the expected shape (a harmless refactor), never failing the run.
"""
import ast

from ..extract import HEADER, Src, lean_list, lean_str

PINNED_COLUMN_FIELDS = ["name", "default", "type", "element_type", "description", "disposition", "aliases", "nullable",
                        "expectations", "identity", "length", "precision", "scale", "origin", "highest_value",
                        "lowest_value", "null_count"]
PINNED_SCHEMA_FIELDS = ["name", "aliases", "columns", "primary_key", "row_count_metric", "row_count_estimate",
                        "data_size_metric", "data_size_estimate"]
PINNED_FLAT = [[k, k] for k in ["name", "default", "description", "aliases", "identity", "type", "element_type", "nullable",
                                "scale", "precision", "lowest_value", "highest_value", "null_count"]]
PINNED_RESTORES = [["name", "name"], ["aliases", "aliases"], ["primary_key", "primary_key"], ["columns", "columns"]]
PINNED_DISPOSITIONS = [["NAME", "name"], ["AGE", "age"]]
# statement-level items (round 2)
PINNED_FROM_DICT_RULES = [
    [[["eqValue", "type", "_MISSING_TYPE"]], "type", "_MISSING_TYPE"],
    [[["eqValue", "element_type", "_MISSING_TYPE"]], "element_type", "_MISSING_TYPE"],
    [[["eqValue", "type", "ARRAY"], ["present", "element_type", ""], ["isNone", "element_type", ""]], "type", "ARRAY"],
]
PINNED_INIT_FILLS = [["element_type", "isNone", "elem"], ["precision", "isNone", "precision"], ["scale", "isNone", "scale"],
                     ["length", "isNone", "length"]]
PINNED_DECIMAL_FILLS = [["precision", "isNone"], ["scale", "isNone"]]
PINNED_LITERAL_GUARDS = [["type", "notMember"], ["element_type", "notNoneNotMember"], ["disposition", "notNoneNotMember"]]


def _class(src, name):
    for n in src.tree.body:
        if isinstance(n, ast.ClassDef) and n.name == name:
            return n
    raise KeyError(name)


def _fields(src, name):
    """Names of the annotated class attributes (= dataclass fields), in order."""
    cls = _class(src, name)
    if not any((isinstance(d, ast.Name) and d.id == "dataclass")
               or (isinstance(d, ast.Call) and isinstance(d.func, ast.Name) and d.func.id == "dataclass")
               for d in cls.decorator_list):
        raise KeyError(name + " is not a dataclass")
    out = []
    for s in cls.body:
        if isinstance(s, ast.AnnAssign) and isinstance(s.target, ast.Name):
            if "ClassVar" in ast.dump(s.annotation):
                continue
            out.append(s.target.id)
    if not out:
        raise KeyError("no fields in " + name)
    return out


def _method(src, cls, name):
    for s in _class(src, cls).body:
        if isinstance(s, (ast.FunctionDef, ast.AsyncFunctionDef)) and s.name == name:
            return s
    raise KeyError("%s.%s" % (cls, name))


def _self_attr(v):
    """`self.X` or `str(self.X)` -> 'X'."""
    if isinstance(v, ast.Call) and isinstance(v.func, ast.Name) and v.func.id == "str" and len(v.args) == 1 and not v.keywords:
        v = v.args[0]
    if isinstance(v, ast.Attribute) and isinstance(v.value, ast.Name) and v.value.id == "self":
        return v.attr
    raise KeyError("keyword value is not an attribute of self")


def _dict_key(v, dic):
    """`dic["k"]`, `dic.get("k")`, `dic.get("k", default)` -> 'k'."""
    if isinstance(v, ast.Subscript) and isinstance(v.value, ast.Name) and v.value.id == dic \
            and isinstance(v.slice, ast.Constant) and isinstance(v.slice.value, str):
        return v.slice.value
    if isinstance(v, ast.Call) and isinstance(v.func, ast.Attribute) and v.func.attr == "get" \
            and isinstance(v.func.value, ast.Name) and v.func.value.id == dic and v.args \
            and isinstance(v.args[0], ast.Constant) and isinstance(v.args[0].value, str):
        return v.args[0].value
    raise KeyError("keyword value does not read the dictionary")


def _uses_asdict_of_self(fn):
    for n in ast.walk(fn):
        if isinstance(n, ast.Call) and isinstance(n.func, ast.Name) and n.func.id == "asdict" and n.args \
                and isinstance(n.args[0], ast.Name) and n.args[0].id == "self":
            return True
    return False


def _is_self_attr(n, attr=None):
    return isinstance(n, ast.Attribute) and isinstance(n.value, ast.Name) and n.value.id == "self" and (attr is None or n.attr == attr)


def _orso_member(n):
    """`OrsoTypes.X` -> 'X'"""
    if isinstance(n, ast.Attribute) and isinstance(n.value, ast.Name) and n.value.id == "OrsoTypes":
        return n.attr
    raise KeyError("not an OrsoTypes member")


def _from_dict_rules(schema):
    """FlatColumn.from_dict, statement by statement: `if <conds>: dic = {**dic, "k": OrsoTypes.M}` ... `return cls(**dic)`.
    conds: `dic.get("k") == OrsoTypes.M.value`, `"k" in dic`, `dic["k"] is None`, joined by `and`."""
    fn = _method(schema, "FlatColumn", "from_dict")
    dic = fn.args.args[1].arg
    body = [s for s in fn.body if not (isinstance(s, ast.Expr) and isinstance(s.value, ast.Constant))]  # docstring
    if not body:
        raise KeyError("empty body")
    last = body[-1]
    ok = isinstance(last, ast.Return) and isinstance(last.value, ast.Call) and isinstance(last.value.func, ast.Name) \
        and last.value.func.id == "cls" and not last.value.args and len(last.value.keywords) == 1 \
        and last.value.keywords[0].arg is None and isinstance(last.value.keywords[0].value, ast.Name) \
        and last.value.keywords[0].value.id == dic
    if not ok:
        raise KeyError("does not end with return cls(**dic)")

    def cond(t):
        if isinstance(t, ast.Compare) and len(t.ops) == 1:
            left, op, right = t.left, t.ops[0], t.comparators[0]
            if isinstance(op, ast.Eq):
                key = _dict_key(left, dic)
                if not (isinstance(left, ast.Call) and len(left.args) == 1):
                    raise KeyError("== on something other than dic.get(k)")
                if isinstance(right, ast.Attribute) and right.attr == "value":
                    return ["eqValue", key, _orso_member(right.value)]
            if isinstance(op, ast.In) and isinstance(left, ast.Constant) and isinstance(left.value, str) \
                    and isinstance(right, ast.Name) and right.id == dic:
                return ["present", left.value, ""]
            if isinstance(op, ast.Is) and isinstance(right, ast.Constant) and right.value is None \
                    and isinstance(left, ast.Subscript):
                return ["isNone", _dict_key(left, dic), ""]
        raise KeyError("condition shape: " + ast.unparse(t)[:40])

    rules = []
    for st in body[:-1]:
        if not (isinstance(st, ast.If) and not st.orelse and len(st.body) == 1):
            raise KeyError("statement shape: " + ast.unparse(st)[:40])
        conds = [cond(v) for v in st.test.values] if isinstance(st.test, ast.BoolOp) and isinstance(st.test.op, ast.And) else [cond(st.test)]
        seen = set()
        for c in conds:  # `dic[k] is None` only after `k in dic` (otherwise a KeyError path the model does not have)
            if c[0] == "isNone" and c[1] not in seen:
                raise KeyError("dic[k] is None without k in dic")
            if c[0] == "present":
                seen.add(c[1])
        a = st.body[0]
        if not (isinstance(a, ast.Assign) and len(a.targets) == 1 and isinstance(a.targets[0], ast.Name) and a.targets[0].id == dic
                and isinstance(a.value, ast.Dict) and len(a.value.keys) == 2 and a.value.keys[0] is None
                and isinstance(a.value.values[0], ast.Name) and a.value.values[0].id == dic
                and isinstance(a.value.keys[1], ast.Constant)):
            raise KeyError("assignment shape: " + ast.unparse(a)[:40])
        key = a.value.keys[1].value
        if key not in ("type", "element_type") or any(c[1] not in ("type", "element_type") for c in conds):
            raise KeyError("rule on another key")
        rules.append([conds, key, _orso_member(a.value.values[1])])
    return rules


def _init_type_block(schema):
    """FlatColumn.__init__: the `if self.type.__class__ is not OrsoTypes:` block -> (unpacking targets, fill statements)"""
    fn = _method(schema, "FlatColumn", "__init__")
    for st in fn.body:
        if isinstance(st, ast.If) and ast.unparse(st.test) == "self.type.__class__ is not OrsoTypes":
            first = st.body[0]
            if not (isinstance(first, ast.Assign) and len(first.targets) == 1 and isinstance(first.targets[0], ast.Tuple)
                    and ast.unparse(first.value) == "OrsoTypes.from_name(self.type)"):
                raise KeyError("unpacking of from_name")
            targets = []
            for t in first.targets[0].elts:
                targets.append("self." + t.attr if _is_self_attr(t) else t.id)
            fills = None
            for inner in st.body[1:]:
                if isinstance(inner, ast.If) and ast.unparse(inner.test) == "isinstance(self.type, OrsoTypes)":
                    fills = inner.body
            if fills is None:
                raise KeyError("isinstance(self.type, OrsoTypes) block")
            return targets, fills
    raise KeyError("type literal block")


def _from_name_return(types):
    fn = types.func("from_name", "OrsoTypes")
    rets = [n for n in ast.walk(fn) if isinstance(n, ast.Return) and isinstance(n.value, ast.Tuple)]
    names = [tuple(e.id for e in r.value.elts[1:]) for r in rets]  # the first element is the type (a member or `_type`)
    if not names or len(set(names)) != 1:
        raise KeyError("from_name returns")
    return ["_type"] + list(names[0])


FIELD_OF_RETURN = {"_type": "type", "_length": "length", "_precision": "precision", "_scale": "scale", "_element_type": "elem"}


def _init_fills(schema, types):
    targets, fills = _init_type_block(schema)
    ret = _from_name_return(types)
    if len(targets) != len(ret) or targets[0] != "self.type" or ret[0] != "_type":
        raise KeyError("unpacking does not match from_name's return")
    var_field = {t: FIELD_OF_RETURN[r] for t, r in zip(targets[1:], ret[1:])}
    out = []
    for st in fills:
        # `if self.A is None: self.A = _b`   |   `self.A = self.A or _b`
        if isinstance(st, ast.If) and not st.orelse and len(st.body) == 1 and isinstance(st.test, ast.Compare) \
                and len(st.test.ops) == 1 and isinstance(st.test.ops[0], ast.Is) and _is_self_attr(st.test.left) \
                and isinstance(st.test.comparators[0], ast.Constant) and st.test.comparators[0].value is None:
            a = st.body[0]
            if isinstance(a, ast.Assign) and len(a.targets) == 1 and _is_self_attr(a.targets[0], st.test.left.attr) \
                    and isinstance(a.value, ast.Name):
                out.append([st.test.left.attr, "isNone", var_field[a.value.id]])
                continue
        if isinstance(st, ast.Assign) and len(st.targets) == 1 and _is_self_attr(st.targets[0]) \
                and isinstance(st.value, ast.BoolOp) and isinstance(st.value.op, ast.Or) and len(st.value.values) == 2 \
                and _is_self_attr(st.value.values[0], st.targets[0].attr) and isinstance(st.value.values[1], ast.Name):
            out.append([st.targets[0].attr, "falsy", var_field[st.value.values[1].id]])
            continue
        raise KeyError("fill statement shape: " + ast.unparse(st)[:40])
    for attr, _, field in out:
        if attr not in ("element_type", "precision", "scale", "length") or (attr == "element_type") != (field == "elem"):
            raise KeyError("fill of another attribute")
    if len(set(a for a, _, _ in out)) != len(out):
        raise KeyError("an attribute filled twice")
    return out


def _decimal_fills(schema):
    """`if self.type == OrsoTypes.DECIMAL and self.X is None: self.X = ...` (precision before scale)"""
    fn = _method(schema, "FlatColumn", "__init__")
    out = []
    for st in fn.body:
        if isinstance(st, ast.If) and isinstance(st.test, ast.BoolOp) and isinstance(st.test.op, ast.And) and len(st.test.values) == 2 \
                and ast.unparse(st.test.values[0]) == "self.type == OrsoTypes.DECIMAL":
            g = st.test.values[1]
            if isinstance(g, ast.Compare) and len(g.ops) == 1 and isinstance(g.ops[0], ast.Is) and _is_self_attr(g.left) \
                    and isinstance(g.comparators[0], ast.Constant) and g.comparators[0].value is None:
                out.append([g.left.attr, "isNone"])
            elif isinstance(g, ast.UnaryOp) and isinstance(g.op, ast.Not) and _is_self_attr(g.operand):
                out.append([g.operand.attr, "falsy"])
            else:
                raise KeyError("DECIMAL guard shape: " + ast.unparse(g)[:40])
            assigned = [a for a in st.body if isinstance(a, ast.Assign) and len(a.targets) == 1 and _is_self_attr(a.targets[0], out[-1][0])]
            if len(assigned) != 1:
                raise KeyError("DECIMAL default assignment")
    if [a for a, _ in out] != ["precision", "scale"]:
        raise KeyError("DECIMAL defaults: expected precision then scale")
    return out


def _literal_guards(schema):
    """the guards of the three literal -> member mappings in __init__, in order"""
    fn = _method(schema, "FlatColumn", "__init__")
    shapes = {
        "self.type.__class__ is not OrsoTypes": ["type", "notMember"],
        "self.element_type is not None and self.element_type.__class__ is not OrsoTypes": ["element_type", "notNoneNotMember"],
        "self.disposition is not None and self.disposition.__class__ is not ColumnDisposition": ["disposition", "notNoneNotMember"],
    }
    out = [shapes[ast.unparse(st.test)] for st in fn.body if isinstance(st, ast.If) and ast.unparse(st.test) in shapes]
    if out != PINNED_LITERAL_GUARDS:
        raise KeyError("literal mapping guards")
    return out


def _enum_written_as(schema):
    fn = _method(schema, "RelationSchema", "to_dict")
    for n in ast.walk(fn):
        if isinstance(n, ast.IfExp) and ast.unparse(n.test) in ("isinstance(value, Enum)", "isinstance(value, enum.Enum)") \
                and isinstance(n.body, ast.Attribute) and ast.unparse(n.body.value) == "value" and ast.unparse(n.orelse) == "value" \
                and n.body.attr in ("value", "name"):
            return n.body.attr
    raise KeyError("_converter shape")


def _column_loader(schema):
    """RelationSchema.from_dict: how a dictionary column is loaded -> 'from_dict' | 'init'"""
    fn = _method(schema, "RelationSchema", "from_dict")
    for n in ast.walk(fn):
        if isinstance(n, ast.If) and ast.unparse(n.test).startswith("isinstance(") and ast.unparse(n.test).endswith(", dict)"):
            calls = [c for c in ast.walk(n) if isinstance(c, ast.Call) and isinstance(c.func, ast.Attribute) and c.func.attr == "append"]
            if len(calls) == 1 and len(calls[0].args) == 1 and isinstance(calls[0].args[0], ast.Call):
                inner = calls[0].args[0]
                f = ast.unparse(inner.func)
                if f == "FlatColumn.from_dict" and len(inner.args) == 1 and not inner.keywords:
                    return "from_dict"
                if f == "FlatColumn" and not inner.args and len(inner.keywords) == 1 and inner.keywords[0].arg is None:
                    return "init"
    raise KeyError("column loader")


def _json_loader(schema):
    fn = _method(schema, "FlatColumn", "from_json")
    rets = [s for s in fn.body if isinstance(s, ast.Return)]
    if len(rets) == 1 and isinstance(rets[0].value, ast.Call):
        c = rets[0].value
        f = ast.unparse(c.func)
        if f in ("cls.from_dict", "FlatColumn.from_dict") and len(c.args) == 1 and not c.keywords:
            return "from_dict"
        if f in ("cls", "FlatColumn") and not c.args and len(c.keywords) == 1 and c.keywords[0].arg is None:
            return "init"
    raise KeyError("from_json loader")


def generate(o):
    schema = Src("orso/schema.py")
    types = Src("orso/types.py")

    cf = o.item("schema.FlatColumn.fields", lambda: _fields(schema, "FlatColumn"), PINNED_COLUMN_FIELDS)
    sf = o.item("schema.RelationSchema.fields", lambda: _fields(schema, "RelationSchema"), PINNED_SCHEMA_FIELDS)

    def flat():
        fn = _method(schema, "FlatColumn", "to_flatcolumn")
        for n in ast.walk(fn):
            if isinstance(n, ast.Return) and isinstance(n.value, ast.Call) and isinstance(n.value.func, ast.Name) \
                    and n.value.func.id == "FlatColumn":
                if n.value.args or any(k.arg is None for k in n.value.keywords):
                    raise KeyError("positional / ** arguments")
                return [[k.arg, _self_attr(k.value)] for k in n.value.keywords]
        raise KeyError("return FlatColumn(...)")

    fk = o.item("schema.to_flatcolumn.kwargs", flat, PINNED_FLAT)

    def restores():
        fn = _method(schema, "RelationSchema", "from_dict")
        dic = fn.args.args[1].arg
        out = None
        for n in ast.walk(fn):
            if isinstance(n, ast.Call) and isinstance(n.func, ast.Name) and n.func.id in ("RelationSchema", "cls") \
                    and not n.args and all(k.arg is not None for k in n.keywords):
                out = [[k.arg, _dict_key(k.value, dic)] for k in n.keywords]
                break
        if out is None:
            raise KeyError("RelationSchema(...) call")
        # the loop `for column in dic["columns"]: ... schema.columns.append(...)`
        for n in ast.walk(fn):
            if isinstance(n, ast.For):
                try:
                    key = _dict_key(n.iter, dic)
                except KeyError:
                    continue
                appended = [c for c in ast.walk(n) if isinstance(c, ast.Call) and isinstance(c.func, ast.Attribute)
                            and c.func.attr == "append" and isinstance(c.func.value, ast.Attribute)]
                if appended:
                    out.append([appended[0].func.value.attr, key])
        return out

    rs = o.item("schema.from_dict.restores", restores, PINNED_RESTORES)

    td = o.item("schema.to_dict.asdict", lambda: _uses_asdict_of_self(_method(schema, "RelationSchema", "to_dict")), True)
    tj = o.item("schema.to_json.asdict", lambda: _uses_asdict_of_self(_method(schema, "FlatColumn", "to_json")), True)
    if not td:
        o.degraded.append("schema.to_dict.asdict (to_dict no longer returns asdict(self): emitted keys tied by correspondence only)")
    if not tj:
        o.degraded.append("schema.to_json.asdict (to_json no longer serialises asdict(self): emitted keys tied by correspondence only)")

    def dispositions():
        cls = _class(schema, "ColumnDisposition")
        out = []
        for s in cls.body:
            if isinstance(s, ast.Assign) and len(s.targets) == 1 and isinstance(s.targets[0], ast.Name) \
                    and isinstance(s.value, ast.Constant) and isinstance(s.value.value, str):
                out.append([s.targets[0].id, s.value.value])
        if not out:
            raise KeyError("ColumnDisposition members")
        return out

    dp = o.item("schema.ColumnDisposition.members", dispositions, PINNED_DISPOSITIONS)

    fr = o.item("schema.FlatColumn.from_dict.rules", lambda: _from_dict_rules(schema), PINNED_FROM_DICT_RULES)
    fills = o.item("schema.FlatColumn.__init__.fills", lambda: _init_fills(schema, types), PINNED_INIT_FILLS)
    dfills = o.item("schema.FlatColumn.__init__.decimal_fills", lambda: _decimal_fills(schema), PINNED_DECIMAL_FILLS)
    o.item("schema.FlatColumn.__init__.literal_guards", lambda: _literal_guards(schema), PINNED_LITERAL_GUARDS)
    ew = o.item("schema.to_dict.enum_written_as", lambda: _enum_written_as(schema), "value")
    cl = o.item("schema.from_dict.column_loader", lambda: _column_loader(schema), "from_dict")
    jl = o.item("schema.from_json.loader", lambda: _json_loader(schema), "from_dict")

    def pairs(xs):
        return lean_list(xs, lambda p: "(%s, %s)" % (lean_str(p[0]), lean_str(p[1])))

    def triples(xs):
        return lean_list(xs, lambda p: "(%s, %s, %s)" % (lean_str(p[0]), lean_str(p[1]), lean_str(p[2])))

    t = HEADER + "namespace Gen.Persist\n"
    t += "/-- dataclass fields of `FlatColumn`, in declaration order (what `asdict` emits and `__init__` reads) -/\n"
    t += "def columnFields : List String := %s\n" % lean_list(cf, lean_str)
    t += "/-- dataclass fields of `RelationSchema`, in declaration order (what `to_dict` emits) -/\n"
    t += "def schemaFields : List String := %s\n" % lean_list(sf, lean_str)
    t += "/-- `to_flatcolumn`: (keyword passed to `FlatColumn(...)`, attribute of `self` it is read from) -/\n"
    t += "def flatKwargs : List (String × String) := %s\n" % pairs(fk)
    t += "/-- `RelationSchema.from_dict`: (attribute restored, dictionary key it is read from) -/\n"
    t += "def fromDictRestores : List (String × String) := %s\n" % pairs(rs)
    t += "/-- does `to_dict` return `asdict(self, …)` / `to_json` serialise `asdict(self)` (every declared attribute)? -/\n"
    t += "def toDictAsdict : Bool := %s\n" % ("true" if td else "false")
    t += "def toJsonAsdict : Bool := %s\n" % ("true" if tj else "false")
    t += "/-- `ColumnDisposition` members: (name, value) -/\n"
    t += "def dispositions : List (String × String) := %s\n" % pairs(dp)
    t += "/-- `FlatColumn.from_dict`, statement by statement: `if <conditions>: dic = {**dic, key: OrsoTypes.<member>}` (in order), then\n"
    t += "`cls(**dic)`.  A condition is (kind, key, member): `eqValue` = `dic.get(key) == OrsoTypes.<member>.value`, `present` = `key in dic`,\n"
    t += "`isNone` = `dic[key] is None`.  Entry = (conditions, key assigned, member assigned). -/\n"
    t += "def fromDictRules : List (List (String × String × String) × String × String) := %s\n" % lean_list(
        fr, lambda r: "(%s, %s, %s)" % (triples(r[0]), lean_str(r[1]), lean_str(r[2])))
    t += "/-- `FlatColumn.__init__`, the block that maps a type literal: which attributes are filled from what `from_name` parsed,\n"
    t += "(attribute, guard, field of the parsed description); guard `isNone` = `if self.a is None: self.a = _b`, `falsy` = `self.a = self.a or _b` -/\n"
    t += "def initFills : List (String × String × String) := %s\n" % triples(fills)
    t += "/-- `FlatColumn.__init__`: the guards of the DECIMAL defaults, (attribute, `isNone` | `falsy`) -/\n"
    t += "def decimalFills : List (String × String) := %s\n" % pairs(dfills)
    t += "/-- `RelationSchema.to_dict._converter`: the attribute of an enum member that is written (`value` | `name`) -/\n"
    t += "def enumWrittenAs : String := %s\n" % lean_str(ew)
    t += "/-- how `RelationSchema.from_dict` loads a dictionary column / `from_json` the parsed object: `from_dict` | `init` (= `cls(**dic)`) -/\n"
    t += "def columnLoader : String := %s\n" % lean_str(cl)
    t += "def jsonLoader : String := %s\n" % lean_str(jl)
    t += "end Gen.Persist\n"
    o.files["Persist.lean"] = t
