"""C16 tables from orso/schema.py: the declared attributes of FlatColumn and RelationSchema (dataclass
fields, in order), the keyword arguments to_flatcolumn forwards (keyword -> attribute read from self),
the RelationSchema attributes from_dict restores (keyword -> dictionary key read), whether to_dict /
to_json emit every declared attribute (dataclasses.asdict), and the ColumnDisposition members.

Everything is read with `ast` from the working tree; each item degrades to its pinned value when the
construct is not found in the expected shape (a harmless refactor), never failing the run.
"""
import ast

from ..extract import HEADER, Src, lean_list, lean_str

PINNED_COLUMN_FIELDS = ["name", "default", "type", "element_type", "description", "disposition", "aliases", "nullable",
                        "expectations", "identity", "length", "precision", "scale", "origin", "highest_value",
                        "lowest_value", "null_count"]
PINNED_SCHEMA_FIELDS = ["name", "aliases", "columns", "primary_key", "row_count_metric", "row_count_estimate",
                        "data_size_metric", "data_size_estimate"]
PINNED_FLAT = [[k, k] for k in ["name", "default", "description", "aliases", "identity", "type", "element_type", "nullable",
                                "scale", "precision", "lowest_value", "highest_value", "null_count"]]
PINNED_RESTORES = [["name", "name"], ["aliases", "aliases"], ["primary_key", "primary_key"], ["columns", "columns"]]
PINNED_DISPOSITIONS = [["NAME", "name"], ["AGE", "age"]]


def _class(src, name):
    for n in src.tree.body:
        if isinstance(n, ast.ClassDef) and n.name == name:
            return n
    raise KeyError(name)


def _fields(src, name):
    """Names of the annotated class attributes (= dataclass fields), in order."""
    cls = _class(src, name)
    if not any((isinstance(d, ast.Name) and d.id == "dataclass")
               or (isinstance(d, ast.Call) and isinstance(d.func, ast.Name) and d.func.id == "dataclass")
               for d in cls.decorator_list):
        raise KeyError(name + " is not a dataclass")
    out = []
    for s in cls.body:
        if isinstance(s, ast.AnnAssign) and isinstance(s.target, ast.Name):
            if "ClassVar" in ast.dump(s.annotation):
                continue
            out.append(s.target.id)
    if not out:
        raise KeyError("no fields in " + name)
    return out


def _method(src, cls, name):
    for s in _class(src, cls).body:
        if isinstance(s, (ast.FunctionDef, ast.AsyncFunctionDef)) and s.name == name:
            return s
    raise KeyError("%s.%s" % (cls, name))


def _self_attr(v):
    """`self.X` or `str(self.X)` -> 'X'."""
    if isinstance(v, ast.Call) and isinstance(v.func, ast.Name) and v.func.id == "str" and len(v.args) == 1 and not v.keywords:
        v = v.args[0]
    if isinstance(v, ast.Attribute) and isinstance(v.value, ast.Name) and v.value.id == "self":
        return v.attr
    raise KeyError("keyword value is not an attribute of self")


def _dict_key(v, dic):
    """`dic["k"]`, `dic.get("k")`, `dic.get("k", default)` -> 'k'."""
    if isinstance(v, ast.Subscript) and isinstance(v.value, ast.Name) and v.value.id == dic \
            and isinstance(v.slice, ast.Constant) and isinstance(v.slice.value, str):
        return v.slice.value
    if isinstance(v, ast.Call) and isinstance(v.func, ast.Attribute) and v.func.attr == "get" \
            and isinstance(v.func.value, ast.Name) and v.func.value.id == dic and v.args \
            and isinstance(v.args[0], ast.Constant) and isinstance(v.args[0].value, str):
        return v.args[0].value
    raise KeyError("keyword value does not read the dictionary")


def _uses_asdict_of_self(fn):
    for n in ast.walk(fn):
        if isinstance(n, ast.Call) and isinstance(n.func, ast.Name) and n.func.id == "asdict" and n.args \
                and isinstance(n.args[0], ast.Name) and n.args[0].id == "self":
            return True
    return False


def generate(o):
    schema = Src("orso/schema.py")

    cf = o.item("schema.FlatColumn.fields", lambda: _fields(schema, "FlatColumn"), PINNED_COLUMN_FIELDS)
    sf = o.item("schema.RelationSchema.fields", lambda: _fields(schema, "RelationSchema"), PINNED_SCHEMA_FIELDS)

    def flat():
        fn = _method(schema, "FlatColumn", "to_flatcolumn")
        for n in ast.walk(fn):
            if isinstance(n, ast.Return) and isinstance(n.value, ast.Call) and isinstance(n.value.func, ast.Name) \
                    and n.value.func.id == "FlatColumn":
                if n.value.args or any(k.arg is None for k in n.value.keywords):
                    raise KeyError("positional / ** arguments")
                return [[k.arg, _self_attr(k.value)] for k in n.value.keywords]
        raise KeyError("return FlatColumn(...)")

    fk = o.item("schema.to_flatcolumn.kwargs", flat, PINNED_FLAT)

    def restores():
        fn = _method(schema, "RelationSchema", "from_dict")
        dic = fn.args.args[1].arg
        out = None
        for n in ast.walk(fn):
            if isinstance(n, ast.Call) and isinstance(n.func, ast.Name) and n.func.id in ("RelationSchema", "cls") \
                    and not n.args and all(k.arg is not None for k in n.keywords):
                out = [[k.arg, _dict_key(k.value, dic)] for k in n.keywords]
                break
        if out is None:
            raise KeyError("RelationSchema(...) call")
        # the loop `for column in dic["columns"]: ... schema.columns.append(...)`
        for n in ast.walk(fn):
            if isinstance(n, ast.For):
                try:
                    key = _dict_key(n.iter, dic)
                except KeyError:
                    continue
                appended = [c for c in ast.walk(n) if isinstance(c, ast.Call) and isinstance(c.func, ast.Attribute)
                            and c.func.attr == "append" and isinstance(c.func.value, ast.Attribute)]
                if appended:
                    out.append([appended[0].func.value.attr, key])
        return out

    rs = o.item("schema.from_dict.restores", restores, PINNED_RESTORES)

    td = o.item("schema.to_dict.asdict", lambda: _uses_asdict_of_self(_method(schema, "RelationSchema", "to_dict")), True)
    tj = o.item("schema.to_json.asdict", lambda: _uses_asdict_of_self(_method(schema, "FlatColumn", "to_json")), True)
    if not td:
        o.degraded.append("schema.to_dict.asdict (to_dict no longer returns asdict(self): emitted keys tied by correspondence only)")
    if not tj:
        o.degraded.append("schema.to_json.asdict (to_json no longer serialises asdict(self): emitted keys tied by correspondence only)")

    def dispositions():
        cls = _class(schema, "ColumnDisposition")
        out = []
        for s in cls.body:
            if isinstance(s, ast.Assign) and len(s.targets) == 1 and isinstance(s.targets[0], ast.Name) \
                    and isinstance(s.value, ast.Constant) and isinstance(s.value.value, str):
                out.append([s.targets[0].id, s.value.value])
        if not out:
            raise KeyError("ColumnDisposition members")
        return out

    dp = o.item("schema.ColumnDisposition.members", dispositions, PINNED_DISPOSITIONS)

    def pairs(xs):
        return lean_list(xs, lambda p: "(%s, %s)" % (lean_str(p[0]), lean_str(p[1])))

    t = HEADER + "namespace Gen.Persist\n"
    t += "/-- dataclass fields of `FlatColumn`, in declaration order (what `asdict` emits and `__init__` reads) -/\n"
    t += "def columnFields : List String := %s\n" % lean_list(cf, lean_str)
    t += "/-- dataclass fields of `RelationSchema`, in declaration order (what `to_dict` emits) -/\n"
    t += "def schemaFields : List String := %s\n" % lean_list(sf, lean_str)
    t += "/-- `to_flatcolumn`: (keyword passed to `FlatColumn(...)`, attribute of `self` it is read from) -/\n"
    t += "def flatKwargs : List (String × String) := %s\n" % pairs(fk)
    t += "/-- `RelationSchema.from_dict`: (attribute restored, dictionary key it is read from) -/\n"
    t += "def fromDictRestores : List (String × String) := %s\n" % pairs(rs)
    t += "/-- does `to_dict` return `asdict(self, …)` / `to_json` serialise `asdict(self)` (every declared attribute)? -/\n"
    t += "def toDictAsdict : Bool := %s\n" % ("true" if td else "false")
    t += "def toJsonAsdict : Bool := %s\n" % ("true" if tj else "false")
    t += "/-- `ColumnDisposition` members: (name, value) -/\n"
    t += "def dispositions : List (String × String) := %s\n" % pairs(dp)
    t += "end Gen.Persist\n"
    o.files["Persist.lean"] = t
