"""C05 extraction, round 5: how a stored row is *laid out*, and how large a record may be.

`Generated/Layout.lean`, regenerated from the working tree on every run:

* `relayout` / `relayoutBeforeBuild`   dataframe.py `DataFrame.append`: the statement that replaces the frame's row class when
                 its fields are no longer the schema's column names — what the fields are compared WITH (`current`: the names
                 read from `self._schema.columns` at that moment; `memoised`: a helper of the frame that goes through a
                 memoising decorator, i.e. the names as they were when the helper was first asked; `never`: no such
                 statement), and whether it stands between the `validate` call and the construction of the row;
* `schemaIter`   schema.py `RelationSchema.__iter__`: one name per column (`each`) or every name once (`distinct`);
* `classFieldsFrom`  row.py `Row.create_class`: where the field tuple of the class comes from when it is given a
                 RelationSchema (`columns`: `schema.columns`, `iteration`: iterating the schema object);
* `maxRecordSize`, `sizeRefused`, `statedLimit`   row.py: the constant `MAXIMUM_RECORD_SIZE` (its expression, translated), the
                 guard of `Row.as_bytes` that raises (translated with its comparison operator), and the limit the error message
                 states ("cannot exceed 16Mb"), when it states one as a literal;
* `nbytesSizes`  row.py `Row.nbytes` goes through `as_bytes` (so the guard is part of what `append` accepts).

Closed vocabulary; anything else degrades to the pinned value.
"""
import ast
import re

from .. import pyexpr

STATELESS = {"property", "staticmethod", "classmethod", "abstractmethod"}

PIN_RELAYOUT = {"against": "current", "before_build": True}
PIN_ITER = "each"
PIN_FIELDS = "iteration"
PIN_SIZE = {"max": "((16 * 1024) * 1024)", "refused": "(recordSize > maxRecordSize)", "stated": 16 * 1024 * 1024, "via_as_bytes": True}


class Unrecognised(Exception):
    pass


def _cls(tree, name):
    for n in tree.body:
        if isinstance(n, ast.ClassDef) and n.name == name:
            return n
    raise Unrecognised("class %s" % name)


def _method(cls, name):
    for n in cls.body:
        if isinstance(n, ast.FunctionDef) and n.name == name:
            return n
    raise Unrecognised("method %s" % name)


def _decorators(fn):
    out = []
    for d in fn.decorator_list:
        d = d.func if isinstance(d, ast.Call) else d
        out.append(d.attr if isinstance(d, ast.Attribute) else getattr(d, "id", "?"))
    return out


def _returns(fn):
    return [n for n in ast.walk(fn) if isinstance(n, ast.Return) and n.value is not None]


def _is_names_comprehension(e, columns_text):
    """`<name or str(name)> for c in <columns_text>` as a generator / list comprehension"""
    if not isinstance(e, (ast.GeneratorExp, ast.ListComp)) or len(e.generators) != 1:
        return False
    g = e.generators[0]
    if g.ifs or not isinstance(g.target, ast.Name) or ast.unparse(g.iter) not in (columns_text, columns_text + "[:]"):
        return False
    v = g.target.id
    return ast.unparse(e.elt) in ("%s.name" % v, "str(%s.name)" % v)


def schema_names_kind(schema_cls, expr, self_name="self", depth=0):
    """`expr`, inside RelationSchema (or given a schema object called `self_name`): 'each' when it lists one name per column,
    'distinct' when it lists every name once"""
    if depth > 3:
        raise Unrecognised("names: too deep")
    cols = "%s.columns" % self_name
    if _is_names_comprehension(expr, cols):
        return "each"
    if isinstance(expr, ast.Call) and not expr.keywords and len(expr.args) == 1:
        f = ast.unparse(expr.func)
        if f in ("iter", "list", "tuple"):
            return schema_names_kind(schema_cls, expr.args[0], self_name, depth + 1)
        if f in ("dict.fromkeys", "set", "frozenset", "OrderedDict.fromkeys", "collections.OrderedDict.fromkeys"):
            schema_names_kind(schema_cls, expr.args[0], self_name, depth + 1)
            return "distinct"
        if f == "sorted":
            raise Unrecognised("names: sorted")
    if isinstance(expr, ast.Attribute) and ast.unparse(expr.value) == self_name:
        m = next((n for n in schema_cls.body if isinstance(n, ast.FunctionDef) and n.name == expr.attr), None)
        if m is not None and set(_decorators(m)) <= {"property"} and "property" in _decorators(m):
            rets = _returns(m)
            if len(rets) == 1:
                return schema_names_kind(schema_cls, rets[0].value, m.args.args[0].arg, depth + 1)
    raise Unrecognised("names: %s" % ast.unparse(expr)[:50])


def schema_iter(schema_tree):
    cls = _cls(schema_tree, "RelationSchema")
    fn = _method(cls, "__iter__")
    rets = _returns(fn)
    if len(rets) != 1 or any(isinstance(n, (ast.Yield, ast.YieldFrom)) for n in ast.walk(fn)):
        raise Unrecognised("__iter__ shape")
    return schema_names_kind(cls, rets[0].value, fn.args.args[0].arg)


def class_fields_from(row_tree):
    """row.py `Row.create_class`, run for a RelationSchema argument: the last assignment to `fields` that is executed"""
    fn = _method(_cls(row_tree, "Row"), "create_class")
    arg = fn.args.args[1].arg
    last = [None]

    def classify(v):
        if isinstance(v, ast.Call) and ast.unparse(v.func) == "tuple" and len(v.args) == 1 and not v.keywords:
            a = v.args[0]
            if _is_names_comprehension(a, "%s.columns" % arg):
                return "columns"
            if ast.unparse(a) == arg:
                return "iteration"
            if isinstance(a, (ast.GeneratorExp, ast.ListComp)) and len(a.generators) == 1 and not a.generators[0].ifs \
                    and ast.unparse(a.generators[0].iter) == arg and isinstance(a.generators[0].target, ast.Name) \
                    and ast.unparse(a.elt) in (a.generators[0].target.id, "str(%s)" % a.generators[0].target.id):
                return "iteration"
        raise Unrecognised("fields = %s" % ast.unparse(v)[:50])

    def run(stmts):
        for st in stmts:
            if isinstance(st, ast.Assign) and [ast.unparse(t) for t in st.targets] == ["fields"]:
                last[0] = classify(st.value)
            elif isinstance(st, ast.If):
                t = ast.unparse(st.test)
                if t == "isinstance(%s, RelationSchema)" % arg:
                    run(st.body)
                elif t == "not isinstance(%s, RelationSchema)" % arg:
                    run(st.orelse)
                elif any(isinstance(n, ast.Assign) and "fields" in [ast.unparse(x) for x in n.targets] for n in ast.walk(st)):
                    raise Unrecognised("fields assigned under %s" % t[:40])
            elif any(isinstance(n, ast.Assign) and "fields" in [ast.unparse(x) for x in n.targets] for n in ast.walk(st)):
                raise Unrecognised("fields assigned in %s" % type(st).__name__)

    run(fn.body)
    if last[0] is None:
        raise Unrecognised("no assignment to fields")
    return last[0]


def relayout(frame_tree):
    """dataframe.py `DataFrame.append`: the statement that brings the row class in line with the schema's columns"""
    cls = _cls(frame_tree, "DataFrame")
    fn = _method(cls, "append")
    members = {n.name: n for n in cls.body if isinstance(n, ast.FunctionDef)}
    pos = lambda n: (n.lineno, n.col_offset)
    validate_at = build_at = None
    for n in ast.walk(fn):
        if isinstance(n, ast.Call) and isinstance(n.func, ast.Attribute):
            if n.func.attr == "validate" and validate_at is None:
                validate_at = pos(n)
            if ast.unparse(n.func) == "self._row_factory" and build_at is None:
                build_at = pos(n)
    writes = [n for n in ast.walk(fn) if isinstance(n, ast.Assign) and "self._row_factory" in [ast.unparse(t) for t in n.targets]]
    if not writes:
        return {"against": "never", "before_build": True}
    if len(writes) != 1 or validate_at is None or build_at is None:
        raise Unrecognised("row class assigned %d times" % len(writes))
    w = writes[0]
    if ast.unparse(w.value) not in ("Row.create_class(self._schema)", "Row.create_class(self._schema, tuples_only=False)",
                                    "Row.create_class(self._schema, False)"):
        raise Unrecognised("row class = %s" % ast.unparse(w.value)[:50])
    guard = next((n for n in ast.walk(fn) if isinstance(n, ast.If) and w in n.body and len(n.body) == 1 and not n.orelse), None)
    if guard is None:
        # rebuilt on every append, unconditionally: always the columns as they are now
        parents = [n for n in ast.walk(fn) if isinstance(n, (ast.If, ast.FunctionDef)) and w in getattr(n, "body", [])]
        if parents and all(isinstance(p, ast.FunctionDef) or ast.unparse(p.test) == "isinstance(self._schema, RelationSchema)" for p in parents):
            return {"against": "current", "before_build": validate_at < pos(w) < build_at}
        raise Unrecognised("row class assigned outside a recognised guard")
    t = guard.test
    if isinstance(t, ast.UnaryOp) and isinstance(t.op, ast.Not) and isinstance(t.operand, ast.Compare) and isinstance(t.operand.ops[0], ast.Eq):
        cmp_ = t.operand
    elif isinstance(t, ast.Compare) and isinstance(t.ops[0], ast.NotEq):
        cmp_ = t
    else:
        raise Unrecognised("relayout test %s" % ast.unparse(t)[:50])
    if len(cmp_.ops) != 1:
        raise Unrecognised("relayout test chain")
    sides = [cmp_.left, cmp_.comparators[0]]
    other = [s for s in sides if ast.unparse(s) != "self._row_factory._fields"]
    if len(other) != 1:
        raise Unrecognised("relayout test operands")

    def source(e, depth=0):
        if depth > 3:
            raise Unrecognised("names source too deep")
        if isinstance(e, ast.Call) and ast.unparse(e.func) == "tuple" and len(e.args) == 1 and not e.keywords:
            a = e.args[0]
            if _is_names_comprehension(a, "self._schema.columns"):
                return "current"
            if ast.unparse(a) == "self._schema.column_names":
                return "current-if-schema-property-plain"
            return source(a, depth + 1)
        if isinstance(e, ast.Attribute) and ast.unparse(e.value) == "self" and e.attr in members:
            m = members[e.attr]
            decs = _decorators(m)
            if "property" not in decs:
                raise Unrecognised("%s is not a property" % e.attr)
            if set(decs) - STATELESS:
                return "memoised"
            rets = _returns(m)
            if not rets:
                raise Unrecognised("%s returns nothing" % e.attr)
            return source(rets[-1].value, depth + 1)
        raise Unrecognised("names source %s" % ast.unparse(e)[:50])

    against = source(other[0])
    return {"against": against, "before_build": validate_at < pos(guard) < build_at}


def resolve_relayout(frame_tree, schema_tree):
    r = relayout(frame_tree)
    if r["against"] == "current-if-schema-property-plain":
        cls = _cls(schema_tree, "RelationSchema")
        kind = schema_names_kind(cls, ast.parse("self.column_names", mode="eval").body)
        if kind != "each":
            raise Unrecognised("schema.column_names is %s" % kind)
        r["against"] = "current"
    return r


def size_facts(row_tree):
    const = None
    for node in row_tree.body:
        tgt = node.target if isinstance(node, ast.AnnAssign) else (node.targets[0] if isinstance(node, ast.Assign) and len(node.targets) == 1 else None)
        if isinstance(tgt, ast.Name) and tgt.id == "MAXIMUM_RECORD_SIZE" and getattr(node, "value", None) is not None:
            const = node.value
    if const is None:
        raise Unrecognised("MAXIMUM_RECORD_SIZE")
    try:
        max_text = pyexpr.to_lean(const, {}, mode="int")
    except pyexpr.Untranslatable:
        # shifts and powers are not in the shared translator's vocabulary: an expression of literals alone is evaluated
        if not all(isinstance(n, (ast.Constant, ast.BinOp, ast.UnaryOp, ast.operator, ast.unaryop)) for n in ast.walk(const)):
            raise
        v = eval(compile(ast.Expression(const), "<extract>", "eval"), {"__builtins__": {}}, {})
        if not isinstance(v, int) or isinstance(v, bool):
            raise Unrecognised("MAXIMUM_RECORD_SIZE is not an integer")
        max_text = "%d" % v if v >= 0 else "(%d)" % v
    cls = _cls(row_tree, "Row")
    fn = _method(cls, "as_bytes")
    guards = [n for n in ast.walk(fn) if isinstance(n, ast.If) and len(n.body) == 1 and isinstance(n.body[0], ast.Raise)
              and any(isinstance(x, ast.Name) and x.id == "MAXIMUM_RECORD_SIZE" for x in ast.walk(n.test))]
    if len(guards) != 1 or guards[0].orelse:
        raise Unrecognised("size guard")
    g = guards[0]
    names = {x.id for x in ast.walk(g.test) if isinstance(x, ast.Name)} - {"MAXIMUM_RECORD_SIZE"}
    if len(names) != 1:
        raise Unrecognised("size guard operands")
    size_var = names.pop()
    # the variable is the length of the packed record
    assigns = [n for n in ast.walk(fn) if isinstance(n, ast.Assign) and [ast.unparse(t) for t in n.targets] == [size_var]]
    if len(assigns) != 1 or not (isinstance(assigns[0].value, ast.Call) and ast.unparse(assigns[0].value.func) == "len"):
        raise Unrecognised("%s is not a length" % size_var)
    refused = pyexpr.to_lean(g.test, {size_var: "recordSize", "MAXIMUM_RECORD_SIZE": "maxRecordSize"}, mode="int")
    stated = None
    exc = g.body[0].exc
    if isinstance(exc, ast.Call) and exc.args and isinstance(exc.args[0], ast.Constant) and isinstance(exc.args[0].value, str):
        m = re.search(r"(\d+)\s*([KMG])i?[bB]", exc.args[0].value)
        if m:
            stated = int(m.group(1)) * {"K": 1024, "M": 1024 ** 2, "G": 1024 ** 3}[m.group(2)]
    nb = _method(cls, "nbytes")
    via = any(isinstance(n, ast.Attribute) and n.attr == "as_bytes" and ast.unparse(n.value) == "self" for n in ast.walk(nb))
    return {"max": max_text, "refused": refused, "stated": stated, "via_as_bytes": via}


def lean_text(header, rel, it, ff, size):
    t = header + "set_option linter.unusedVariables false\nnamespace Gen.Layout\n"
    t += "/-- what `DataFrame.append` compares the row class's fields with before it builds the row -/\n"
    t += "inductive Relayout where\n  | never | current | memoised\n  deriving DecidableEq, Repr\n"
    t += "inductive Iter where\n  | each | distinct\n  deriving DecidableEq, Repr\n"
    t += "inductive FieldsFrom where\n  | columns | iteration\n  deriving DecidableEq, Repr\n"
    t += "/-- dataframe.py `DataFrame.append`: `never` = the row class is never replaced; `current` = replaced when its fields are not the\nnames of `self._schema.columns` as they are now; `memoised` = compared with a helper that remembers an earlier answer -/\n"
    t += "def relayout : Relayout := Relayout.%s\n" % rel["against"]
    t += "/-- … and that statement stands after the `validate` call and before the row is built -/\n"
    t += "def relayoutBeforeBuild : Bool := %s\n" % ("true" if rel["before_build"] else "false")
    t += "/-- schema.py `RelationSchema.__iter__`: one name per column, or every name once -/\n"
    t += "def schemaIter : Iter := Iter.%s\n" % it
    t += "/-- row.py `Row.create_class` given a RelationSchema: the field tuple is made from `schema.columns` or by iterating the schema -/\n"
    t += "def classFieldsFrom : FieldsFrom := FieldsFrom.%s\n" % ff
    t += "/-- row.py `MAXIMUM_RECORD_SIZE` -/\n"
    t += "def maxRecordSize : Int := %s\n" % size["max"]
    t += "/-- row.py `Row.as_bytes`: the test under which it raises, on the length of the packed record -/\n"
    t += "def sizeRefused (recordSize : Int) : Bool := decide %s\n" % size["refused"]
    t += "/-- the limit the error message states as a literal (\"cannot exceed 16Mb\"), in bytes -/\n"
    t += "def statedLimit : Option Int := %s\n" % ("none" if size["stated"] is None else "some %d" % size["stated"])
    t += "/-- row.py `Row.nbytes` sizes the row through `as_bytes` -/\n"
    t += "def nbytesSizes : Bool := %s\n" % ("true" if size["via_as_bytes"] else "false")
    t += "end Gen.Layout\n"
    return t
