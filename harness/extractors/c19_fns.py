"""C19: the bodies of the two cache wrappers of orso/tools.py translated *statement by statement* into Lean
(`Generated/CacheFns.lean`, namespace `Gen.CacheFns`) by harness/pystmt.py on every run.

The wrappers are stateful (the `nonlocal cache`, the clock, the wrapped function), so the translation is state
passing: every generated function takes the current `cache` and `world` and returns `(result, cache, world)`;
`time.time()` is `world.time`, `result = func(*args, **kwargs)` is `world.call cost (args, kwargs)` (the invocation is
logged, the clock advances by the function's cost, the result is the invocation index).  `==` stays `==` (a `BEq`
instance nothing is assumed about), `None` is `none`, the OrderedDict operations are the `Cache.PyOD.*` primitives of
Model/CachePrim.lean (dict lookup = equal hashes and `stored == key`), the comparisons with `valid_for_seconds` are
`Cache.leInf` / `ltInf` / `gtInf` / `geInf` (`float("inf")` is `none`).

`Props/C19.lean` proves (a) for ARBITRARY `==`: every value a generated wrapper returns was produced by the wrapped
function for arguments that are the call's own or `==` to them, within the validity period
(`generated_*_returns_for_equal_arguments`), and (b) for lawful equality: the generated wrappers are the hand-written
machines `singleCall` / `lruCall` (`generated_*_eq_model`), so every theorem about those machines is a theorem about
what the source says now.  A shape the translator does not know, or a translation that does not elaborate, degrades to
the pinned text (the translation of the pinned tree).
"""
import ast
import json
import os

from .. import core, pystmt
from ..extract import HEADER, Src
from ..pyexpr import Untranslatable

PINNED_FILE = os.path.join(os.path.dirname(os.path.abspath(__file__)), "pinned", "c19_fns.json")
INF_CMP = {ast.LtE: "Cache.leInf", ast.Lt: "Cache.ltInf", ast.Gt: "Cache.gtInf", ast.GtE: "Cache.geInf"}
VALID = "valid_for_seconds"


def _name(n, name=None):
    return isinstance(n, ast.Name) and (name is None or n.id == name)


def _wrapper(src, outer):
    fn = src.func(outer)
    ws = [n for n in ast.walk(fn) if isinstance(n, ast.FunctionDef) and n.name == "wrapper"]
    if len(ws) != 1:
        raise Untranslatable("wrapper of " + outer)
    w = ws[0]
    if w.args.args or w.args.kwonlyargs or w.args.vararg is None or w.args.kwarg is None:
        raise Untranslatable("signature of wrapper")
    return fn, w


def _pattern(t, names):
    if _name(t):
        names.add(t.id)
        return t.id
    if isinstance(t, ast.Tuple):
        return "(" + ", ".join(_pattern(e, names) for e in t.elts) + ")"
    raise Untranslatable("target %s" % ast.unparse(t))


class Hooks:
    """expression and statement shapes of the wrappers that pystmt does not know"""

    def __init__(self, varg, vkw, opt_args):
        self.varg, self.vkw = varg, vkw
        self.opt_args = opt_args  # single-item cache: the arguments are stored in / compared with slots that start as None
        self.ex = None
        self.result_vars = set()
        self.locks = set()

    # ---- expressions
    def expr(self, n, go):
        ex = self.ex
        if isinstance(n, ast.Compare) and len(n.ops) == 1:
            op, l, r = n.ops[0], n.left, n.comparators[0]
            if _name(r, VALID) and type(op) in INF_CMP:
                return "(%s %s %s)" % (INF_CMP[type(op)], go(l), VALID)
            if _name(l, VALID) or _name(r, VALID):
                raise Untranslatable("comparison with %s" % VALID)
            if isinstance(op, ast.Eq):
                return "(%s == %s)" % (go(l), go(r))      # Python `==`: a BEq instance, no laws assumed
            if isinstance(op, ast.NotEq):
                return "(%s != %s)" % (go(l), go(r))
            if isinstance(op, ast.In) and _name(r, "cache"):
                return "(PyOD.contains cache %s)" % go(l)
            if isinstance(op, ast.NotIn) and _name(r, "cache"):
                return "(!PyOD.contains cache %s)" % go(l)
        if isinstance(n, ast.Call):
            f = n.func
            if isinstance(f, ast.Attribute) and _name(f.value, "cache") and f.attr == "items" and not n.args and not n.keywords:
                return "(PyOD.items cache)"
            if _name(f, "len") and len(n.args) == 1 and _name(n.args[0], "cache") and not n.keywords:
                return "(PyOD.len cache)"
            if _name(f, "OrderedDict") and not n.args and not n.keywords:
                return "PyOD.empty"
        if isinstance(n, ast.Subscript) and isinstance(n.slice, ast.Constant) and n.slice.value in (0, 1) \
                and isinstance(n.value, ast.Subscript) and _name(n.value.value, "cache"):
            return "((PyOD.getitem cache %s).map (fun v_ => v_.%d))" % (go(n.value.slice), n.slice.value + 1)
        if isinstance(n, ast.ListComp) and len(n.generators) == 1 and not n.generators[0].is_async:
            g = n.generators[0]
            names = set()
            pat = _pattern(g.target, names)
            if isinstance(g.target, ast.Name):
                return None  # pystmt's own comprehension
            src = go(g.iter)
            saved = ex.typestate()
            ex.bound |= names
            try:
                for c in g.ifs:
                    src = "((%s).filter (fun %s => %s))" % (src, pat, ex.cond(c))
                elt = go(n.elt)
            finally:
                ex.restore(saved)
            return "((%s).map (fun %s => %s))" % (src, pat, elt)
        return None

    # ---- statements
    def stmt(self, s, rest, k, depth, st):
        ex = st.ex
        pad = st.ind * depth

        def bind(names, body_fn):
            saved = ex.typestate()
            ex.bound |= set(names)
            try:
                return body_fn()
            finally:
                ex.restore(saved)

        # `with lock:` (a threading lock created in the decorator's scope, no `as`): for ONE caller
        # the block is its statements - acquiring a free re-entrant lock and releasing it do
        # nothing else.  (What the lock means for several callers is the concurrent model's business.)
        if isinstance(s, ast.With):
            if not (len(s.items) == 1 and s.items[0].optional_vars is None and _name(s.items[0].context_expr)
                    and s.items[0].context_expr.id in self.locks):
                raise Untranslatable("with statement at line %d" % s.lineno)
            return st.block(list(s.body) + list(rest), k, depth)
        if isinstance(s, ast.Nonlocal):
            if s.names != ["cache"]:
                raise Untranslatable("nonlocal %s" % s.names)
            return st.block(rest, k, depth)
        if isinstance(s, ast.Assign) and len(s.targets) == 1:
            t, v = s.targets[0], s.value
            # a, b, c, d = cache
            if isinstance(t, ast.Tuple) and _name(v, "cache"):
                names = set()
                pat = _pattern(t, names)
                return "let %s := cache\n%s%s" % (pat, pad, bind(names, lambda: st.block(rest, k, depth)))
            # result = func(*args, **kwargs)
            if _name(t) and isinstance(v, ast.Call) and _name(v.func, "func"):
                if not (len(v.args) == 1 and isinstance(v.args[0], ast.Starred) and _name(v.args[0].value, self.varg)
                        and len(v.keywords) == 1 and v.keywords[0].arg is None and _name(v.keywords[0].value, self.vkw)):
                    raise Untranslatable("the wrapped function is not called with the wrapper's own arguments")
                r = t.id
                self.result_vars.add(r)
                if self.opt_args:
                    text = "let (%s_, world) := world.call cost (%s, %s)\n%slet %s := some %s_\n%s" % (r, self.varg, self.vkw, pad, r, r, pad)
                else:
                    text = "let (%s, world) := world.call cost (%s, %s)\n%s" % (r, self.varg, self.vkw, pad)
                return text + bind([r], lambda: st.block(rest, k, depth))
            # cache[key] = value
            if isinstance(t, ast.Subscript) and _name(t.value, "cache"):
                return "let cache := PyOD.setitem cache %s %s\n%s%s" % (ex.go(t.slice), ex.go(v), pad, st.block(rest, k, depth))
        if isinstance(s, ast.Delete) and len(s.targets) == 1 and isinstance(s.targets[0], ast.Subscript) and _name(s.targets[0].value, "cache"):
            return "let cache := PyOD.delitem cache %s\n%s%s" % (ex.go(s.targets[0].slice), pad, st.block(rest, k, depth))
        if isinstance(s, ast.For) and not s.orelse and _name(s.target) and len(s.body) == 1 and isinstance(s.body[0], ast.Delete):
            d = s.body[0]
            if not (len(d.targets) == 1 and isinstance(d.targets[0], ast.Subscript) and _name(d.targets[0].value, "cache")
                    and _name(d.targets[0].slice, s.target.id)):
                raise Untranslatable("sweep loop")
            return "let cache := (%s).foldl (fun cache %s => PyOD.delitem cache %s) cache\n%s%s" % (
                ex.go(s.iter), s.target.id, s.target.id, pad, st.block(rest, k, depth))
        if isinstance(s, ast.Expr) and isinstance(s.value, ast.Call) and isinstance(s.value.func, ast.Attribute) and _name(s.value.func.value, "cache"):
            c = s.value
            if c.func.attr == "move_to_end" and len(c.args) == 1 and not c.keywords:
                return "let cache := PyOD.move_to_end cache %s\n%s%s" % (ex.go(c.args[0]), pad, st.block(rest, k, depth))
            if c.func.attr == "popitem":
                kw = {a.arg: a.value for a in c.keywords}
                if c.args:
                    kw["last"] = c.args[0]
                if set(kw) - {"last"} or len(c.args) > 1:
                    raise Untranslatable("popitem arguments")
                last = "true" if "last" not in kw else ex.go(kw["last"])
                return "let cache := PyOD.popitem cache %s\n%s%s" % (last, pad, st.block(rest, k, depth))
            raise Untranslatable("cache.%s" % c.func.attr)
        return None


def _translate(src, outer, lean_name, opt_args, binders, cache_ty, key_env):
    fn, w = _wrapper(src, outer)
    varg, vkw = w.args.vararg.arg, w.args.kwarg.arg
    hooks = Hooks(varg, vkw, opt_args)
    for n in fn.body:
        if (isinstance(n, (ast.Assign, ast.AnnAssign)) and isinstance(n.value, ast.Call) and isinstance(n.value.func, ast.Attribute)
                and n.value.func.attr in ("Lock", "RLock") and _name(n.value.func.value, "threading")):
            t = n.targets[0] if isinstance(n, ast.Assign) else n.target
            if _name(t):
                hooks.locks.add(t.id)
    env = {"time.time()": "world.time", VALID: VALID, "max_size": "max_size"}
    env.update(key_env(varg, vkw))
    ex = pystmt.Expr(env=env, hook=hooks.expr)
    hooks.ex = ex

    def ret(v, ex_):
        if v is None:
            raise Untranslatable("the wrapper returns nothing")
        if _name(v) and v.id in hooks.result_vars:
            return "(%s, cache, world)" % (v.id if opt_args else "some %s" % v.id)
        if opt_args and _name(v):
            return "(%s, cache, world)" % ex_.go(v)
        if isinstance(v, ast.Subscript):
            return "(%s, cache, world)" % ex_.go(v)
        raise Untranslatable("returned value %s" % ast.unparse(v))

    # the function must end in a return: falling off the end would return None
    text = pystmt.function(w, lean_name,
                           [(None, "(cost : α × β → Int)")] + binders + [(None, "(%s : α)" % varg), (None, "(%s : β)" % vkw),
                                                                         ("cache", "(cache : %s)" % cache_ty), (None, "(world : FnWorld (α × β))")],
                           "Option Nat × (%s) × FnWorld (α × β)" % cache_ty, ex, ret=ret, k="(none, cache, world)", stmt_hook=hooks.stmt)
    if varg != "args" or vkw != "kwargs":
        raise Untranslatable("parameter names of wrapper")  # the theorems name them
    # the initial value of the cache
    inits = []
    for n in ast.walk(fn):
        if n is w:
            continue
        t = n.targets[0] if isinstance(n, ast.Assign) and len(n.targets) == 1 else (n.target if isinstance(n, ast.AnnAssign) else None)
        if t is not None and _name(t, "cache") and getattr(n, "value", None) is not None and not any(n is x for x in ast.walk(w)):
            inits.append(n.value)
    if len(inits) != 1:
        raise Untranslatable("initial value of the cache")
    init = "def %s_init : %s := %s\n" % (lean_name.replace("_wrapper", ""), cache_ty, pystmt.Expr(env={}, hook=hooks.expr).go(inits[0]))
    return init + "\n" + text


SINGLE_CACHE = "Option α × Option β × Option Nat × Int"
LRU_CACHE = "PyOD (α × β) (Int × Nat)"


def t_single(src):
    return _translate(src, "single_item_cache", "single_wrapper", True, [(None, "(%s : Option Int)" % VALID)], SINGLE_CACHE,
                      lambda a, k: {a: "(some %s)" % a, k: "(some %s)" % k})


def t_lru(src):
    return _translate(src, "lru_cache_with_expiry", "lru_wrapper", False, [(None, "(max_size : Nat)"), (None, "(%s : Option Int)" % VALID)], LRU_CACHE,
                      lambda a, k: {a: a, "frozenset(%s.items())" % k: k})


TRANSLATORS = (("single_wrapper", t_single), ("lru_wrapper", t_lru))


def _pinned():
    try:
        return json.load(open(PINNED_FILE))
    except OSError:
        return {}


def generate(o):
    src = Src("orso/tools.py")
    pinned = _pinned()
    fresh = {}
    for key, fn in TRANSLATORS:
        fresh[key] = o.item("c19.fn." + key, lambda fn=fn: fn(src), pinned.get(key, "-- %s: not translated\n" % key))
    if os.environ.get("ORSO_VERIF_WRITE_PINNED") == "c19_fns":
        os.makedirs(os.path.dirname(PINNED_FILE), exist_ok=True)
        json.dump(fresh, open(PINNED_FILE, "w"), indent=1, sort_keys=True)
    header = HEADER + "import OrsoVerif.Model.CachePrim\n"
    header += "/-! The wrappers of single_item_cache and lru_cache_with_expiry (orso/tools.py), translated statement by statement (harness/pystmt.py + extractors/c19_fns.py). -/\n"
    header += "set_option linter.unusedVariables false\nopen _root_.Cache\nnamespace Gen.CacheFns\n"
    header += "variable {α β : Type} [BEq α] [BEq β] [Hashable α] [Hashable β]\n\n"
    text, bad = pystmt.compile_checked(header, [(k, fresh[k]) for k, _ in TRANSLATORS], "\nend Gen.CacheFns\n", pinned, core.LEAN, "CacheFns")
    for k in bad:
        o.degraded.append("c19.fn.%s (the translation does not elaborate in Lean; pinned text used)" % k)
    o.files["CacheFns.lean"] = text
