"""C15: the expressions of orso/profiler/profiler.py the property depends on, lifted from the AST into
Lean terms (Generated/ProfileExpr.lean).  Model/Profile.lean assembles them in a hand-written skeleton,
so the C15 theorems are re-checked against the arithmetic, comparisons, statement order and data
sources the code contains now.

Lifted (see PINNED for the shapes on the repaired tree):
* estimate_cardinality: the guard of the exact branch and the estimation formula;
* get_ordered_and_transitions: the transition test, the first value of `ordered`, the test under which it
  flips to 0 (and the value it flips to), the transitions increment;
* ColumnProfile.__add__: `count +=`, `missing +=`, the minimum / maximum combination and the tests under
  which they become None;
* string_to_int64: the clamp, whether the key is sliced from the encoded bytes, slice and pad width, pad
  byte, byte order;
* VarcharProfiler: the width of the profiled prefix and whether hashing happens before the cut
  (statement order as data), the source of the text extremes;
* NumericProfiler: the source of minimum and maximum (`int(numpy.min(column_data))`);
* get_kvm_hashes: what is de-duplicated before the smallest hashes are kept (the values, or the hashes), the
  number of values that seed the heap (`data[:size]`), where the loop starts (`data[size:]`), the replacement
  test (`hash_value < -min_hashes[0]`);
* find_mfvs: the argument of `most_common`;
* DataFrame.to_batches (orso/dataframe.py): the `range(...)` of the loop and the bounds of the row slice;
* NumericProfiler: the filter of the histogram comprehension (`if count > 0`), the slice of `bin_edges` the counts
  are zipped with, and that the kept pair carries the count;
* DataFrame.profile (orso/dataframe.py): that the property recomputes (`return TableProfile.from_dataframe(self)`
  under `@property` alone — no caching decorator, no stored result).

Policy: an expression inside the translator's grammar is translated as it is (so a change of operator,
operand or constant reaches the theorems); a statement that is no longer found, or an expression outside
the grammar, degrades to the pinned text (correspondence carries it).  A source of the extremes that does
not mention the data variable at all is translated as `unknown` (the model cannot call it a true extreme).
"""
import ast

from ..extract import HEADER, Src
from ..pyexpr import Untranslatable, assignments, find_function, to_lean

PINNED = {
    "estimate.guard": "(len < kvmSize)",
    "estimate.formula": "((kvmSize - 1) / (kth / 4294967296))",
    "order.ne": "(value ≠ last)",
    "order.first": "(if (lt value last = true) then (-1) else 1)",
    "order.flip": "(((lt last value = true) ∧ (ordered = (-1))) ∨ ((lt value last = true) ∧ (ordered = 1)))",
    "order.flip_value": "0",
    "order.inc": "(transitions + 1)",
    "add.count": "(mine + theirs)",
    "add.missing": "(mine + theirs)",
    "add.minimum": "(min (if (mine = none) then EInt.posInf else (EInt.ofOption mine)) (if (theirs = none) then EInt.posInf else (EInt.ofOption theirs)))",
    "add.minimum_absent": "(m = EInt.posInf)",
    "add.maximum": "(max (if (mine = none) then EInt.negInf else (EInt.ofOption mine)) (if (theirs = none) then EInt.negInf else (EInt.ofOption theirs)))",
    "add.maximum_absent": "(m = EInt.negInf)",
    "add.straight_line": True,
    "key.clamp": "(if (v ≤ maxInt64) then v else maxInt64)",
    "key.shape": [True, 8, 8, 0, "big"],
    "text.cut": [True, 64],
    "numeric.sources": ["reduceMin", "reduceMax"],
    "text.sources": ["reduceMin", "reduceMax"],
    "sketch.dedup": "values",
    "sketch.replace": "(hv < top)",
    "sketch.init": "size",
    "sketch.from": "size",
    "mfv.take": "topN",
    "batches.range": ["0", "rowcount", "batchSize"],
    "batches.slice": ["i", "(i + batchSize)"],
    "hist.keep": "(count > 0)",
    "hist.edges": [0, 1, True],
    "entry.recomputes": True,
    "add.transitions": "(mine + (theirs + 1))",
    "add.order": "(if (mine = theirs) then (some 0) else mine)",
    "add.merges": ["intersection-summed", "set-union-sorted-cut"],
    "add.sketch_order": "dedupThenCut",
    "add.mfv_one_sided": "(if (theirsEmpty = true) then MfvPick.mine else (if (mineEmpty = true) then MfvPick.theirs else MfvPick.nothing))",
    "text.cut_unit": "chars",
}



def pinned_json():
    """The values `generated.json` holds when every expression is as on the tree the proofs were written for."""
    P = PINNED
    return {
        "profexpr.estimate.guard": P["estimate.guard"], "profexpr.estimate.formula": P["estimate.formula"],
        "profexpr.order.ne": P["order.ne"], "profexpr.order.first": P["order.first"], "profexpr.order.flip": P["order.flip"],
        "profexpr.order.flip_value": P["order.flip_value"], "profexpr.order.inc": P["order.inc"],
        "profexpr.add.count": P["add.count"], "profexpr.add.missing": P["add.missing"],
        "profexpr.add.minimum": [P["add.minimum"], P["add.minimum_absent"]],
        "profexpr.add.maximum": [P["add.maximum"], P["add.maximum_absent"]],
        "profexpr.add.straight_line": P["add.straight_line"], "profexpr.key.clamp": P["key.clamp"],
        "profexpr.key.shape": P["key.shape"], "profexpr.text.cut": P["text.cut"],
        "profexpr.numeric.sources": P["numeric.sources"], "profexpr.text.sources": P["text.sources"],
        "profexpr.sketch.dedup": P["sketch.dedup"], "profexpr.sketch.replace": P["sketch.replace"],
        "profexpr.sketch.init": P["sketch.init"], "profexpr.sketch.from": P["sketch.from"],
        "profexpr.mfv.take": P["mfv.take"], "profexpr.batches.range": P["batches.range"],
        "profexpr.batches.slice": P["batches.slice"],
        "profexpr.hist.keep": P["hist.keep"], "profexpr.hist.edges": P["hist.edges"],
        "profexpr.entry.recomputes": P["entry.recomputes"],
        "profexpr.add.transitions": P["add.transitions"], "profexpr.add.order": P["add.order"],
        "profexpr.add.merges": P["add.merges"], "profexpr.add.sketch_order": P["add.sketch_order"],
        "profexpr.add.mfv_one_sided": P["add.mfv_one_sided"], "profexpr.text.cut_unit": P["text.cut_unit"],
    }


CMP = {
    "<": "(lt {a} {b} = true)",
    ">": "(lt {b} {a} = true)",
    "<=": "(lt {b} {a} = false)",
    ">=": "(lt {a} {b} = false)",
    "!=": "({a} ≠ {b})",
    "==": "({a} = {b})",
}


def order_env():
    """Comparisons between the two data values go through the model's `lt` parameter / equality."""
    env = {"ordered": "ordered", "transitions": "transitions"}
    names = {"value": "value", "last_value": "last"}
    for pa, la in names.items():
        for pb, lb in names.items():
            if pa == pb:
                continue
            for op, pat in CMP.items():
                env["%s %s %s" % (pa, op, pb)] = pat.format(a=la, b=lb)
    return env


class _ValueOr(ast.NodeTransformer):
    """`x or y` in value position is Python's `x if truthy(x) else y`; `min([a, b])` is `min(a, b)`."""

    def visit_BoolOp(self, n):
        self.generic_visit(n)
        if isinstance(n.op, ast.Or) and len(n.values) == 2:
            x, y = n.values
            return ast.IfExp(test=ast.Call(func=ast.Name(id="truthy", ctx=ast.Load()), args=[x], keywords=[]), body=x, orelse=y)
        return n

    def visit_Call(self, n):
        self.generic_visit(n)
        if isinstance(n.func, ast.Name) and n.func.id in ("min", "max") and len(n.args) == 1 and isinstance(n.args[0], (ast.List, ast.Tuple)) and len(n.args[0].elts) == 2:
            return ast.Call(func=n.func, args=list(n.args[0].elts), keywords=[])
        return n


def _compiles(text):
    """Type-check a candidate Generated/ProfileExpr.lean (only called when the text changed)."""
    import os
    import subprocess

    from .. import core

    tmp = os.path.join(core.LEAN, ".lake", "ProfileExpr_candidate.lean")
    try:
        os.makedirs(os.path.dirname(tmp), exist_ok=True)
        with open(tmp, "w") as f:
            f.write(text)
        with core.BuildLock():
            subprocess.run(["lake", "build", "OrsoVerif.Model.ProfileBase"], cwd=core.LEAN, capture_output=True, timeout=600)
            p = subprocess.run(["lake", "env", "lean", tmp], cwd=core.LEAN, capture_output=True, text=True, timeout=600)
        return p.returncode == 0, (p.stdout + p.stderr)[:200]
    except Exception as e:  # no toolchain: keep the text, the build step will report
        return True, str(e)


def generate(o, _force_pinned=False):
    import os

    from ..extract import GEN_DIR

    src = Src("orso/profiler/profiler.py")
    tree = src.tree
    if _force_pinned:
        real_item = o.item

        def pinned_item(key, getter, pinned):
            def fail():
                raise Untranslatable("generated text does not type-check; pinned")

            if key.startswith("profexpr."):
                o.degraded[:] = [d for d in o.degraded if not d.startswith(key + " ")]
                return real_item(key, fail, pinned)
            return real_item(key, getter, pinned)

        o.item = pinned_item

    # ---------------------------------------------------------------- estimate_cardinality
    def est_fn():
        return find_function(tree, "estimate_cardinality", "ColumnProfile")

    def guard():
        for st in est_fn().body:
            if isinstance(st, ast.If) and "KVM_SIZE" in ast.unparse(st.test) and "len(" in ast.unparse(st.test):
                ret = st.body[0]
                if isinstance(ret, ast.Return) and ast.unparse(ret.value) == "len(self.kmv_hashes)":
                    return to_lean(st.test, {"len(self.kmv_hashes)": "len", "KVM_SIZE": "kvmSize"})
        raise KeyError("if len(self.kmv_hashes) < KVM_SIZE: return len(...)")

    def formula():
        fn = est_fn()
        kth = [v for _, v in assignments(fn, "kth_min_value")]
        if len(kth) != 1 or ast.unparse(kth[0]) != "self.kmv_hashes[-1]":
            raise KeyError("kth_min_value = self.kmv_hashes[-1]")
        ret = [s for s in fn.body if isinstance(s, ast.Return)][-1].value
        if not (isinstance(ret, ast.Call) and ast.unparse(ret.func) == "int" and len(ret.args) == 1):
            raise KeyError("return int(<formula>)")
        return to_lean(ret.args[0], {"KVM_SIZE": "kvmSize", "kth_min_value": "kth", "2 ** 32": "4294967296"}, mode="field")

    # ---------------------------------------------------------------- get_ordered_and_transitions
    def ot_parts():
        fn = find_function(tree, "get_ordered_and_transitions")
        loop = [s for s in fn.body if isinstance(s, ast.For)]
        if len(loop) != 1 or ast.unparse(loop[0].target) != "value" or ast.unparse(loop[0].iter) != "data[1:]":
            raise KeyError("for value in data[1:]")
        body = loop[0].body
        if not (len(body) == 2 and isinstance(body[0], ast.If) and not body[0].orelse and ast.unparse(body[1]) == "last_value = value"):
            raise KeyError("loop body shape")
        outer = body[0]
        inc = [s for s in outer.body if isinstance(s, ast.AugAssign) and ast.unparse(s.target) == "transitions"]
        inner = [s for s in outer.body if isinstance(s, ast.If)]
        if len(inc) != 1 or len(inner) != 1 or len(outer.body) != 2:
            raise KeyError("transition body shape")
        inner = inner[0]
        if ast.unparse(inner.test) != "ordered is None" or len(inner.body) != 1 or not isinstance(inner.body[0], ast.Assign):
            raise KeyError("if ordered is None: ordered = ...")
        if ast.unparse(inner.body[0].targets[0]) != "ordered":
            raise KeyError("ordered = ...")
        if len(inner.orelse) != 1 or not isinstance(inner.orelse[0], ast.If) or inner.orelse[0].orelse:
            raise KeyError("elif <flip>: ordered = 0")
        flip = inner.orelse[0]
        if len(flip.body) != 1 or not isinstance(flip.body[0], ast.Assign) or ast.unparse(flip.body[0].targets[0]) != "ordered":
            raise KeyError("flip assignment")
        env = order_env()
        return {
            "ne": to_lean(outer.test, env),
            "inc": to_lean(ast.BinOp(left=inc[0].target, op=inc[0].op, right=inc[0].value), env),
            "first": to_lean(inner.body[0].value, env),
            "flip": to_lean(flip.test, env),
            "flip_value": to_lean(flip.body[0].value, env),
        }

    # ---------------------------------------------------------------- ColumnProfile.__add__
    def add_fn():
        return find_function(tree, "__add__", "ColumnProfile")

    def aug(field):
        a = assignments(add_fn(), "new_profile." + field)
        if len(a) != 1 or not isinstance(a[0][0], ast.AugAssign):
            raise KeyError("new_profile.%s op= ..." % field)
        return to_lean(a[0][1], {"new_profile." + field: "mine", "profile." + field: "theirs"})

    def combo(field, fn_name):
        a = assignments(add_fn(), "new_profile." + field)
        if len(a) != 2 or ast.unparse(a[1][1]) != "None":
            raise KeyError("two assignments to new_profile.%s, the second to None" % field)
        expr = _ValueOr().visit(ast.parse(ast.unparse(a[0][1]), mode="eval").body)
        ast.fix_missing_locations(expr)
        env = {
            "self.%s is None" % field: "(mine = none)",
            "profile.%s is None" % field: "(theirs = none)",
            "self.%s is not None" % field: "(mine ≠ none)",
            "profile.%s is not None" % field: "(theirs ≠ none)",
            "self.%s" % field: "(EInt.ofOption mine)",
            "profile.%s" % field: "(EInt.ofOption theirs)",
            "INFINITY": "EInt.posInf",
            "-INFINITY": "EInt.negInf",
        }
        text = to_lean(expr, env, funcs={"truthy": "EInt.truthy"})
        # the guard of the second assignment
        for n in ast.walk(add_fn()):
            if isinstance(n, ast.If) and a[1][0] in n.body and len(n.body) == 1 and not n.orelse:
                test = to_lean(n.test, {"new_profile." + field: "m", "INFINITY": "EInt.posInf", "-INFINITY": "EInt.negInf"})
                return [text, test]
        raise KeyError("if new_profile.%s == ...: new_profile.%s = None" % (field, field))

    def straight_line():
        """The four core updates are top-level statements of __add__ and nothing before the last of them can
        leave the function (no return / raise, nested or not): the skeleton `addCore` applies all four."""
        fn = add_fn()
        idx = {}
        for i, st in enumerate(fn.body):
            tgt = None
            if isinstance(st, ast.AugAssign):
                tgt = ast.unparse(st.target)
            elif isinstance(st, ast.Assign) and len(st.targets) == 1:
                tgt = ast.unparse(st.targets[0])
            for f in ("count", "missing", "minimum", "maximum"):
                if tgt == "new_profile." + f:
                    idx.setdefault(f, i)
        if len(idx) != 4:
            return False
        first = fn.body[0]
        if ast.unparse(first) != "new_profile = self.deep_copy()":
            raise KeyError("new_profile = self.deep_copy()")
        last = max(idx.values())
        for st in fn.body[: last + 1]:
            for n in ast.walk(st):
                if isinstance(n, (ast.Return, ast.Raise)):
                    return False
        return True

    # ---------------------------------------------------------------- string_to_int64
    def key_fn():
        return find_function(tree, "string_to_int64")

    def resolve(node):
        if isinstance(node, ast.Constant) and isinstance(node.value, int):
            return int(node.value)
        if isinstance(node, ast.Name):
            return int(src.assign(node.id))
        raise KeyError("width " + ast.unparse(node))

    class _MaskToMod(ast.NodeTransformer):
        """`x & M` with M = 2**k - 1 (a constant or a module constant) keeps the low k bits of a non-negative
        x: `x % (M + 1)`.  (The key is non-negative: it is read from bytes.)"""

        def visit_BinOp(self, n):
            self.generic_visit(n)
            if isinstance(n.op, ast.BitAnd):
                for a, m in ((n.left, n.right), (n.right, n.left)):
                    try:
                        mv = resolve(m)
                    except Exception:
                        continue
                    if mv >= 0 and (mv + 1) & mv == 0:
                        return ast.BinOp(left=a, op=ast.Mod(), right=ast.BinOp(left=m, op=ast.Add(), right=ast.Constant(value=1)))
            return n

    def clamp():
        ret = [s for s in key_fn().body if isinstance(s, ast.Return)][-1].value
        ret = ast.fix_missing_locations(_MaskToMod().visit(ret))
        return to_lean(ret, {"int_value": "v", "MAX_INT64": "maxInt64"})

    def key_shape():
        fn = key_fn()
        bv = [v for _, v in assignments(fn, "byte_value")]
        iv = [v for _, v in assignments(fn, "int_value")]
        if len(bv) != 1 or len(iv) != 1:
            raise KeyError("byte_value / int_value")
        iv = iv[0]
        if not (isinstance(iv, ast.Call) and ast.unparse(iv.func) == "int.from_bytes" and ast.unparse(iv.args[0]) == "byte_value"):
            raise KeyError("int.from_bytes(byte_value, ...)")
        order = ast.literal_eval(iv.args[1]) if len(iv.args) > 1 else [ast.literal_eval(k.value) for k in iv.keywords if k.arg == "byteorder"][0]
        e = bv[0]
        # repaired shape: value.encode(..)[:W].ljust(W2, b"\x00")
        if (isinstance(e, ast.Call) and isinstance(e.func, ast.Attribute) and e.func.attr == "ljust" and len(e.args) == 2
                and isinstance(e.func.value, ast.Subscript) and isinstance(e.func.value.slice, ast.Slice)
                and e.func.value.slice.lower is None and e.func.value.slice.step is None
                and isinstance(e.func.value.value, ast.Call) and ast.unparse(e.func.value.value.func) == "value.encode"):
            pad = ast.literal_eval(e.args[1])
            if not (isinstance(pad, bytes) and len(pad) == 1):
                raise KeyError("pad byte")
            return [True, resolve(e.func.value.slice.upper), resolve(e.args[0]), pad[0], order]
        # pinned-tree shape: (value + "\x00"*k)[:W].encode(..)  -> characters are sliced, padding is k NULs
        if (isinstance(e, ast.Call) and isinstance(e.func, ast.Attribute) and e.func.attr == "encode"
                and isinstance(e.func.value, ast.Subscript) and isinstance(e.func.value.slice, ast.Slice)
                and isinstance(e.func.value.value, ast.BinOp) and isinstance(e.func.value.value.op, ast.Add)
                and ast.unparse(e.func.value.value.left) == "value"):
            padtxt = ast.literal_eval(e.func.value.value.right)
            if not (isinstance(padtxt, str) and set(padtxt) <= {"\x00"}):
                raise KeyError("pad text")
            return [False, resolve(e.func.value.slice.upper), len(padtxt), 0, order]
        raise KeyError("byte_value shape")

    # ---------------------------------------------------------------- profilers
    def call_body(cls):
        return find_function(tree, "__call__", cls)

    def cut_shape(e, var):
        """(unit, width) of the expression a text value `var` is replaced by: 'chars' for `var[:W]`, 'bytes' for
        `var.encode(..)[:W].decode(.., errors="ignore")` (whole characters that fit W bytes); `var if len(var) <= W and ... else X`
        is X when the values the test lets through are left alone by X too."""
        def upper(sl):
            if not (isinstance(sl, ast.Slice) and sl.lower is None and sl.step is None and sl.upper is not None):
                raise KeyError("slice [:W]")
            return resolve(sl.upper)

        if isinstance(e, ast.Subscript) and isinstance(e.value, ast.Name) and e.value.id == var:
            return "chars", upper(e.slice)
        if (isinstance(e, ast.Call) and isinstance(e.func, ast.Attribute) and e.func.attr == "decode" and isinstance(e.func.value, ast.Subscript)
                and isinstance(e.func.value.value, ast.Call) and ast.unparse(e.func.value.value.func) == var + ".encode"):
            enc = [ast.literal_eval(a) for a in e.func.value.value.args] + [ast.literal_eval(k.value) for k in e.func.value.value.keywords]
            dec = [ast.literal_eval(a) for a in e.args] + [ast.literal_eval(k.value) for k in e.keywords]
            norm = lambda xs: {str(x).lower().replace("-", "") for x in xs}
            if not (norm(enc) <= {"utf8"} and norm(dec) <= {"utf8", "ignore"} and "ignore" in norm(dec)):
                raise KeyError("encode / decode arguments")
            return "bytes", upper(e.func.value.slice)
        if isinstance(e, ast.IfExp) and isinstance(e.body, ast.Name) and e.body.id == var:
            unit, w = cut_shape(e.orelse, var)
            conj = e.test.values if isinstance(e.test, ast.BoolOp) and isinstance(e.test.op, ast.And) else [e.test]
            texts = [ast.unparse(c) for c in conj]
            short = [t for t in texts if t.startswith("len(%s) <= " % var) or t.startswith("len(%s) < " % var)]
            if len(short) != 1:
                raise KeyError("test of the conditional cut")
            bound = resolve(ast.parse(short[0].split(" ", 2)[2], mode="eval").body) - (1 if " < " in short[0] else 0)
            if bound > w:
                raise KeyError("values longer than the window are left alone")
            ascii_only = (var + ".isascii()") in texts
            if unit == "chars" or ascii_only:
                return unit, w  # a value of at most W characters (ASCII: of at most W bytes) is its own cut
            raise KeyError("short values are left alone, longer ones cut in bytes")
        raise KeyError("cut expression " + ast.unparse(e)[:50])

    def text_cut_parts():
        fn = call_body("VarcharProfiler")
        blocks = [fn.body] + [n.body for n in ast.walk(fn) if isinstance(n, ast.If)]
        for body in blocks:
            ih = ic = None
            width = unit = None
            for i, st in enumerate(body):
                if isinstance(st, ast.Assign) and ast.unparse(st.targets[0]) == "self.profile.kmv_hashes" and "get_kvm_hashes(column_data" in ast.unparse(st.value):
                    ih = i
                if (isinstance(st, ast.Assign) and ast.unparse(st.targets[0]) == "column_data" and isinstance(st.value, ast.ListComp)
                        and len(st.value.generators) == 1 and isinstance(st.value.generators[0].target, ast.Name)
                        and ast.unparse(st.value.generators[0].iter) == "column_data" and not st.value.generators[0].ifs):
                    unit, width = cut_shape(st.value.elt, st.value.generators[0].target.id)
                    ic = i
            if ih is not None and ic is not None:
                return [ih < ic, width], unit
        raise KeyError("hash and cut statements of VarcharProfiler")

    def text_cut():
        return text_cut_parts()[0]

    def text_cut_unit():
        return text_cut_parts()[1]

    MINF = ("numpy.min", "numpy.amin", "min", "numpy.nanmin")
    MAXF = ("numpy.max", "numpy.amax", "max", "numpy.nanmax")

    def classify(expr, wrapper):
        """reduceMin / reduceMax for `wrapper(<min|max>(column_data))`; unknown when the data is not used at all."""
        names = {n.id for n in ast.walk(expr) if isinstance(n, ast.Name)}
        if isinstance(expr, ast.Call) and ast.unparse(expr.func) == wrapper and len(expr.args) == 1 and not expr.keywords:
            inner = expr.args[0]
            if isinstance(inner, ast.Call) and len(inner.args) == 1 and not inner.keywords and ast.unparse(inner.args[0]) == "column_data":
                f = ast.unparse(inner.func)
                if f in MINF:
                    return "reduceMin"
                if f in MAXF:
                    return "reduceMax"
            if isinstance(inner, ast.Call) and not inner.args and isinstance(inner.func, ast.Attribute) and ast.unparse(inner.func.value) == "column_data":
                if inner.func.attr in ("min",):
                    return "reduceMin"
                if inner.func.attr in ("max",):
                    return "reduceMax"
        if "column_data" not in names:
            return "unknown"
        raise KeyError("extreme computed from the data in an unrecognised way: " + ast.unparse(expr)[:60])

    def sources(cls, wrapper):
        fn = call_body(cls)
        lo = [v for _, v in assignments(fn, "self.profile.minimum")]
        hi = [v for _, v in assignments(fn, "self.profile.maximum")]
        if len(lo) != 1 or len(hi) != 1:
            raise KeyError("self.profile.minimum / maximum")
        return [classify(lo[0], wrapper), classify(hi[0], wrapper)]

    # ---------------------------------------------------------------- get_kvm_hashes
    def kvm_fn():
        return find_function(tree, "get_kvm_hashes")

    def _mentions_hash(n):
        return "xxh32" in ast.unparse(n) or "hash" in ast.unparse(n).lower()

    def sketch_dedup():
        """'hashes' when the hashes are collected in a set (duplicates of *hashes* vanish); 'values' when the
        data is de-duplicated (`data = list(set(data))` / iteration over `set(data)`) and the hashes are kept in a
        list; anything else is not recognised."""
        fn = kvm_fn()
        for n in ast.walk(fn):
            if isinstance(n, ast.SetComp) and _mentions_hash(n.elt):
                return "hashes"
            if (isinstance(n, ast.Call) and isinstance(n.func, ast.Name) and n.func.id in ("set", "frozenset") and len(n.args) == 1
                    and isinstance(n.args[0], (ast.ListComp, ast.GeneratorExp)) and _mentions_hash(n.args[0].elt)):
                return "hashes"
        dd = [v for _, v in assignments(fn, "data")]
        if len(dd) == 1 and ast.unparse(dd[0]) in ("list(set(data))", "set(data)", "tuple(set(data))", "list(dict.fromkeys(data))"):
            comp = [v for _, v in assignments(fn, "min_hashes") if isinstance(v, ast.ListComp)]
            if len(comp) == 1:
                return "values"
        raise KeyError("data = list(set(data)) + a list of hashes")

    def sketch_init():
        comp = [v for _, v in assignments(kvm_fn(), "min_hashes") if isinstance(v, ast.ListComp)]
        if len(comp) != 1 or len(comp[0].generators) != 1 or comp[0].generators[0].ifs:
            raise KeyError("min_hashes = [... for element in data[:size]]")
        it = comp[0].generators[0].iter
        if not (isinstance(it, ast.Subscript) and ast.unparse(it.value) == "data" and isinstance(it.slice, ast.Slice)
                and it.slice.lower is None and it.slice.step is None and it.slice.upper is not None):
            raise KeyError("data[:size]")
        return to_lean(it.slice.upper, {"size": "size"})

    def _kvm_loop():
        loops = [n for n in kvm_fn().body if isinstance(n, ast.For)]
        if len(loops) != 1:
            raise KeyError("for element in data[size:]")
        return loops[0]

    def sketch_from():
        it = _kvm_loop().iter
        if not (isinstance(it, ast.Subscript) and ast.unparse(it.value) == "data" and isinstance(it.slice, ast.Slice)
                and it.slice.upper is None and it.slice.step is None and it.slice.lower is not None):
            raise KeyError("data[size:]")
        return to_lean(it.slice.lower, {"size": "size"})

    def sketch_replace():
        loop = _kvm_loop()
        tests = [n for n in loop.body if isinstance(n, ast.If)]
        hv = [v for _, v in assignments(loop, "hash_value")]
        if len(tests) != 1 or tests[0].orelse or len(hv) != 1 or "heappushpop(min_hashes, -hash_value)" not in ast.unparse(tests[0].body[0]):
            raise KeyError("if <test>: heapq.heappushpop(min_hashes, -hash_value)")
        return to_lean(tests[0].test, {"hash_value": "hv", "-min_hashes[0]": "top"})

    def mfv_take():
        fn = find_function(tree, "find_mfvs")
        calls = [n for n in ast.walk(fn) if isinstance(n, ast.Call) and isinstance(n.func, ast.Attribute) and n.func.attr == "most_common"]
        if len(calls) != 1 or len(calls[0].args) != 1 or calls[0].keywords or ast.unparse(calls[0].func.value) != "counter":
            raise KeyError("counter.most_common(top_n)")
        cnt = [v for _, v in assignments(fn, "counter")]
        if len(cnt) != 1 or ast.unparse(cnt[0]) != "Counter(data)":
            raise KeyError("counter = Counter(data)")
        return to_lean(calls[0].args[0], {"top_n": "topN"})

    # ---------------------------------------------------------------- DataFrame.to_batches
    def batches_fn():
        return find_function(Src("orso/dataframe.py").tree, "to_batches", "DataFrame")

    def _batch_loop():
        loops = [n for n in batches_fn().body if isinstance(n, ast.For)]
        if len(loops) != 1 or ast.unparse(loops[0].target) != "i":
            raise KeyError("for i in range(...)")
        return loops[0]

    BENV = {"self.rowcount": "rowcount", "len(self._rows)": "rowcount", "len(self)": "rowcount", "batch_size": "batchSize", "i": "i"}

    def batches_range():
        it = _batch_loop().iter
        if not (isinstance(it, ast.Call) and ast.unparse(it.func) == "range" and not it.keywords and 1 <= len(it.args) <= 3):
            raise KeyError("range(start, stop, step)")
        args = list(it.args)
        if len(args) == 1:
            args = [ast.Constant(0), args[0], ast.Constant(1)]
        elif len(args) == 2:
            args = args + [ast.Constant(1)]
        return [to_lean(a, BENV) for a in args]

    def batches_slice():
        loop = _batch_loop()
        subs = [n for n in ast.walk(loop) if isinstance(n, ast.Subscript) and ast.unparse(n.value) == "self._rows" and isinstance(n.slice, ast.Slice)]
        ys = [n for n in ast.walk(loop) if isinstance(n, (ast.Yield, ast.YieldFrom))]
        if len(subs) != 1 or len(ys) != 1 or subs[0].slice.step is not None or subs[0].slice.lower is None or subs[0].slice.upper is None:
            raise KeyError("yield DataFrame(rows=self._rows[lo:hi], ...)")
        return [to_lean(subs[0].slice.lower, BENV), to_lean(subs[0].slice.upper, BENV)]

    # ---------------------------------------------------------------- histogram comprehension
    def _hist_comp():
        a = [v for _, v in assignments(call_body("NumericProfiler"), "self.profile.histogram")]
        if len(a) != 1 or not isinstance(a[0], ast.ListComp) or len(a[0].generators) != 1:
            raise KeyError("self.profile.histogram = [... for count, left_edge in zip(hist_counts, bin_edges[:-1]) ...]")
        comp = a[0]
        g = comp.generators[0]
        if ast.unparse(g.target) not in ("(count, left_edge)", "count, left_edge"):
            raise KeyError("for count, left_edge in ...")
        it = g.iter
        if not (isinstance(it, ast.Call) and ast.unparse(it.func) == "zip" and len(it.args) == 2 and ast.unparse(it.args[0]) == "hist_counts"):
            raise KeyError("zip(hist_counts, bin_edges[...])")
        return comp, g, it.args[1]

    def hist_keep():
        comp, g, _ = _hist_comp()
        if not g.ifs:
            return "True"
        if len(g.ifs) != 1:
            raise KeyError("one filter")
        if ast.unparse(g.ifs[0]) == "count":  # truthiness of an integer
            return "(count ≠ 0)"
        return to_lean(g.ifs[0], {"count": "count"})

    def hist_edges():
        comp, g, edges = _hist_comp()
        if not (isinstance(edges, ast.Subscript) and ast.unparse(edges.value) == "bin_edges" and isinstance(edges.slice, ast.Slice) and edges.slice.step is None):
            raise KeyError("bin_edges[lo:hi]")
        lo = 0 if edges.slice.lower is None else ast.literal_eval(edges.slice.lower)
        hi = 0 if edges.slice.upper is None else -ast.literal_eval(edges.slice.upper)
        if not (isinstance(lo, int) and isinstance(hi, int) and lo >= 0 and hi >= 0):
            raise KeyError("slice bounds")
        keeps = isinstance(comp.elt, ast.Tuple) and len(comp.elt.elts) == 2 and ast.unparse(comp.elt.elts[1]) == "count"
        return [lo, hi, bool(keeps)]

    # ---------------------------------------------------------------- DataFrame.profile
    def entry_recomputes():
        fn = find_function(Src("orso/dataframe.py").tree, "profile", "DataFrame")
        decos = [ast.unparse(d) for d in fn.decorator_list]
        if "property" not in decos:
            raise KeyError("@property def profile")
        body = [st for st in fn.body if not isinstance(st, (ast.Import, ast.ImportFrom))
                and not (isinstance(st, ast.Expr) and isinstance(st.value, ast.Constant))]
        direct = len(body) == 1 and isinstance(body[0], ast.Return) and ast.unparse(body[0].value) in (
            "TableProfile.from_dataframe(self)", "table_profiler(self)")
        if decos != ["property"]:
            return False  # something else wraps the call (a cache, a memo)
        if direct:
            return True
        # any other body: recomputation cannot be read off the text
        for n in ast.walk(fn):
            if isinstance(n, (ast.Global, ast.Nonlocal)) or (isinstance(n, (ast.Attribute, ast.Subscript)) and isinstance(n.ctx, ast.Store)):
                return False  # stores something across calls
        raise KeyError("return TableProfile.from_dataframe(self)")

    # ---------------------------------------------------------------- the rest of ColumnProfile.__add__
    def add_transitions():
        a = assignments(add_fn(), "new_profile.transitions")
        if len(a) != 1 or not isinstance(a[0][0], ast.AugAssign):
            raise KeyError("new_profile.transitions += ...")
        return to_lean(a[0][1], {"new_profile.transitions": "mine", "profile.transitions": "theirs"})

    def add_order():
        a = assignments(add_fn(), "new_profile.order")
        if len(a) != 1:
            raise KeyError("new_profile.order = ...")
        env = {"new_profile.order": "mine", "self.order": "mine", "profile.order": "theirs",
               "0": "(some 0)", "1": "(some 1)", "-1": "(some (-1))", "None": "none"}
        return to_lean(a[0][1], env)

    def sketch_order():
        """The order of the two steps of the sketch merge (the branch under `if self.kmv_hashes and profile.kmv_hashes:`):
        'dedupThenCut' — duplicates of hashes are removed and then the KVM_SIZE smallest are kept
        (`sorted(set(a + b))[:KVM_SIZE]`, `heapq.nsmallest(KVM_SIZE, set(a + b))`); 'cutThenDedup' — the KVM_SIZE smallest
        entries of the concatenation are kept and then duplicates are removed (`sorted(set(heapq.nsmallest(KVM_SIZE, a + b)))`,
        `sorted(set(sorted(a + b)[:KVM_SIZE]))`).  Local names assigned once in the branch are read through.  Anything else
        is not recognised."""
        fn = add_fn()
        top = [st for st in fn.body if isinstance(st, ast.If)
               and ast.unparse(st.test) in ("self.kmv_hashes and profile.kmv_hashes", "profile.kmv_hashes and self.kmv_hashes")]
        if len(top) != 1:
            raise KeyError("if self.kmv_hashes and profile.kmv_hashes")
        body = [st for st in top[0].body if not isinstance(st, ast.Pass) and not (isinstance(st, ast.Expr) and isinstance(st.value, ast.Constant))]
        local = {}
        final = None
        for st in body:
            if not (isinstance(st, ast.Assign) and len(st.targets) == 1):
                raise KeyError("statement in the sketch branch: " + ast.unparse(st)[:40])
            tg = st.targets[0]

            class Sub(ast.NodeTransformer):
                def visit_Name(self, n):
                    return local.get(n.id, n) if isinstance(n.ctx, ast.Load) else n

            import copy

            value = ast.fix_missing_locations(Sub().visit(copy.deepcopy(st.value)))
            if isinstance(tg, ast.Name):
                if tg.id in local or final is not None:
                    raise KeyError("a local of the sketch branch assigned twice")
                local[tg.id] = value
            elif ast.unparse(tg) == "new_profile.kmv_hashes" and final is None:
                final = value
            else:
                raise KeyError("assignment in the sketch branch: " + ast.unparse(tg)[:40])
        if final is None:
            raise KeyError("new_profile.kmv_hashes = ...")
        txt = ast.unparse(final)
        for x in ("self.kmv_hashes + profile.kmv_hashes", "profile.kmv_hashes + self.kmv_hashes",
                  "[*self.kmv_hashes, *profile.kmv_hashes]", "[*profile.kmv_hashes, *self.kmv_hashes]"):
            txt = txt.replace(x, "X")
        txt = txt.replace("list(X)", "X").replace("frozenset(", "set(")
        if txt in ("sorted(set(X))[:KVM_SIZE]", "heapq.nsmallest(KVM_SIZE, set(X))", "sorted(heapq.nsmallest(KVM_SIZE, set(X)))",
                   "sorted(list(set(X)))[:KVM_SIZE]", "list(sorted(set(X)))[:KVM_SIZE]", "sorted(set(X))[0:KVM_SIZE]"):
            return "dedupThenCut"
        if txt in ("sorted(set(heapq.nsmallest(KVM_SIZE, X)))", "sorted(set(sorted(X)[:KVM_SIZE]))", "sorted(set(sorted(X)[0:KVM_SIZE]))",
                   "sorted(list(set(heapq.nsmallest(KVM_SIZE, X))))", "list(sorted(set(heapq.nsmallest(KVM_SIZE, X))))"):
            return "cutThenDedup"
        raise KeyError("sketch merge: " + txt[:60])

    def add_merges():
        """Shapes of the two merges the model writes by hand; anything else is not recognised.  (The sketch merge: a sorted
        set of both sides' hashes cut to KVM_SIZE; the order of 'set' and 'cut' is `sketch_order` above.)"""
        fn = add_fn()
        txt = ast.unparse(fn)
        mf = ("combined_map[value] = morsel1_map[value] + morsel2_map[value]" in txt and "if value in morsel2_map" in txt
              and "for value in morsel1_map" in txt)
        if not mf:
            raise KeyError("most-frequent merge")
        return ["intersection-summed", "set-union-sorted-cut" if sketch_order() == "dedupThenCut" else "sorted-cut-set"]

    def mfv_one_sided():
        """The `elif` chain under `if self.most_frequent_values and profile.most_frequent_values:` — which list the sum gets when
        not both sides list values: ours (already copied: `pass` / no branch), the other side's, or none."""
        fn = add_fn()
        top = [st for st in fn.body if isinstance(st, ast.If)
               and ast.unparse(st.test) in ("self.most_frequent_values and profile.most_frequent_values",
                                            "profile.most_frequent_values and self.most_frequent_values")]
        if len(top) != 1:
            raise KeyError("if self.most_frequent_values and profile.most_frequent_values")
        env = {}
        for a, b in (("count", "missing"), ("missing", "count")):
            env["profile.%s == profile.%s" % (a, b)] = "(theirsEmpty = true)"
            env["self.%s == self.%s" % (a, b)] = "(mineEmpty = true)"
            env["profile.%s != profile.%s" % (a, b)] = "(theirsEmpty = false)"
            env["self.%s != self.%s" % (a, b)] = "(mineEmpty = false)"
        for side, nm in (("profile", "theirsLists"), ("self", "mineLists")):
            env["%s.most_frequent_values" % side] = "(%s = true)" % nm
            env["not %s.most_frequent_values" % side] = "(%s = false)" % nm
            env["len(%s.most_frequent_values) > 0" % side] = "(%s = true)" % nm
            env["len(%s.most_frequent_values) == 0" % side] = "(%s = false)" % nm

        def copy_of(txt, side, fld):
            base = "%s.most_frequent_%s" % (side, fld)
            return txt in (base, "list(%s)" % base, "%s[:]" % base, "%s.copy()" % base, "[*%s]" % base)

        def pick(body):
            stmts = [st for st in body if not isinstance(st, ast.Pass) and not (isinstance(st, ast.Expr) and isinstance(st.value, ast.Constant))]
            if not stmts:
                return "MfvPick.mine"
            tg = {}
            for st in stmts:
                if not (isinstance(st, ast.Assign) and len(st.targets) == 1):
                    raise KeyError("branch of the most-frequent chain")
                tg[ast.unparse(st.targets[0])] = ast.unparse(st.value)
            if set(tg) != {"new_profile.most_frequent_values", "new_profile.most_frequent_counts"}:
                raise KeyError("branch assigns %r" % sorted(tg))
            v, c = tg["new_profile.most_frequent_values"], tg["new_profile.most_frequent_counts"]
            if v in ("[]", "list()") and c in ("[]", "list()"):
                return "MfvPick.nothing"
            for side, res in (("profile", "MfvPick.theirs"), ("self", "MfvPick.mine")):
                if copy_of(v, side, "values") and copy_of(c, side, "counts"):
                    return res
            raise KeyError("branch of the most-frequent chain: " + v[:40])

        def chain(orelse):
            if not orelse:
                return "MfvPick.mine"
            if len(orelse) == 1 and isinstance(orelse[0], ast.If):
                n = orelse[0]
                return "(if %s then %s else %s)" % (to_lean(n.test, env), pick(n.body), chain(n.orelse))
            return pick(orelse)

        return chain(top[0].orelse)

    def ot(key):
        def g():
            return ot_parts()[key]

        return g

    v = {}
    v["guard"] = o.item("profexpr.estimate.guard", guard, PINNED["estimate.guard"])
    v["formula"] = o.item("profexpr.estimate.formula", formula, PINNED["estimate.formula"])
    v["ne"] = o.item("profexpr.order.ne", ot("ne"), PINNED["order.ne"])
    v["first"] = o.item("profexpr.order.first", ot("first"), PINNED["order.first"])
    v["flip"] = o.item("profexpr.order.flip", ot("flip"), PINNED["order.flip"])
    v["flip_value"] = o.item("profexpr.order.flip_value", ot("flip_value"), PINNED["order.flip_value"])
    v["inc"] = o.item("profexpr.order.inc", ot("inc"), PINNED["order.inc"])
    v["count"] = o.item("profexpr.add.count", lambda: aug("count"), PINNED["add.count"])
    v["missing"] = o.item("profexpr.add.missing", lambda: aug("missing"), PINNED["add.missing"])
    mn = o.item("profexpr.add.minimum", lambda: combo("minimum", "min"), [PINNED["add.minimum"], PINNED["add.minimum_absent"]])
    mx = o.item("profexpr.add.maximum", lambda: combo("maximum", "max"), [PINNED["add.maximum"], PINNED["add.maximum_absent"]])
    sl = o.item("profexpr.add.straight_line", straight_line, PINNED["add.straight_line"])
    v["clamp"] = o.item("profexpr.key.clamp", clamp, PINNED["key.clamp"])
    ks = o.item("profexpr.key.shape", key_shape, PINNED["key.shape"])
    tc = o.item("profexpr.text.cut", text_cut, PINNED["text.cut"])
    ns = o.item("profexpr.numeric.sources", lambda: sources("NumericProfiler", "int"), PINNED["numeric.sources"])
    ts = o.item("profexpr.text.sources", lambda: sources("VarcharProfiler", "string_to_int64"), PINNED["text.sources"])
    sd = o.item("profexpr.sketch.dedup", sketch_dedup, PINNED["sketch.dedup"])
    v["sk_replace"] = o.item("profexpr.sketch.replace", sketch_replace, PINNED["sketch.replace"])
    v["sk_init"] = o.item("profexpr.sketch.init", sketch_init, PINNED["sketch.init"])
    v["sk_from"] = o.item("profexpr.sketch.from", sketch_from, PINNED["sketch.from"])
    v["mfv_take"] = o.item("profexpr.mfv.take", mfv_take, PINNED["mfv.take"])
    br = o.item("profexpr.batches.range", batches_range, PINNED["batches.range"])
    bsl = o.item("profexpr.batches.slice", batches_slice, PINNED["batches.slice"])
    v["hist_keep"] = o.item("profexpr.hist.keep", hist_keep, PINNED["hist.keep"])
    he = o.item("profexpr.hist.edges", hist_edges, PINNED["hist.edges"])
    er = o.item("profexpr.entry.recomputes", entry_recomputes, PINNED["entry.recomputes"])
    v["add_tr"] = o.item("profexpr.add.transitions", add_transitions, PINNED["add.transitions"])
    v["add_or"] = o.item("profexpr.add.order", add_order, PINNED["add.order"])
    o.item("profexpr.add.merges", add_merges, PINNED["add.merges"])
    sko = o.item("profexpr.add.sketch_order", sketch_order, PINNED["add.sketch_order"])
    v["mfv_one_sided"] = o.item("profexpr.add.mfv_one_sided", mfv_one_sided, PINNED["add.mfv_one_sided"])
    tcu = o.item("profexpr.text.cut_unit", text_cut_unit, PINNED["text.cut_unit"])

    def b(x):
        return "true" if x else "false"

    t = HEADER + "import OrsoVerif.Model.ProfileBase\n"
    t += "/-! Expressions of orso/profiler/profiler.py translated from the source (harness/extractors/c15_expr.py). -/\n"
    t += "namespace Gen.ProfileExpr\nopen Profile\n\n"
    t += "/-- estimate_cardinality: guard of the exact branch (`len = len(self.kmv_hashes)`) -/\n"
    t += "def estimateExactGuard (len kvmSize : Nat) : Prop := %s\n" % v["guard"]
    t += "instance (len kvmSize : Nat) : Decidable (estimateExactGuard len kvmSize) := by unfold estimateExactGuard; infer_instance\n"
    t += "/-- estimate_cardinality: the argument of `int(...)` in the estimated branch (`kth = self.kmv_hashes[-1]`) -/\n"
    t += "def estimateFormula (kvmSize kth : Rat) : Rat := %s\n\n" % v["formula"]
    t += "/-- get_ordered_and_transitions: the test for a transition -/\n"
    t += "def orderNe {α : Type} [DecidableEq α] (lt : α → α → Bool) (value last : α) : Prop := %s\n" % v["ne"]
    t += "instance {α : Type} [DecidableEq α] (lt : α → α → Bool) (value last : α) : Decidable (orderNe lt value last) := by unfold orderNe; infer_instance\n"
    t += "/-- `transitions += 1` -/\n"
    t += "def transitionsNext (transitions : Nat) : Nat := %s\n" % v["inc"]
    t += "/-- value of `ordered` at the first transition -/\n"
    t += "def orderFirst {α : Type} (lt : α → α → Bool) (value last : α) : Int := %s\n" % v["first"]
    t += "/-- the test under which `ordered` becomes `orderFlipValue` -/\n"
    t += "def orderFlip {α : Type} (lt : α → α → Bool) (value last : α) (ordered : Int) : Prop := %s\n" % v["flip"]
    t += "instance {α : Type} (lt : α → α → Bool) (value last : α) (ordered : Int) : Decidable (orderFlip lt value last ordered) := by unfold orderFlip; infer_instance\n"
    t += "def orderFlipValue : Int := %s\n\n" % v["flip_value"]
    t += "/-- ColumnProfile.__add__: `new_profile.count += profile.count`, `new_profile.missing += profile.missing` -/\n"
    t += "def addCount (mine theirs : Nat) : Nat := %s\n" % v["count"]
    t += "def addMissing (mine theirs : Nat) : Nat := %s\n" % v["missing"]
    t += "/-- the four updates are top-level statements and nothing before the last of them returns or raises -/\n"
    t += "def addUpdatesStraightLine : Bool := %s\n" % b(sl)
    t += "/-- the minimum / maximum combination, and the test under which the result is replaced by None -/\n"
    t += "def addMinimum (mine theirs : Option Int) : EInt := %s\n" % mn[0]
    t += "def addMinimumAbsent (m : EInt) : Prop := %s\n" % mn[1]
    t += "instance (m : EInt) : Decidable (addMinimumAbsent m) := by unfold addMinimumAbsent; infer_instance\n"
    t += "def addMaximum (mine theirs : Option Int) : EInt := %s\n" % mx[0]
    t += "def addMaximumAbsent (m : EInt) : Prop := %s\n" % mx[1]
    t += "instance (m : EInt) : Decidable (addMaximumAbsent m) := by unfold addMaximumAbsent; infer_instance\n\n"
    t += "/-- string_to_int64: the clamp of the return statement -/\n"
    t += "def keyClamp (v maxInt64 : Int) : Int := %s\n" % v["clamp"]
    t += "/-- …whether the window is cut from the encoded bytes (else from the characters), its width, the width\nthe bytes are padded to (repaired shape) or the number of NULs appended before cutting (pinned shape), the pad byte, big endian -/\n"
    t += "def keySliceOnBytes : Bool := %s\n" % b(ks[0])
    t += "def keySliceWidth : Nat := %d\n" % ks[1]
    t += "def keyPadWidth : Nat := %d\n" % ks[2]
    t += "def keyPadByte : Nat := %d\n" % ks[3]
    t += "def keyBigEndian : Bool := %s\n\n" % b(ks[4] == "big")
    t += "/-- VarcharProfiler: the sketch is computed before the values are cut to `textCutWidth` characters -/\n"
    t += "def textHashBeforeCut : Bool := %s\n" % b(tc[0])
    t += "def textCutWidth : Nat := %d\n" % tc[1]
    t += "/-- …the cut keeps the first `textCutWidth` *characters* (`col[:W]`); true: the whole characters that fit `textCutWidth` UTF-8 *bytes* -/\n"
    t += "def textCutOnBytes : Bool := %s\n" % b(tcu == "bytes")
    t += "/-- where the reported extremes come from (`int(numpy.min(column_data))`, `string_to_int64(min(column_data))`) -/\n"
    t += "def numericMinimumSource : Source := .%s\n" % ns[0]
    t += "def numericMaximumSource : Source := .%s\n" % ns[1]
    t += "def textMinimumSource : Source := .%s\n" % ts[0]
    t += "def textMaximumSource : Source := .%s\n" % ts[1]
    t += "\n/-- get_kvm_hashes: what is de-duplicated before the smallest hashes are kept -/\n"
    t += "def sketchDedup : SketchDedup := .%s\n" % sd
    t += "/-- …the test under which a hash replaces the largest kept one (`hv` = hash_value, `top` = -min_hashes[0]) -/\n"
    t += "def sketchReplaceTest (hv top : Nat) : Prop := %s\n" % v["sk_replace"]
    t += "instance (hv top : Nat) : Decidable (sketchReplaceTest hv top) := by unfold sketchReplaceTest; infer_instance\n"
    t += "/-- …how many values seed the heap (`data[:size]`) and where the loop starts (`data[size:]`) -/\n"
    t += "def sketchInitCount (size : Nat) : Nat := %s\n" % v["sk_init"]
    t += "def sketchLoopFrom (size : Nat) : Nat := %s\n" % v["sk_from"]
    t += "/-- find_mfvs: the argument of `Counter(data).most_common(...)` -/\n"
    t += "def mfvTakeCount (topN : Nat) : Nat := %s\n" % v["mfv_take"]
    t += "\n/-- DataFrame.to_batches: `range(start, stop, step)` of the loop and the bounds of `self._rows[lo:hi]` -/\n"
    t += "def batchRangeStart : Nat := %s\n" % br[0]
    t += "def batchRangeStop (rowcount : Nat) : Nat := %s\n" % br[1]
    t += "def batchRangeStep (batchSize : Nat) : Nat := %s\n" % br[2]
    t += "def batchSliceLo (i batchSize : Nat) : Nat := %s\n" % bsl[0]
    t += "def batchSliceHi (i batchSize : Nat) : Nat := %s\n" % bsl[1]
    t += "\n/-- NumericProfiler: the filter of the histogram comprehension, the slice `bin_edges[lo : len - dropRight]` the\ncounts are zipped with, and whether the kept pair is `(left_edge, count)` -/\n"
    t += "def histKeep (count : Nat) : Prop := %s\n" % v["hist_keep"]
    t += "instance (count : Nat) : Decidable (histKeep count) := by unfold histKeep; infer_instance\n"
    t += "def histEdgesFrom : Nat := %d\n" % he[0]
    t += "def histEdgesDropRight : Nat := %d\n" % he[1]
    t += "def histKeepsCount : Bool := %s\n" % b(he[2])
    t += "\n/-- DataFrame.profile: the property calls TableProfile.from_dataframe(self) on every access (`@property` alone, no cache) -/\n"
    t += "def profileEntryRecomputes : Bool := %s\n" % b(er)
    t += "\n/-- ColumnProfile.__add__: `new_profile.transitions += profile.transitions + 1` and the update of `order` -/\n"
    t += "def addTransitions (mine theirs : Nat) : Nat := %s\n" % v["add_tr"]
    t += "def addOrder (mine theirs : Option Int) : Option Int := %s\n" % v["add_or"]
    t += "set_option linter.unusedVariables false in\n"
    t += ("/-- …which most-frequent list the sum gets when not both sides list values (`mineEmpty` / `theirsEmpty`: that side holds no "
          "value, `count == missing`; `mineLists` / `theirsLists`: its list is not empty) -/\n")
    t += "def addMfvOneSided (mineEmpty theirsEmpty mineLists theirsLists : Bool) : MfvPick := %s\n" % v["mfv_one_sided"]
    t += ("/-- ColumnProfile.__add__, the merge of the two sketches: duplicates of hashes are removed *before* the cut to `KVM_SIZE` "
          "(`sorted(set(a + b))[:KVM_SIZE]`) or after it -/\n")
    t += "def sumSketchOrder : SumSketchOrder := .%s\n" % sko
    t += "end Gen.ProfileExpr\n"
    if _force_pinned:
        del o.item  # back to the class method
        o.files["ProfileExpr.lean"] = t
        return
    # a translated expression that is well formed Python but ill typed Lean (say a comparison of unrelated
    # things) must degrade, not break the build: type-check the candidate when it differs from the file on disk
    path = os.path.join(GEN_DIR, "ProfileExpr.lean")
    old = open(path).read() if os.path.exists(path) else None
    if old != t:
        ok, why = _compiles(t)
        if not ok:
            generate(o, _force_pinned=True)
            return
    o.files["ProfileExpr.lean"] = t
