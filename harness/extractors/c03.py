"""C03: the window arithmetic of DataFrame.slice / head / tail, lifted from the AST into Lean terms.

Generated/FrameExpr.lean holds the *expressions* the source contains now (start clamp, stop, the
arguments head/tail pass to slice); Model/Frame.lean assembles them in a fixed skeleton, so the C03
theorems about windows are re-checked against the arithmetic in the code.
"""
import ast

from ..extract import HEADER, Src
from ..pyexpr import find_function, to_lean

PINNED = {
    "slice.neg_test": "(offset < 0)",
    "slice.neg_start": "(max (n + offset) 0)",
    "slice.stop": "(offset + length)",
    "slice.open_stop": True,
    "slice.zero_length_test": "(length = 0)",
    "head.offset": "0",
    "head.length": "size",
    "tail.offset": "(0 - size)",
    "tail.length": "size",
}


def generate(o):
    src = Src("orso/dataframe.py")
    env = {"len(self._rows)": "n", "offset": "offset", "length": "length", "size": "size"}

    def slice_fn():
        return find_function(src.tree, "slice", "DataFrame")

    def neg_test():
        fn = slice_fn()
        for st in fn.body:
            if isinstance(st, ast.If) and "offset" in ast.unparse(st.test) and "length" not in ast.unparse(st.test):
                return to_lean(st.test, env)
        raise KeyError("if offset < 0")

    def neg_start():
        fn = slice_fn()
        for st in fn.body:
            if isinstance(st, ast.If) and "offset" in ast.unparse(st.test) and "length" not in ast.unparse(st.test):
                if len(st.body) == 1 and isinstance(st.body[0], ast.Assign) and ast.unparse(st.body[0].targets[0]) == "offset" and not st.orelse:
                    return to_lean(st.body[0].value, env)
        raise KeyError("offset = ... under if offset < 0")

    def returns_slices():
        fn = slice_fn()
        out = []
        for n in ast.walk(fn):
            if isinstance(n, ast.Subscript) and ast.unparse(n.value) == "self._rows" and isinstance(n.slice, ast.Slice):
                out.append(n.slice)
        return out

    def stop():
        for sl in returns_slices():
            if sl.upper is not None:
                if ast.unparse(sl.lower) != "offset" or sl.step is not None:
                    raise KeyError("window lower bound is not `offset`")
                return to_lean(sl.upper, env)
        raise KeyError("rows[offset : stop]")

    def open_stop():
        for sl in returns_slices():
            if sl.upper is None and sl.lower is not None and ast.unparse(sl.lower) == "offset" and sl.step is None:
                return True
        raise KeyError("rows[offset:]")

    def zero_test():
        fn = slice_fn()
        for st in fn.body:
            if isinstance(st, ast.If) and ast.unparse(st.test).replace(" ", "") in ("length==0", "0==length"):
                ret = st.body[0]
                if isinstance(ret, ast.Return) and "rows=[]" in ast.unparse(ret.value).replace(" ", ""):
                    return to_lean(st.test, env)
        raise KeyError("if length == 0: return empty")

    def call_args(name):
        fn = find_function(src.tree, name, "DataFrame")
        ret = [s for s in fn.body if isinstance(s, ast.Return)][0].value
        if not (isinstance(ret, ast.Call) and ast.unparse(ret.func) == "self.slice"):
            raise KeyError(name + " does not return self.slice(...)")
        args = {"offset": None, "length": None}
        pos = ["offset", "length"]
        for i, a in enumerate(ret.args):
            args[pos[i]] = a
        for kw in ret.keywords:
            args[kw.arg] = kw.value
        if args["offset"] is None or args["length"] is None:
            raise KeyError(name + " arguments")
        return [to_lean(args["offset"], env), to_lean(args["length"], env)]

    v = {}
    v["slice.neg_test"] = o.item("frame.slice.neg_test", neg_test, PINNED["slice.neg_test"])
    v["slice.neg_start"] = o.item("frame.slice.neg_start", neg_start, PINNED["slice.neg_start"])
    v["slice.stop"] = o.item("frame.slice.stop", stop, PINNED["slice.stop"])
    o.item("frame.slice.open_stop", open_stop, True)
    v["slice.zero"] = o.item("frame.slice.zero_length_test", zero_test, PINNED["slice.zero_length_test"])
    h = o.item("frame.head.args", lambda: call_args("head"), [PINNED["head.offset"], PINNED["head.length"]])
    t = o.item("frame.tail.args", lambda: call_args("tail"), [PINNED["tail.offset"], PINNED["tail.length"]])
    text = HEADER + "namespace Gen.Frame\n"
    text += "/-- dataframe.py `slice`: the test under which the offset is counted from the end -/\n"
    text += "def sliceNegTest (offset : Int) : Prop := %s\n" % v["slice.neg_test"]
    text += "instance (offset : Int) : Decidable (sliceNegTest offset) := by unfold sliceNegTest; infer_instance\n"
    text += "/-- …and the start it is replaced by (`n = len(rows)`) -/\n"
    text += "def sliceNegStart (n offset : Int) : Int := %s\n" % v["slice.neg_start"]
    text += "/-- upper bound of the window `rows[offset : stop]` -/\n"
    text += "def sliceStop (offset length : Int) : Int := %s\n" % v["slice.stop"]
    text += "/-- the explicit empty-window test -/\n"
    text += "def sliceZeroTest (length : Int) : Prop := %s\n" % v["slice.zero"]
    text += "instance (length : Int) : Decidable (sliceZeroTest length) := by unfold sliceZeroTest; infer_instance\n"
    text += "/-- `head(size)` = `slice(headOffset, headLength size)` -/\n"
    text += "def headOffset (size : Int) : Int := %s\n" % h[0]
    text += "def headLength (size : Int) : Int := %s\n" % h[1]
    text += "/-- `tail(size)` = `slice(tailOffset size, tailLength size)` -/\n"
    text += "def tailOffset (size : Int) : Int := %s\n" % t[0]
    text += "def tailLength (size : Int) : Int := %s\n" % t[1]
    text += "end Gen.Frame\n"
    o.files["FrameExpr.lean"] = text
