"""C03: the window arithmetic of DataFrame.slice / head / tail, lifted from the AST into Lean terms.

Generated/FrameExpr.lean holds the *expressions* the source contains now (start clamp, stop, the
arguments head/tail pass to slice); Model/Frame.lean assembles them in a fixed skeleton, so the C03
theorems about windows are re-checked against the arithmetic in the code.
"""
import ast
import re

from ..extract import HEADER, Src, lean_str as json_str
from ..pyexpr import Untranslatable, find_function, to_lean

PINNED = {
    "slice.neg_test": "(offset < 0)",
    "slice.neg_start": "(max (n + offset) 0)",
    "slice.stop": "(offset + length)",
    "slice.open_stop": True,
    "slice.zero_length_test": "(length = 0)",
    "head.offset": "0",
    "head.length": "size",
    "tail.offset": "(0 - size)",
    "tail.length": "size",
    # round 2
    "schema.iter": "(cols.map (fun col_v => col_v.1))",
    "select.header": "(attributes.filter (fun attribute_v => decide ((attribute_v ∈ column_names))))",
    "select.indices": "(new_header.filterMap (fun attribute_v => (pyIndex column_names attribute_v)))",
    "select.project": "(attribute_indices.filterMap (fun indice_v => tup[indice_v]?))",
    "collect.neg_test": "(limit < 0)",
    "collect.all_value": "(-1)",
    "collect.trunc_test": "((limit ≥ 0) ∧ (limit < num_rows))",
    "batches.range": ["0", "n", "batch_size"],
    "batches.window": ["i", "(i + batch_size)"],
    "take.test": "(i ∈ indexes)",
    # pass 4
    "select.reads_late": True,
    "collect.clamp": ["(limit ≥ n)", "(-1)"],
    "collect.limit_bits": 32,
    # pass 5
    "distinct.keys": [True, True],
}

# C integer types a `limit` parameter of collect_cython may be declared with -> width in bits
C_INT_BITS = {"int": 32, "int32_t": 32, "long": 64, "long long": 64, "int64_t": 64, "Py_ssize_t": 64, "ssize_t": 64}

# methods of DataFrame and whether they call self.materialize() before they first touch self._rows
MATERIALISES = {"slice": True, "row": True, "__len__": True, "rowcount": True, "__iter__": True, "__add__": True,
                "collect": True, "to_batches": True, "__hash__": True, "query": False, "distinct": False, "filter": False,
                "take": False, "select": False}


# ----------------------------------------------------------------------------- pass 6: the caller's argument object

ARG_KINDS = ("bare", "list", "set", "tuple")  # what the caller may pass for a sequence argument (0..3 in the generated table)
ARG_PARAMS = {"collect": "columns", "select": "attributes", "filter": "mask", "take": "indexes"}
MUTATORS = ("append", "extend", "insert", "pop", "remove", "clear", "sort", "reverse", "add", "discard", "update", "fill", "put", "resize",
            "__setitem__", "__delitem__", "difference_update", "intersection_update", "symmetric_difference_update")
FRESH_CALLS = ("list", "sorted", "tuple", "set", "frozenset", "numpy.array", "numpy.asarray", "reversed")
PINNED_ARG_WRITES = {op: [False] * len(ARG_KINDS) for op in ARG_PARAMS}


def own_path_kinds(fn, param):
    """The classes of object for which the method returns on a path of its own: every `if` of the method that holds a
    `return` before the common one and whose test asks for the class of the argument - `isinstance(<param>, K)`,
    `type(<param>) is K` - by the classes named.  `if isinstance(param, K): param = f(param)` (a conversion, then the
    common path) is not a path of its own; an early return whose test does not look at the argument (it splits on the
    frame: `if isinstance(self._rows, list): return …`) is not a dispatch on the kind of container either: the harness
    decides there.  A test that reads the argument in another way (`if not indexes: return …`) is not understood:
    degrade."""
    if not (fn.body and isinstance(fn.body[-1], ast.Return)):
        raise KeyError("the method ends in its one common return")
    kinds = []
    for st in fn.body[:-1]:
        for node in ast.walk(st):
            if isinstance(node, (ast.FunctionDef, ast.Lambda)):
                raise KeyError("nested function")  # (returns of an inner function are not returns of the method)
        for node in ast.walk(st):
            if not (isinstance(node, ast.If) and any(isinstance(x, ast.Return) for b in node.body + node.orelse for x in ast.walk(b))):
                continue
            if not any(isinstance(x, ast.Name) and x.id == param for x in ast.walk(node.test)):
                continue
            named = []
            for c in ast.walk(node.test):
                if (isinstance(c, ast.Call) and ast.unparse(c.func) == "isinstance" and len(c.args) == 2
                        and ast.unparse(c.args[0]) == param):
                    k = c.args[1]
                    named += [ast.unparse(e) for e in (k.elts if isinstance(k, ast.Tuple) else [k])]
                if (isinstance(c, ast.Compare) and ast.unparse(c.left) == "type(%s)" % param and len(c.ops) == 1
                        and isinstance(c.ops[0], (ast.Is, ast.Eq, ast.In))):
                    k = c.comparators[0]
                    named += [ast.unparse(e) for e in (k.elts if isinstance(k, (ast.Tuple, ast.List, ast.Set)) else [k])]
            if not named:
                raise KeyError("an early return under a test of the argument that names no class")
            kinds += named
    return sorted(set(kinds))


def arg_written(fn, param):
    """For each kind of argument object: does the method write into the object the caller passed?  The statements of
    the method are walked in order; `param` starts bound to the caller's object; `if [not] isinstance(param, (...))`
    chains are decided per kind; `param = [param]` / `param = list(param)` / a comprehension re-binds it to a new
    object; `x = param` makes an alias; a subscript assignment / deletion / augmented assignment through the name or
    an alias, or a mutating method called on one, is a write.  Anything else that assigns the name degrades."""
    kinds = list(ARG_KINDS)
    caller = {k: True for k in kinds}      # is `param` still the caller's object?
    alias = {}                             # other name -> {kind: is it the caller's object?}
    written = {k: False for k in kinds}

    def isinstance_test(t, kind):
        if isinstance(t, ast.UnaryOp) and isinstance(t.op, ast.Not):
            r = isinstance_test(t.operand, kind)
            return None if r is None else (not r)
        if isinstance(t, ast.Call) and ast.unparse(t.func) == "isinstance" and len(t.args) == 2 and ast.unparse(t.args[0]) == param:
            names = [ast.unparse(e) for e in t.args[1].elts] if isinstance(t.args[1], ast.Tuple) else [ast.unparse(t.args[1])]
            if not all(n in ("list", "set", "tuple", "frozenset", "str", "int") for n in names):
                raise KeyError("isinstance against " + ", ".join(names))
            return kind in names
        return None

    def fresh(value):
        if isinstance(value, (ast.List, ast.ListComp, ast.Tuple, ast.SetComp, ast.Set)):
            return True
        if isinstance(value, ast.Call) and ast.unparse(value.func) in FRESH_CALLS:
            return True
        return False

    def writes_in(node, ks):
        for n in ast.walk(node):
            targets = []
            if isinstance(n, ast.Assign):
                targets = n.targets
            elif isinstance(n, (ast.AugAssign, ast.AnnAssign)):
                targets = [n.target]
            elif isinstance(n, ast.Delete):
                targets = n.targets
            hit = []
            for t in targets:
                if isinstance(n, ast.AugAssign) and isinstance(t, ast.Name):
                    hit.append(t.id)  # `x += [...]` extends a list in place
                for sub in ast.walk(t):
                    if isinstance(sub, ast.Subscript) and isinstance(sub.value, ast.Name):
                        hit.append(sub.value.id)
            if isinstance(n, ast.Call) and isinstance(n.func, ast.Attribute) and n.func.attr in MUTATORS and isinstance(n.func.value, ast.Name):
                hit.append(n.func.value.id)
            for name in hit:
                for k in ks:
                    if (name == param and caller[k]) or (name in alias and alias[name][k]):
                        written[k] = True

    def run(stmts, ks):
        for st in stmts:
            if isinstance(st, ast.If):
                verdicts = {k: isinstance_test(st.test, k) for k in ks}
                if all(v is not None for v in verdicts.values()):
                    run(st.body, [k for k in ks if verdicts[k]])
                    run(st.orelse, [k for k in ks if not verdicts[k]])
                    continue
            if isinstance(st, ast.Assign) and len(st.targets) == 1 and isinstance(st.targets[0], ast.Name):
                tgt, val = st.targets[0].id, st.value
                if tgt == param:
                    if fresh(val):
                        writes_in(val, ks)
                        for k in ks:
                            caller[k] = False
                        continue
                    raise KeyError("`%s` is assigned something that is neither a new list nor a copy" % param)
                if isinstance(val, ast.Name) and (val.id == param or val.id in alias):
                    src_ = caller if val.id == param else alias[val.id]
                    alias.setdefault(tgt, {k: False for k in kinds})
                    for k in ks:
                        alias[tgt][k] = src_[k]
                    continue
                if tgt in alias:
                    for k in ks:
                        alias[tgt][k] = False
            for n in ast.walk(st):
                if n is not st and isinstance(n, (ast.Assign, ast.AugAssign, ast.NamedExpr)):
                    tg = n.targets if isinstance(n, ast.Assign) else [n.target]
                    if any(isinstance(t, ast.Name) and t.id == param for t in tg):
                        raise KeyError("`%s` is re-bound inside a nested statement" % param)
            writes_in(st, ks)

    if param not in [a.arg for a in fn.args.args]:
        raise KeyError("parameter " + param)
    run(fn.body, kinds)
    return [bool(written[k]) for k in kinds]



# ----------------------------------------------------------------------------- comprehensions -> Lean list terms


def comp_to_lean(node, env, inline=None, attrs=None):
    """List-valued Python expressions -> Lean `List` terms.

    Supported: names/attributes through `env`; `iter(X)`, `list(X)`, `tuple(X)` (identity on listings);
    `[E for x in L if C ...]` / generator expressions with one `for` over a plain name -> filter / map /
    filterMap; `a in L`, `a not in L`; `L.index(a)` (partial: `pyIndex`), `t[i]` (partial: `t[i]?`);
    `a + b` on lists -> `++`; `[a]`; `self.m()` / `self.p` inlined through `inline(name)` when the method is
    a single `return` (or the `def _inner(): for x in L: yield from E` / `return list(_inner())` shape);
    `x.attr` on a comprehension variable through `attrs` (templates with `$` for the variable).
    """
    attrs = attrs or {}

    def partial(n):
        return any(isinstance(x, ast.Subscript) or (isinstance(x, ast.Call) and isinstance(x.func, ast.Attribute) and x.func.attr == "index")
                   for x in ast.walk(n))

    def cond(n, env):
        if isinstance(n, ast.Compare) and len(n.ops) == 1 and isinstance(n.ops[0], (ast.In, ast.NotIn)):
            a, b = go(n.left, env), go(n.comparators[0], env)
            return "(%s %s %s)" % (a, "∈" if isinstance(n.ops[0], ast.In) else "∉", b)
        if isinstance(n, ast.BoolOp):
            return "(" + (" ∧ " if isinstance(n.op, ast.And) else " ∨ ").join(cond(v, env) for v in n.values) + ")"
        if isinstance(n, ast.UnaryOp) and isinstance(n.op, ast.Not):
            return "(¬ %s)" % cond(n.operand, env)
        if not isinstance(n, ast.Compare):
            # Python truthiness of a value that is no comparison (`if col.name`): no proposition to translate to
            raise Untranslatable("truthiness of %s" % ast.unparse(n))
        return to_lean(n, env)

    def elem(n, env):
        """Element expression; partial operations give an `Option`."""
        if isinstance(n, ast.Call) and isinstance(n.func, ast.Attribute) and n.func.attr == "index" and len(n.args) == 1 and not n.keywords:
            return "(pyIndex %s %s)" % (go(n.func.value, env), go(n.args[0], env))
        if isinstance(n, ast.Subscript) and not isinstance(n.slice, ast.Slice):
            return "%s[%s]?" % (go(n.value, env), go(n.slice, env))
        raise Untranslatable("partial element %s" % ast.unparse(n))

    def go(n, env):
        key = ast.unparse(n)
        if key in env:
            return env[key]
        if isinstance(n, ast.Call) and isinstance(n.func, ast.Name) and n.func.id in ("iter", "list", "tuple") and len(n.args) == 1 and not n.keywords:
            return go(n.args[0], env)
        if isinstance(n, (ast.ListComp, ast.GeneratorExp)):
            if len(n.generators) != 1 or not isinstance(n.generators[0].target, ast.Name) or n.generators[0].is_async:
                raise Untranslatable("comprehension shape")
            g = n.generators[0]
            x = g.target.id
            src = go(g.iter, env)
            env2 = dict(env)
            for k in [k for k in env2 if re.search(r"\b%s\b" % re.escape(x), k)]:
                del env2[k]
            lx = x + "_v"  # never a Lean keyword (`attribute` is one)
            env2[x] = lx
            for a, tpl in attrs.items():
                env2["%s.%s" % (x, a)] = tpl.replace("$", lx)
            out = src
            if g.ifs:
                cs = [cond(c, env2) for c in g.ifs]
                out = "(%s.filter (fun %s => decide (%s)))" % (out, lx, cs[0] if len(cs) == 1 else "(" + " ∧ ".join(cs) + ")")
            if isinstance(n.elt, ast.Name) and n.elt.id == x:
                return out
            if partial(n.elt):
                return "(%s.filterMap (fun %s => %s))" % (out, lx, elem(n.elt, env2))
            return "(%s.map (fun %s => %s))" % (out, lx, go(n.elt, env2))
        if isinstance(n, ast.BinOp) and isinstance(n.op, ast.Add):
            return "(%s ++ %s)" % (go(n.left, env), go(n.right, env))
        if isinstance(n, ast.List):
            return "[" + ", ".join(go(e, env) for e in n.elts) + "]"
        if inline is not None:
            if isinstance(n, ast.Call) and isinstance(n.func, ast.Attribute) and ast.unparse(n.func.value) == "self" and not n.args and not n.keywords:
                return inline(n.func.attr, go, env)
            if isinstance(n, ast.Attribute) and ast.unparse(n.value) == "self":
                return inline(n.attr, go, env)
        raise Untranslatable("%s: %s" % (type(n).__name__, key))

    return go(node, env)


def body_wo_doc(fn):
    b = list(fn.body)
    if b and isinstance(b[0], ast.Expr) and isinstance(b[0].value, ast.Constant) and isinstance(b[0].value.value, str):
        b = b[1:]
    return b


def calls_materialize_first(fn, who="self"):
    """True: `<who>.materialize()` is a top-level statement before the first statement that mentions `<who>._rows`;
    False: `<who>._rows` is used and `materialize` never called; anything else: KeyError (degrade)."""
    for st in body_wo_doc(fn):
        txt = ast.unparse(st)
        if isinstance(st, ast.Expr) and txt == "%s.materialize()" % who:
            return True
        if "%s._rows" % who in txt or "%s.materialize" % who in txt:
            if "%s.materialize" % who in txt:
                raise KeyError("materialize() is not a plain first statement")
            return False
        if "%s.rowcount" % who in txt or "len(%s)" % who in txt:
            raise KeyError("rows reached through another method first")
    raise KeyError("method does not touch _rows")


def generate(o):
    src = Src("orso/dataframe.py")
    env = {"len(self._rows)": "n", "offset": "offset", "length": "length", "size": "size"}

    def slice_fn():
        return find_function(src.tree, "slice", "DataFrame")

    def neg_test():
        fn = slice_fn()
        for st in fn.body:
            if isinstance(st, ast.If) and "offset" in ast.unparse(st.test) and "length" not in ast.unparse(st.test):
                return to_lean(st.test, env)
        raise KeyError("if offset < 0")

    def neg_start():
        fn = slice_fn()
        for st in fn.body:
            if isinstance(st, ast.If) and "offset" in ast.unparse(st.test) and "length" not in ast.unparse(st.test):
                if len(st.body) == 1 and isinstance(st.body[0], ast.Assign) and ast.unparse(st.body[0].targets[0]) == "offset" and not st.orelse:
                    return to_lean(st.body[0].value, env)
        raise KeyError("offset = ... under if offset < 0")

    def returns_slices():
        fn = slice_fn()
        out = []
        for n in ast.walk(fn):
            if isinstance(n, ast.Subscript) and ast.unparse(n.value) == "self._rows" and isinstance(n.slice, ast.Slice):
                out.append(n.slice)
        return out

    def stop():
        for sl in returns_slices():
            if sl.upper is not None:
                if ast.unparse(sl.lower) != "offset" or sl.step is not None:
                    raise KeyError("window lower bound is not `offset`")
                return to_lean(sl.upper, env)
        raise KeyError("rows[offset : stop]")

    def open_stop():
        for sl in returns_slices():
            if sl.upper is None and sl.lower is not None and ast.unparse(sl.lower) == "offset" and sl.step is None:
                return True
        raise KeyError("rows[offset:]")

    def zero_test():
        fn = slice_fn()
        for st in fn.body:
            if isinstance(st, ast.If) and ast.unparse(st.test).replace(" ", "") in ("length==0", "0==length"):
                ret = st.body[0]
                if isinstance(ret, ast.Return) and "rows=[]" in ast.unparse(ret.value).replace(" ", ""):
                    return to_lean(st.test, env)
        raise KeyError("if length == 0: return empty")

    def call_args(name):
        fn = find_function(src.tree, name, "DataFrame")
        ret = [s for s in fn.body if isinstance(s, ast.Return)][0].value
        if not (isinstance(ret, ast.Call) and ast.unparse(ret.func) == "self.slice"):
            raise KeyError(name + " does not return self.slice(...)")
        args = {"offset": None, "length": None}
        pos = ["offset", "length"]
        for i, a in enumerate(ret.args):
            args[pos[i]] = a
        for kw in ret.keywords:
            args[kw.arg] = kw.value
        if args["offset"] is None or args["length"] is None:
            raise KeyError(name + " arguments")
        return [to_lean(args["offset"], env), to_lean(args["length"], env)]

    v = {}
    v["slice.neg_test"] = o.item("frame.slice.neg_test", neg_test, PINNED["slice.neg_test"])
    v["slice.neg_start"] = o.item("frame.slice.neg_start", neg_start, PINNED["slice.neg_start"])
    v["slice.stop"] = o.item("frame.slice.stop", stop, PINNED["slice.stop"])
    o.item("frame.slice.open_stop", open_stop, True)
    v["slice.zero"] = o.item("frame.slice.zero_length_test", zero_test, PINNED["slice.zero_length_test"])
    h = o.item("frame.head.args", lambda: call_args("head"), [PINNED["head.offset"], PINNED["head.length"]])
    t = o.item("frame.tail.args", lambda: call_args("tail"), [PINNED["tail.offset"], PINNED["tail.length"]])
    # ------------------------------------------------------------------ round 2: schema iteration, select, laziness, limits, batches
    ssrc = Src("orso/schema.py")
    col_attrs = {"name": "$.1", "aliases": "$.2", "all_names": "($.2 ++ [$.1])"}

    def schema_inline(name, go, env_):
        fn = find_function(ssrc.tree, name, "RelationSchema")
        b = body_wo_doc(fn)
        if len(b) == 1 and isinstance(b[0], ast.Return) and b[0].value is not None:
            return go(b[0].value, env_)
        if (len(b) == 2 and isinstance(b[0], ast.FunctionDef) and isinstance(b[1], ast.Return)
                and ast.unparse(b[1].value) in ("list(%s())" % b[0].name, "%s()" % b[0].name)):
            inner = body_wo_doc(b[0])
            if len(inner) == 1 and isinstance(inner[0], ast.For) and isinstance(inner[0].target, ast.Name) and not inner[0].orelse \
                    and len(inner[0].body) == 1 and isinstance(inner[0].body[0], ast.Expr):
                y = inner[0].body[0].value
                comp = lambda elt: ast.ListComp(elt=elt, generators=[ast.comprehension(target=inner[0].target, iter=inner[0].iter, ifs=[], is_async=0)])
                if isinstance(y, ast.YieldFrom):
                    return "(%s).flatten" % go(comp(y.value), env_)
                if isinstance(y, ast.Yield) and y.value is not None:
                    return go(comp(y.value), env_)
        raise Untranslatable("RelationSchema.%s" % name)

    def schema_iter():
        fn = find_function(ssrc.tree, "__iter__", "RelationSchema")
        b = body_wo_doc(fn)
        if len(b) != 1 or not isinstance(b[0], ast.Return):
            raise KeyError("RelationSchema.__iter__ is not a single return")
        return comp_to_lean(b[0].value, {"self.columns": "cols"}, inline=schema_inline, attrs=col_attrs)

    def select_fn():
        return find_function(src.tree, "select", "DataFrame")

    def select_assign(target):
        for st in select_fn().body:
            if isinstance(st, ast.Assign) and len(st.targets) == 1 and ast.unparse(st.targets[0]) == target:
                return st.value
        raise KeyError(target + " = ...")

    def select_column_names():
        v = ast.unparse(select_assign("column_names")).replace(" ", "")
        if v != "list(self._schema)":
            raise KeyError("column_names = list(self._schema)")
        return True

    def select_header():
        return comp_to_lean(select_assign("new_header"), {"attributes": "attributes", "column_names": "column_names"})

    def select_indices():
        return comp_to_lean(select_assign("attribute_indices"), {"column_names": "column_names", "new_header": "new_header"})

    def select_project():
        inner = [st for st in select_fn().body if isinstance(st, ast.FunctionDef)]
        if len(inner) != 1:
            raise KeyError("inner projection generator")
        b = body_wo_doc(inner[0])
        if not (len(b) == 1 and isinstance(b[0], ast.For) and ast.unparse(b[0].iter) == "self._rows" and isinstance(b[0].target, ast.Name)
                and len(b[0].body) == 1 and isinstance(b[0].body[0], ast.Expr) and isinstance(b[0].body[0].value, ast.Yield)):
            raise KeyError("for tup in self._rows: yield ...")
        tup = b[0].target.id
        y = b[0].body[0].value.value
        if isinstance(y, ast.Call) and isinstance(y.func, ast.Name) and y.func.id == "tuple" and len(y.args) == 1:
            y = y.args[0]
        ret = [st for st in select_fn().body if isinstance(st, ast.Return)][-1].value
        kws = {k.arg: ast.unparse(k.value) for k in ret.keywords} if isinstance(ret, ast.Call) else {}
        if kws.get("schema") != "new_header" or kws.get("rows") != inner[0].name + "()":
            raise KeyError("DataFrame(rows=<inner>(), schema=new_header)")
        return comp_to_lean(y, {tup: "tup", "attribute_indices": "attribute_indices"})

    def select_reads_late():
        """True: the projection generator iterates `self._rows` (looked up when the selection is first read);
        False: it iterates a local name bound to (a copy of) `self._rows` when `select` is called."""
        inner = [st for st in select_fn().body if isinstance(st, ast.FunctionDef)]
        if len(inner) != 1:
            raise KeyError("inner projection generator")
        loops = [st for st in body_wo_doc(inner[0]) if isinstance(st, ast.For)]
        if len(loops) != 1:
            raise KeyError("one loop in the projection generator")
        over = ast.unparse(loops[0].iter)
        if over == "self._rows":
            return True
        if isinstance(loops[0].iter, ast.Name):
            for st in select_fn().body:
                if isinstance(st, ast.Assign) and len(st.targets) == 1 and ast.unparse(st.targets[0]) == over \
                        and "self._rows" in ast.unparse(st.value):
                    return False
        raise KeyError("what the projection generator iterates")

    def collect_clamp():
        """The Python-level clamp between the name resolution and the call of collect_cython:
        `if <test on limit and the row count>: limit = <value>`; [False, ...] when `limit` reaches the
        compiled function without one."""
        fn = find_function(src.tree, "collect", "DataFrame")
        e = {"limit": "limit", "len(self._rows)": "n", "self.rowcount": "n", "len(self)": "n"}
        found = None
        seen_norm = False
        for st in fn.body:
            assigns = [n for n in ast.walk(st) if (isinstance(n, ast.Assign) and any(ast.unparse(t) == "limit" for t in n.targets))
                       or (isinstance(n, (ast.AugAssign, ast.AnnAssign)) and ast.unparse(n.target) == "limit")
                       or (isinstance(n, ast.NamedExpr) and n.target.id == "limit")]
            if not assigns:
                continue
            if not (isinstance(st, ast.If) and not st.orelse and len(st.body) == 1 and assigns == [st.body[0]]):
                raise KeyError("limit is assigned outside an `if <test>: limit = <value>`")
            if isinstance(st.test, ast.BoolOp) and ast.unparse(st.test.values[0]) == "limit is None" and not seen_norm:
                seen_norm = True
                continue
            if found is not None:
                raise KeyError("more than one clamp")
            found = [to_lean(st.test, e), to_lean(st.body[0].value, {})]
        calls = [n for n in ast.walk(fn) if isinstance(n, ast.Call) and ast.unparse(n.func) == "collect_cython"]
        if len(calls) != 1 or len(calls[0].args) != 3 or ast.unparse(calls[0].args[2]) != "limit":
            raise KeyError("collect_cython(rows, columns, limit)")
        return found or ["False", "(-1)"]

    def collect_limit_bits():
        px = Src("orso/compute/compiled.pyx").text
        m = re.search(r"collect_cython\(([^)]*)\)", px)
        if not m:
            raise KeyError("signature of collect_cython")
        for prm in m.group(1).split(","):
            prm = prm.split("=")[0].strip()
            parts = prm.split()
            if parts and parts[-1] == "limit":
                ty = " ".join(parts[:-1])
                if ty in C_INT_BITS:
                    return C_INT_BITS[ty]
                raise KeyError("C type of limit: %r" % ty)
        raise KeyError("limit parameter")

    def mat(name, who="self"):
        return lambda: calls_materialize_first(find_function(src.tree, name, "DataFrame"), who)

    def iter_shape():
        fn = find_function(src.tree, "__iter__", "DataFrame")
        b = body_wo_doc(fn)
        if [ast.unparse(x) for x in b] == ["self.materialize()", "return iter(self._rows)"]:
            return True
        if [ast.unparse(x) for x in b] == ["return iter(self._rows)"]:
            return False
        raise KeyError("__iter__ shape")

    def collect_limit():
        fn = find_function(src.tree, "collect", "DataFrame")
        for st in fn.body:
            if isinstance(st, ast.If) and not st.orelse and len(st.body) == 1 and isinstance(st.body[0], ast.Assign) \
                    and ast.unparse(st.body[0].targets[0]) == "limit":
                t = st.test
                if isinstance(t, ast.BoolOp) and isinstance(t.op, ast.Or) and len(t.values) == 2 \
                        and ast.unparse(t.values[0]) == "limit is None":
                    return [to_lean(t.values[1], {"limit": "limit"}), to_lean(st.body[0].value, {})]
        raise KeyError("if limit is None or <test>: limit = <all>")

    def collect_trunc():
        px = Src("orso/compute/compiled.pyx").text
        i = px.index("collect_cython(")
        m = re.search(r"\n[ \t]*if ([^\n:]*limit[^\n:]*):[ \t]*\n[ \t]*num_rows = limit[ \t]*\n", px[i:i + 4000])
        if not m:
            raise KeyError("if <limit test>: num_rows = limit")
        return to_lean(m.group(1), {"limit": "limit", "num_rows": "num_rows"})

    def batches_parts():
        fn = find_function(src.tree, "to_batches", "DataFrame")
        loops = [st for st in fn.body if isinstance(st, ast.For)]
        if len(loops) != 1 or not isinstance(loops[0].target, ast.Name):
            raise KeyError("for i in range(...)")
        lp = loops[0]
        i_ = lp.target.id
        if not (isinstance(lp.iter, ast.Call) and ast.unparse(lp.iter.func) == "range" and len(lp.iter.args) == 3):
            raise KeyError("range(start, stop, step)")
        e = {"self.rowcount": "n", "len(self._rows)": "n", "len(self)": "n", "batch_size": "batch_size"}
        rng = [to_lean(a, e) for a in lp.iter.args]
        subs = [n for n in ast.walk(lp) if isinstance(n, ast.Subscript) and ast.unparse(n.value) == "self._rows" and isinstance(n.slice, ast.Slice)]
        if len(subs) != 1 or subs[0].slice.step is not None or subs[0].slice.lower is None or subs[0].slice.upper is None:
            raise KeyError("self._rows[lo:hi]")
        if not (len(lp.body) == 1 and isinstance(lp.body[0], ast.Expr) and isinstance(lp.body[0].value, ast.Yield)):
            raise KeyError("loop body is one yield")
        e2 = dict(e)
        e2[i_] = "i"
        return [rng, [to_lean(subs[0].slice.lower, e2), to_lean(subs[0].slice.upper, e2)]]

    def take_test():
        fn = find_function(src.tree, "take", "DataFrame")
        gens = [n for n in ast.walk(fn) if isinstance(n, ast.GeneratorExp)]
        if len(gens) != 1 or len(gens[0].generators) != 1:
            raise KeyError("one generator expression")
        g = gens[0].generators[0]
        over = ast.unparse(g.iter)
        if isinstance(g.iter, ast.Call) and ast.unparse(g.iter.func) == "enumerate" and len(g.iter.args) == 1 and isinstance(g.iter.args[0], ast.Name):
            # `rows = <snapshot of self._rows>` then `enumerate(rows)`: the same rows, numbered the same way
            nm = g.iter.args[0].id
            if any(isinstance(n, ast.Assign) and len(n.targets) == 1 and ast.unparse(n.targets[0]) == nm and "self._rows" in ast.unparse(n.value)
                   for n in ast.walk(fn)):
                over = "enumerate(self._rows)"
        if not (isinstance(g.target, ast.Tuple) and len(g.target.elts) == 2 and over == "enumerate(self._rows)"
                and ast.unparse(gens[0].elt) == ast.unparse(g.target.elts[1]) and len(g.ifs) == 1):
            raise KeyError("(m for i, m in enumerate(self._rows) if <test>)")
        c = g.ifs[0]
        i_ = ast.unparse(g.target.elts[0])
        if not (isinstance(c, ast.Compare) and len(c.ops) == 1 and isinstance(c.ops[0], ast.In) and ast.unparse(c.left) == i_
                and ast.unparse(c.comparators[0]) == "indexes"):
            raise KeyError("i in indexes")
        return "(i ∈ indexes)"

    v["schema.iter"] = o.item("frame.schema.iter", schema_iter, PINNED["schema.iter"])
    o.item("frame.select.column_names_is_list_of_schema", select_column_names, True)
    v["select.header"] = o.item("frame.select.header", select_header, PINNED["select.header"])
    v["select.indices"] = o.item("frame.select.indices", select_indices, PINNED["select.indices"])
    v["select.project"] = o.item("frame.select.project", select_project, PINNED["select.project"])
    mats = {}
    for name, pinned in MATERIALISES.items():
        if name == "__iter__":
            mats[name] = o.item("frame.materialises.__iter__", iter_shape, True)
        else:
            mats[name] = o.item("frame.materialises." + name, mat(name), pinned)
    mats["__add__.other"] = o.item("frame.materialises.__add__.other", mat("__add__", "the_other"), True)
    cl = o.item("frame.collect.limit", collect_limit, [PINNED["collect.neg_test"], PINNED["collect.all_value"]])
    ct = o.item("frame.collect.trunc_test", collect_trunc, PINNED["collect.trunc_test"])
    bp = o.item("frame.batches.parts", batches_parts, [PINNED["batches.range"], PINNED["batches.window"]])
    tt = o.item("frame.take.test", take_test, PINNED["take.test"])
    def distinct_keys():
        """[what the seen-set is asked for / given is the row itself, the same for the by-value list of the rows that
        cannot be hashed] - from the loop of `distinct`:
            for x in self._rows:
                try:
                    if <k> in seen: continue
                    seen.add(<k>)
                except TypeError:
                    if <k'> in seen_unhashable: continue
                    seen_unhashable.append(<k'>)
                unique_rows.append(x)
        Any other shape (a nested try, a helper, a comprehension) degrades."""
        fn = find_function(src.tree, "distinct", "DataFrame")
        loops = [n for n in fn.body if isinstance(n, ast.For)]
        if len(loops) != 1 or ast.unparse(loops[0].iter) != "self._rows" or not isinstance(loops[0].target, ast.Name):
            raise KeyError("for x in self._rows")
        x = loops[0].target.id
        body = loops[0].body
        if not (len(body) == 2 and isinstance(body[0], ast.Try) and len(body[0].handlers) == 1 and not body[0].orelse and not body[0].finalbody
                and isinstance(body[1], ast.Expr) and isinstance(body[1].value, ast.Call) and len(body[1].value.args) == 1
                and ast.unparse(body[1].value.func).endswith(".append") and ast.unparse(body[1].value.args[0]) == x):
            raise KeyError("try / except TypeError, then <kept>.append(x)")
        if ast.unparse(body[0].handlers[0].type or ast.Name("")) != "TypeError":
            raise KeyError("except TypeError")

        def pair(stmts, adder):
            if not (len(stmts) == 2 and isinstance(stmts[0], ast.If) and not stmts[0].orelse and len(stmts[0].body) == 1
                    and isinstance(stmts[0].body[0], ast.Continue) and isinstance(stmts[0].test, ast.Compare)
                    and len(stmts[0].test.ops) == 1 and isinstance(stmts[0].test.ops[0], ast.In)
                    and isinstance(stmts[1], ast.Expr) and isinstance(stmts[1].value, ast.Call) and len(stmts[1].value.args) == 1
                    and not stmts[1].value.keywords):
                raise KeyError("if <k> in <seen>: continue; <seen>.%s(<k>)" % adder)
            coll = ast.unparse(stmts[0].test.comparators[0])
            if ast.unparse(stmts[1].value.func) != coll + "." + adder:
                raise KeyError("the collection looked up is the one added to")
            return ast.unparse(stmts[0].test.left) == x and ast.unparse(stmts[1].value.args[0]) == x

        return [pair(body[0].body, "add"), pair(body[0].handlers[0].body, "append")]

    dk = o.item("frame.distinct.keys", distinct_keys, PINNED["distinct.keys"])
    srl = o.item("frame.select.reads_late", select_reads_late, PINNED["select.reads_late"])
    cc = o.item("frame.collect.clamp", collect_clamp, PINNED["collect.clamp"])
    cb = o.item("frame.collect.limit_bits", collect_limit_bits, PINNED["collect.limit_bits"])
    aw = {}
    for _op, _param in ARG_PARAMS.items():
        aw[_op] = o.item("frame.argument_written." + _op, (lambda _op=_op, _param=_param: arg_written(find_function(src.tree, _op, "DataFrame"), _param)),
                         PINNED_ARG_WRITES[_op])
    # pass 7: the kinds of argument object a method treats on a path of its own
    opk = {}
    for _op in ("filter", "take"):
        opk[_op] = o.item("frame.own_path_kinds." + _op, (lambda _op=_op: own_path_kinds(find_function(src.tree, _op, "DataFrame"), ARG_PARAMS[_op])), [])
    # is every definition the hand-written reference one? (then a model/mirror difference can only be a harness fault)
    as_pinned = (v["slice.neg_test"] == PINNED["slice.neg_test"] and v["slice.neg_start"] == PINNED["slice.neg_start"]
                 and v["slice.stop"] == PINNED["slice.stop"] and v["slice.zero"] == PINNED["slice.zero_length_test"]
                 and h == [PINNED["head.offset"], PINNED["head.length"]] and t == [PINNED["tail.offset"], PINNED["tail.length"]]
                 and v["schema.iter"] == PINNED["schema.iter"] and v["select.header"] == PINNED["select.header"]
                 and v["select.indices"] == PINNED["select.indices"] and v["select.project"] == PINNED["select.project"]
                 and all(mats[k] == MATERIALISES.get(k, True) for k in mats)
                 and cl == [PINNED["collect.neg_test"], PINNED["collect.all_value"]] and ct == PINNED["collect.trunc_test"]
                 and bp == [PINNED["batches.range"], PINNED["batches.window"]] and tt == PINNED["take.test"]
                 and srl == PINNED["select.reads_late"] and cc == PINNED["collect.clamp"] and cb == PINNED["collect.limit_bits"]
                 and dk == PINNED["distinct.keys"])
    o.json["frame.source_as_pinned"] = bool(as_pinned)
    text = HEADER + "set_option linter.unusedVariables false\nnamespace Gen.Frame\n"
    text += "/-- dataframe.py `slice`: the test under which the offset is counted from the end -/\n"
    text += "def sliceNegTest (offset : Int) : Prop := %s\n" % v["slice.neg_test"]
    text += "instance (offset : Int) : Decidable (sliceNegTest offset) := by unfold sliceNegTest; infer_instance\n"
    text += "/-- …and the start it is replaced by (`n = len(rows)`) -/\n"
    text += "def sliceNegStart (n offset : Int) : Int := %s\n" % v["slice.neg_start"]
    text += "/-- upper bound of the window `rows[offset : stop]` -/\n"
    text += "def sliceStop (offset length : Int) : Int := %s\n" % v["slice.stop"]
    text += "/-- the explicit empty-window test -/\n"
    text += "def sliceZeroTest (length : Int) : Prop := %s\n" % v["slice.zero"]
    text += "instance (length : Int) : Decidable (sliceZeroTest length) := by unfold sliceZeroTest; infer_instance\n"
    text += "/-- `head(size)` = `slice(headOffset, headLength size)` -/\n"
    text += "def headOffset (size : Int) : Int := %s\n" % h[0]
    text += "def headLength (size : Int) : Int := %s\n" % h[1]
    text += "/-- `tail(size)` = `slice(tailOffset size, tailLength size)` -/\n"
    text += "def tailOffset (size : Int) : Int := %s\n" % t[0]
    text += "def tailLength (size : Int) : Int := %s\n" % t[1]
    text += "/-- Python `list.index`: position of the first occurrence (fixed helper, not from the source) -/\n"
    text += "def pyIndex (names : List String) (a : String) : Option Nat :=\n  match names with\n  | [] => none\n  | n :: ns => if n = a then some 0 else (pyIndex ns a).map (· + 1)\n"
    text += "/-- schema.py `RelationSchema.__iter__` over columns given as (name, aliases) -/\n"
    text += "def schemaIter (cols : List (String × List String)) : List String := %s\n" % v["schema.iter"]
    text += "/-- dataframe.py `select`: `new_header`, `attribute_indices` and the projected row -/\n"
    text += "def selectHeader (column_names attributes : List String) : List String := %s\n" % v["select.header"]
    text += "def selectIndices (column_names new_header : List String) : List Nat := %s\n" % v["select.indices"]
    text += "def selectProject {α : Type} (attribute_indices : List Nat) (tup : List α) : List α := %s\n" % v["select.project"]
    text += "/-- does the method call `self.materialize()` before it first touches `self._rows`? -/\n"
    text += "def materialisesFirst : String → Bool\n"
    for name in sorted(mats):
        text += "  | %s => %s\n" % (json_str(name), "true" if mats[name] else "false")
    text += "  | _ => false\n"
    text += "/-- `collect`: `if limit is None or <collectNegTest>: limit = <collectAllValue>` … -/\n"
    text += "def collectNegTest (limit : Int) : Prop := %s\n" % cl[0]
    text += "instance (limit : Int) : Decidable (collectNegTest limit) := by unfold collectNegTest; infer_instance\n"
    text += "def collectAllValue : Int := %s\n" % cl[1]
    text += "/-- … and compiled.pyx `collect_cython`: `if <collectTruncTest>: num_rows = limit` -/\n"
    text += "def collectTruncTest (limit num_rows : Int) : Prop := %s\n" % ct
    text += "instance (limit num_rows : Int) : Decidable (collectTruncTest limit num_rows) := by unfold collectTruncTest; infer_instance\n"
    text += "/-- … between the two, the clamp `if <collectClampTest>: limit = <collectClampValue>` (`False`: there is none) … -/\n"
    text += "def collectClampTest (limit n : Int) : Prop := %s\n" % cc[0]
    text += "instance (limit n : Int) : Decidable (collectClampTest limit n) := by unfold collectClampTest; infer_instance\n"
    text += "def collectClampValue : Int := %s\n" % cc[1]
    text += "/-- … and the range of the C type `collect_cython` declares its `limit` parameter with (compiled.pyx signature) -/\n"
    text += "def collectLimitMin : Int := -(2 ^ %d)\n" % (cb - 1)
    text += "def collectLimitMax : Int := 2 ^ %d - 1\n" % (cb - 1)
    text += "/-- `select`: the projection generator looks `self._rows` up when the selection is first read -/\n"
    text += "def selectReadsLate : Bool := %s\n" % ("true" if srl else "false")
    text += "/-- `distinct`: what is looked up in / added to the seen-set, and the by-value list of rows that cannot be hashed, is the row itself -/\n"
    text += "def distinctSeenKeyIsRow : Bool := %s\n" % ("true" if dk[0] else "false")
    text += "def distinctUnhashableKeyIsRow : Bool := %s\n" % ("true" if dk[1] else "false")
    text += "/-- `to_batches`: `for i in range(start, stop, step): yield rows[lower : upper]` (`n = rowcount`) -/\n"
    text += "def batchRangeStart (n batch_size : Int) : Int := %s\n" % bp[0][0]
    text += "def batchRangeStop (n batch_size : Int) : Int := %s\n" % bp[0][1]
    text += "def batchRangeStep (n batch_size : Int) : Int := %s\n" % bp[0][2]
    text += "def batchLower (i batch_size : Int) : Int := %s\n" % bp[1][0]
    text += "def batchUpper (i batch_size : Int) : Int := %s\n" % bp[1][1]
    text += "/-- `take`: row `i` is kept iff … -/\n"
    text += "def takeTest (i : Int) (indexes : List Int) : Prop := %s\n" % tt
    text += "instance (i : Int) (indexes : List Int) : Decidable (takeTest i indexes) := by unfold takeTest; infer_instance\n"
    text += "/-- does the method write into the object the caller passed as its sequence argument (`collect(columns)`, `select(attributes)`,\n"
    text += "`filter(mask)`, `take(indexes)`), for an argument that is 0 = a bare value, 1 = a list, 2 = a set, 3 = a tuple?  (From the statements\n"
    text += "that handle the argument: isinstance branches, re-binding to `[x]` / `list(x)`, aliases, subscript assignments, mutating calls.) -/\n"
    text += "def writesCallerArgument : String → Nat → Bool\n"
    for _op in sorted(aw):
        for _i, _w in enumerate(aw[_op]):
            text += "  | %s, %d => %s\n" % (json_str(_op), _i, "true" if _w else "false")
    text += "  | _, _ => false\n"
    text += "/-- the classes of argument object (index collection of `take`, mask of `filter`) for which the method has a return path of its\n"
    text += "own - `if isinstance(indexes, K) …: … return …` before the scan that serves every kind of object -/\n"
    text += "def ownPathKinds : String → List String\n"
    for _op in sorted(opk):
        text += "  | %s => [%s]\n" % (json_str(_op), ", ".join(json_str(x) for x in opk[_op]))
    text += "  | _ => []\n"
    text += "end Gen.Frame\n"
    o.files["FrameExpr.lean"] = text
