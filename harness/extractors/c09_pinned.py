"""Pinned translations for harness/extractors/c09.py: what the extractor produced on the tree this check was
written against.  Written out when an item can no longer be translated (a refactor degrades, never alarms).
Regenerate with tools/c09_repin.py after the proofs have been adapted to a new shape."""

PINNED = {}

PINNED['rleInit'] = '''/-- the run test of `RLEColumn.__init__` (`if value == prev_value:`, the increment of `run_length` in the `if` branch): a value
extends the current run exactly when this holds -/
def rleExtends (eq : α → α → Bool) (sameClass : α → α → Bool) (value prev_value : α) : Bool :=
  eq value prev_value

/-- body of loop 1 of `RLEColumn.__init__`: `for value in self.values[1:]` -/
def rleInit_loop1 (eq : α → α → Bool) (sameClass : α → α → Bool)  (st : α × Nat × List Nat × List α) (item : α) : α × Nat × List Nat × List α :=
  match st, item with
  | (prev_value, run_length, run_lengths, run_values), value =>
    match (if eq value prev_value then
       let run_length : Nat := run_length + 1;
       (prev_value, run_length, run_lengths, run_values)
     else
       let run_values : List α := run_values ++ [prev_value];
       let run_lengths : List Nat := run_lengths ++ [run_length];
       let prev_value : α := value;
       let run_length : Nat := 1;
       (prev_value, run_length, run_lengths, run_values)) with
    | (prev_value, run_length, run_lengths, run_values) =>
    (prev_value, run_length, run_lengths, run_values)

/-- `RLEColumn.__init__`, translated statement by statement -/
def rleInit (eq : α → α → Bool) (sameClass : α → α → Bool) (self_values : List α) : Option (List α × List Nat) :=
  let self_lengths : List Nat := [];
  let run_values : List α := [];
  let run_lengths : List Nat := [];
  if self_values.length == 0 then
    let self_values : List α := [];
    some (self_values, self_lengths)
  else
    (self_values[0]?).bind fun prev_value =>
    let run_length : Nat := 1;
    match List.foldl (rleInit_loop1 eq sameClass) (prev_value, run_length, run_lengths, run_values) (self_values.drop 1) with
    | (prev_value, run_length, run_lengths, run_values) =>
    let run_values : List α := run_values ++ [prev_value];
    let run_lengths : List Nat := run_lengths ++ [run_length];
    let self_values : List α := run_values;
    let self_lengths : List Nat := run_lengths;
    some (self_values, self_lengths)'''

PINNED['rleMaterialize'] = '''/-- body of loop 1 of `RLEColumn.materialize`: `for (value, length) in zip(self.values, self.lengths)` -/
def rleMaterialize_loop1   (st : List α) (item : α × Nat) : List α :=
  match st, item with
  | materialized, (value, length) =>
    let materialized : List α := materialized ++ (List.replicate length value);
    materialized

/-- `RLEColumn.materialize`, translated statement by statement -/
def rleMaterialize (self_values : List α) (self_lengths : List Nat) : Option (List α) :=
  let materialized : List α := [];
  match List.foldl (rleMaterialize_loop1) materialized (List.zip self_values self_lengths) with
  | materialized =>
  some materialized'''

PINNED['functionMaterialize'] = '''/-- `FunctionColumn.materialize`, translated statement by statement -/
def functionMaterialize {γ : Type} (binding : γ → α) (configuration : γ) (self_length : Nat) : Option (List α) :=
  let value : α := binding configuration;
  some (List.replicate self_length value)'''

PINNED['constInit'] = '''/-- `ConstantColumn.__init__`, translated statement by statement -/
def constInit (self_value : α) : Option (List α) :=
  let self_values : List α := [self_value];
  some self_values'''

PINNED['constMaterialize'] = '''/-- `ConstantColumn.materialize`, translated statement by statement -/
def constMaterialize (self_length : Nat) (self_values : List α) : Option (List α) :=
  Np.fullFrom self_length self_values'''

PINNED['sparseInit'] = '''/-- `SparseColumn.__init__`, translated statement by statement -/
def sparseInit (ne : α → α → Bool) (isPyNumber : α → Bool) (self_values : List α) (self_default_value : α) : Option (List Nat × List α × Nat) :=
  let values0 : List α := self_values;
  let default_ : α := self_default_value;
  match (if isPyNumber default_ then
     let default_ : α := default_;
     default_
   else
     default_) with
  | default_ =>
  let self_indices : List Nat := Np.where (self_values.map fun x => ne x default_);
  (Np.take self_values self_indices).bind fun self_values =>
  let self_total_length : Nat := values0.length;
  some (self_indices, self_values, self_total_length)'''

PINNED['sparseMaterialize'] = '''/-- `SparseColumn.materialize`, translated statement by statement -/
def sparseMaterialize {DT : Type} (cast : DT → α → Option α) (dtype : DT) (self_values : List α) (self_default_value : α) (self_indices : List Nat) (self_total_length : Nat) : Option (List α) :=
  let values : List α := self_values;
  (Np.fullCast cast dtype self_total_length self_default_value).bind fun materialized =>
  (Np.putCast cast dtype materialized self_indices values).bind fun materialized =>
  some materialized'''

PINNED['dictInit'] = '''/-- `DictionaryColumn.__init__`, translated statement by statement -/
def dictInit [DecidableEq α] (le : α → α → Bool) (self_values : List α) : Option (List α × List Nat) :=
  let values : List α := self_values;
  let self_values : List α := Np.uniqueValues le values;
  let self_encoding : List Nat := Np.uniqueInverse le values;
  some (self_values, self_encoding)'''

PINNED['dictMaterialize'] = '''/-- `DictionaryColumn.materialize`, translated statement by statement -/
def dictMaterialize (self_values : List α) (self_encoding : List Nat) : Option (List α) :=
  Np.take self_values self_encoding'''

PINNED['ctorResolve'] = '''/-- `FlatColumn.__init__, the block `if isinstance(self.type, OrsoTypes):` (the parameters parsed from a type name meet the keywords)`, translated statement by statement -/
def ctorResolve {ET : Type} (self_element_type : Option ET) (self_precision self_scale self_length : Option Nat) (u_element_type : Option ET) (u_precision u_scale u_length : Option Nat) : Option (Option ET × Option Nat × Option Nat × Option Nat) :=
  match (if self_element_type.isNone then
     let self_element_type : Option ET := u_element_type;
     self_element_type
   else
     self_element_type) with
  | self_element_type =>
  match (if self_precision.isNone then
     let self_precision : Option Nat := u_precision;
     self_precision
   else
     self_precision) with
  | self_precision =>
  match (if self_scale.isNone then
     let self_scale : Option Nat := u_scale;
     self_scale
   else
     self_scale) with
  | self_scale =>
  match (if self_length.isNone then
     let self_length : Option Nat := u_length;
     self_length
   else
     self_length) with
  | self_length =>
  some (self_element_type, self_precision, self_scale, self_length)'''

PINNED['sparseResultDType'] = '''if (([vdt.kind, ddt.kind]).all (fun k => ([Kind.b, Kind.i, Kind.u, Kind.f, Kind.c]).contains k) || ((distinctCount ([vdt.kind, ddt.kind]) == 1) && (!([vdt.kind, ddt.kind]).contains (Kind.O)))) then NpDType.promote vdt ddt else NpDType.object'''

PINNED['numpy_tables'] = {'rows': {'bool': {'bits': 8,
                   'int': (0, 1),
                   'kind': 'b',
                   'promote': {'bool': 'bool',
                               'complex128': 'complex128',
                               'complex64': 'complex64',
                               'float16': 'float16',
                               'float32': 'float32',
                               'float64': 'float64',
                               'int16': 'int16',
                               'int32': 'int32',
                               'int64': 'int64',
                               'int8': 'int8',
                               'uint16': 'uint16',
                               'uint32': 'uint32',
                               'uint64': 'uint64',
                               'uint8': 'uint8'}},
          'complex128': {'bits': 128,
                         'float': (53, 1024),
                         'kind': 'c',
                         'promote': {'bool': 'complex128',
                                     'complex128': 'complex128',
                                     'complex64': 'complex128',
                                     'float16': 'complex128',
                                     'float32': 'complex128',
                                     'float64': 'complex128',
                                     'int16': 'complex128',
                                     'int32': 'complex128',
                                     'int64': 'complex128',
                                     'int8': 'complex128',
                                     'uint16': 'complex128',
                                     'uint32': 'complex128',
                                     'uint64': 'complex128',
                                     'uint8': 'complex128'}},
          'complex64': {'bits': 64,
                        'float': (24, 128),
                        'kind': 'c',
                        'promote': {'bool': 'complex64',
                                    'complex128': 'complex128',
                                    'complex64': 'complex64',
                                    'float16': 'complex64',
                                    'float32': 'complex64',
                                    'float64': 'complex128',
                                    'int16': 'complex64',
                                    'int32': 'complex128',
                                    'int64': 'complex128',
                                    'int8': 'complex64',
                                    'uint16': 'complex64',
                                    'uint32': 'complex128',
                                    'uint64': 'complex128',
                                    'uint8': 'complex64'}},
          'float16': {'bits': 16,
                      'float': (11, 16),
                      'kind': 'f',
                      'promote': {'bool': 'float16',
                                  'complex128': 'complex128',
                                  'complex64': 'complex64',
                                  'float16': 'float16',
                                  'float32': 'float32',
                                  'float64': 'float64',
                                  'int16': 'float32',
                                  'int32': 'float64',
                                  'int64': 'float64',
                                  'int8': 'float16',
                                  'uint16': 'float32',
                                  'uint32': 'float64',
                                  'uint64': 'float64',
                                  'uint8': 'float16'}},
          'float32': {'bits': 32,
                      'float': (24, 128),
                      'kind': 'f',
                      'promote': {'bool': 'float32',
                                  'complex128': 'complex128',
                                  'complex64': 'complex64',
                                  'float16': 'float32',
                                  'float32': 'float32',
                                  'float64': 'float64',
                                  'int16': 'float32',
                                  'int32': 'float64',
                                  'int64': 'float64',
                                  'int8': 'float32',
                                  'uint16': 'float32',
                                  'uint32': 'float64',
                                  'uint64': 'float64',
                                  'uint8': 'float32'}},
          'float64': {'bits': 64,
                      'float': (53, 1024),
                      'kind': 'f',
                      'promote': {'bool': 'float64',
                                  'complex128': 'complex128',
                                  'complex64': 'complex128',
                                  'float16': 'float64',
                                  'float32': 'float64',
                                  'float64': 'float64',
                                  'int16': 'float64',
                                  'int32': 'float64',
                                  'int64': 'float64',
                                  'int8': 'float64',
                                  'uint16': 'float64',
                                  'uint32': 'float64',
                                  'uint64': 'float64',
                                  'uint8': 'float64'}},
          'int16': {'bits': 16,
                    'int': (-32768, 32767),
                    'kind': 'i',
                    'promote': {'bool': 'int16',
                                'complex128': 'complex128',
                                'complex64': 'complex64',
                                'float16': 'float32',
                                'float32': 'float32',
                                'float64': 'float64',
                                'int16': 'int16',
                                'int32': 'int32',
                                'int64': 'int64',
                                'int8': 'int16',
                                'uint16': 'int32',
                                'uint32': 'int64',
                                'uint64': 'float64',
                                'uint8': 'int16'}},
          'int32': {'bits': 32,
                    'int': (-2147483648, 2147483647),
                    'kind': 'i',
                    'promote': {'bool': 'int32',
                                'complex128': 'complex128',
                                'complex64': 'complex128',
                                'float16': 'float64',
                                'float32': 'float64',
                                'float64': 'float64',
                                'int16': 'int32',
                                'int32': 'int32',
                                'int64': 'int64',
                                'int8': 'int32',
                                'uint16': 'int32',
                                'uint32': 'int64',
                                'uint64': 'float64',
                                'uint8': 'int32'}},
          'int64': {'bits': 64,
                    'int': (-9223372036854775808, 9223372036854775807),
                    'kind': 'i',
                    'promote': {'bool': 'int64',
                                'complex128': 'complex128',
                                'complex64': 'complex128',
                                'float16': 'float64',
                                'float32': 'float64',
                                'float64': 'float64',
                                'int16': 'int64',
                                'int32': 'int64',
                                'int64': 'int64',
                                'int8': 'int64',
                                'uint16': 'int64',
                                'uint32': 'int64',
                                'uint64': 'float64',
                                'uint8': 'int64'}},
          'int8': {'bits': 8,
                   'int': (-128, 127),
                   'kind': 'i',
                   'promote': {'bool': 'int8',
                               'complex128': 'complex128',
                               'complex64': 'complex64',
                               'float16': 'float16',
                               'float32': 'float32',
                               'float64': 'float64',
                               'int16': 'int16',
                               'int32': 'int32',
                               'int64': 'int64',
                               'int8': 'int8',
                               'uint16': 'int32',
                               'uint32': 'int64',
                               'uint64': 'float64',
                               'uint8': 'int16'}},
          'uint16': {'bits': 16,
                     'int': (0, 65535),
                     'kind': 'u',
                     'promote': {'bool': 'uint16',
                                 'complex128': 'complex128',
                                 'complex64': 'complex64',
                                 'float16': 'float32',
                                 'float32': 'float32',
                                 'float64': 'float64',
                                 'int16': 'int32',
                                 'int32': 'int32',
                                 'int64': 'int64',
                                 'int8': 'int32',
                                 'uint16': 'uint16',
                                 'uint32': 'uint32',
                                 'uint64': 'uint64',
                                 'uint8': 'uint16'}},
          'uint32': {'bits': 32,
                     'int': (0, 4294967295),
                     'kind': 'u',
                     'promote': {'bool': 'uint32',
                                 'complex128': 'complex128',
                                 'complex64': 'complex128',
                                 'float16': 'float64',
                                 'float32': 'float64',
                                 'float64': 'float64',
                                 'int16': 'int64',
                                 'int32': 'int64',
                                 'int64': 'int64',
                                 'int8': 'int64',
                                 'uint16': 'uint32',
                                 'uint32': 'uint32',
                                 'uint64': 'uint64',
                                 'uint8': 'uint32'}},
          'uint64': {'bits': 64,
                     'int': (0, 18446744073709551615),
                     'kind': 'u',
                     'promote': {'bool': 'uint64',
                                 'complex128': 'complex128',
                                 'complex64': 'complex128',
                                 'float16': 'float64',
                                 'float32': 'float64',
                                 'float64': 'float64',
                                 'int16': 'float64',
                                 'int32': 'float64',
                                 'int64': 'float64',
                                 'int8': 'float64',
                                 'uint16': 'uint64',
                                 'uint32': 'uint64',
                                 'uint64': 'uint64',
                                 'uint8': 'uint64'}},
          'uint8': {'bits': 8,
                    'int': (0, 255),
                    'kind': 'u',
                    'promote': {'bool': 'uint8',
                                'complex128': 'complex128',
                                'complex64': 'complex64',
                                'float16': 'float16',
                                'float32': 'float32',
                                'float64': 'float64',
                                'int16': 'int16',
                                'int32': 'int32',
                                'int64': 'int64',
                                'int8': 'int16',
                                'uint16': 'uint16',
                                'uint32': 'uint32',
                                'uint64': 'uint64',
                                'uint8': 'uint8'}}},
 'version': '2.5.3'}
