"""C19: the KEY expression of the lru_cache_with_expiry wrapper (orso/tools.py, `key = (args, frozenset(kwargs.items()))`)
translated into Lean on every run: `Generated/CacheKey.lean`, `Gen.CacheKey.keyOf : List PyVal -> List (String x PyVal) -> PyVal`
over the primitives of Model/CacheKey.lean (tuple, items, sorted, frozenset, concat).  `C19.key_injective` is stated over the
generated definition (equal keys => equal positional and keyword arguments), so a key that confuses the positional with the
keyword part (a flat tuple without a separator, only the positional part, a hash, a string rendering) breaks a named theorem.

Two sorts: V (a value: PyVal) and S (the element sequence of an iterable: List PyVal).  Anything else is a shape the
translator does not know -> pinned text + `extraction_degraded` (never an alarm by itself).
"""
import ast

from .. import core, pystmt
from ..extract import HEADER, Src, lean_str

PINNED = "def keyOf (args : List PyVal) (kwargs : List (String × PyVal)) : PyVal :=\n  (tuple [(tuple args), (frozenset (items kwargs))])\n"


class Unknown(Exception):
    pass


def _name(n, name=None):
    return isinstance(n, ast.Name) and (name is None or n.id == name)


def _call(n, fname, nargs=1):
    return isinstance(n, ast.Call) and _name(n.func, fname) and len(n.args) == nargs and not n.keywords


class T:
    def __init__(self, va, vk):
        self.va, self.vk = va, vk

    def seq(self, n):
        """the elements of an iterable, in iteration order"""
        if isinstance(n, ast.Call) and isinstance(n.func, ast.Attribute) and n.func.attr == "items" and _name(n.func.value, self.vk) \
                and not n.args and not n.keywords:
            return "(items kwargs)"
        if _call(n, "sorted"):
            return "(sorted %s)" % self.seq(n.args[0])
        if _call(n, "tuple") or _call(n, "list"):
            return self.seq(n.args[0])
        if _name(n, self.va):
            return "args"
        raise Unknown("iterable %s" % ast.unparse(n)[:60])

    def val(self, n):
        if _name(n, self.va):
            return "(tuple args)"
        if isinstance(n, ast.Tuple):
            return "(tuple [%s])" % ", ".join(self.val(e) for e in n.elts)
        if _call(n, "tuple"):
            return "(tuple %s)" % self.seq(n.args[0])
        if _call(n, "frozenset"):
            return "(frozenset %s)" % self.seq(n.args[0])
        if isinstance(n, ast.BinOp) and isinstance(n.op, ast.Add):
            return "(concat %s %s)" % (self.val(n.left), self.val(n.right))
        if isinstance(n, ast.IfExp):
            return "(if %s then %s else %s)" % (self.cond(n.test), self.val(n.body), self.val(n.orelse))
        if isinstance(n, ast.Constant) and isinstance(n.value, str):
            return "(PyVal.str %s)" % lean_str(n.value)
        if isinstance(n, ast.Constant) and isinstance(n.value, int) and not isinstance(n.value, bool):
            return "(PyVal.int (%d))" % n.value
        if isinstance(n, ast.Constant) and n.value is None:
            return "PyVal.none"
        raise Unknown("value %s" % ast.unparse(n)[:60])

    def cond(self, n):
        if _name(n, self.vk):
            return "(!kwargs.isEmpty)"
        if _name(n, self.va):
            return "(!args.isEmpty)"
        if isinstance(n, ast.UnaryOp) and isinstance(n.op, ast.Not):
            return "(!%s)" % self.cond(n.operand)
        raise Unknown("test %s" % ast.unparse(n)[:60])


def key_expr(src):
    fn = src.func("lru_cache_with_expiry")
    ws = [n for n in ast.walk(fn) if isinstance(n, ast.FunctionDef) and n.name == "wrapper"]
    if len(ws) != 1 or ws[0].args.vararg is None or ws[0].args.kwarg is None:
        raise Unknown("wrapper")
    w = ws[0]
    # the name the cache is indexed with: cache[<key>] = ...
    stores = [n for n in ast.walk(w) if isinstance(n, ast.Assign) and len(n.targets) == 1 and isinstance(n.targets[0], ast.Subscript)
              and _name(n.targets[0].value, "cache")]
    if len(stores) != 1:
        raise Unknown("the store into the cache")
    sl = stores[0].targets[0].slice
    if _name(sl):
        defs = [n for n in ast.walk(w) if isinstance(n, ast.Assign) and len(n.targets) == 1 and _name(n.targets[0], sl.id)]
        if len(defs) != 1:
            raise Unknown("assignments to %s" % sl.id)
        expr = defs[0].value
    else:
        expr = sl
    t = T(w.args.vararg.arg, w.args.kwarg.arg)
    return ("def keyOf (args : List PyVal) (kwargs : List (String × PyVal)) : PyVal :=\n  %s\n" % t.val(expr)), ast.unparse(expr)


def generate(o):
    src = Src("orso/tools.py")
    got = o.item("c19.key", lambda: list(key_expr(src)), [PINNED, "(args, frozenset(kwargs.items()))"])
    header = HEADER + "import OrsoVerif.Model.CacheKey\n"
    header += "/-! The dictionary key of the lru_cache_with_expiry wrapper (orso/tools.py), translated from its source expression (harness/extractors/c19_key.py). -/\n"
    header += "open _root_.CacheKey\nnamespace Gen.CacheKey\n\n"
    header += "/-- source text of the key expression -/\ndef keySource : String := %s\n\n" % lean_str(got[1])
    text, bad = pystmt.compile_checked(header, [("keyOf", got[0])], "\nend Gen.CacheKey\n", {"keyOf": PINNED}, core.LEAN, "CacheKey")
    for k in bad:
        o.degraded.append("c19.key.%s (the translation does not elaborate in Lean; pinned text used)" % k)
    o.files["CacheKey.lean"] = text
