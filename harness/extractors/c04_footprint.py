"""C04: what every member of DataFrame — and every function of orso a frame is handed to — does with the frame's
cursor and row store, lifted from the AST (`Generated/CursorFootprint.lean`, namespace `Gen.CursorFootprint`).

The property says that read-only observations between fetches leave the cursor where it is.  The observers' bodies
are not in the model; what *is* checked about them, on every run, is their footprint:

    cursor    the unit mentions `<frame>._cursor`
    mutates   it changes the row list in place (`<frame>._rows.append(…)`, `… .sort()`, `<frame>._rows[i] = …`,
              `del <frame>._rows[…]`, `<frame>._rows += …`)
    rebinds   it assigns `<frame>._rows`   (harmless for the cursor of a materialised frame: the iterator keeps the
              object it was made over; it is what `materialize()` does)
    reads     it reads `<frame>._rows`
    escapes   it hands the frame to code this table does not cover (an unknown callee, `getattr`, a store)
    calls     members of DataFrame it uses on the frame (methods, properties, and the dunders behind `for`, `len`,
              `[]`, `+`, `hash`, `str`), and the covered functions it hands the frame to (`fn:<name>`)

`Lemmas/CursorFootprint.lean` closes `calls` transitively; `Props/C04.lean` proves (`observers_leave_cursor_alone`)
that nothing but the cursor API reaches `_cursor`, an in-place change of the rows, a fetch or an append, and
(`schema_observers_do_not_read_rows`) that the schema-level observers — the only ones the property lets a lazily
backed frame be shown to — reach neither `_rows` nor `materialize`.

A *frame expression* is `self` inside DataFrame, the frame parameter inside a covered function, `self._dictset`
inside GroupBy, and any local bound to one of those by a plain assignment.  The analysis is syntactic: it trusts that
a row list is not changed through another name for it (`rows = self._rows; rows.append(…)` — flagged as `escapes`
when it sees the binding) and that callees given `<frame>._rows` (e.g. `collect_cython`) only read it.
"""
import ast
import json
import os

from ..extract import HEADER, Src, lean_list, lean_str

MUTATORS = {"append", "extend", "insert", "pop", "remove", "clear", "sort", "reverse", "__setitem__", "__delitem__", "__iadd__", "__imul__"}
ITERATING = {"iter", "list", "tuple", "set", "frozenset", "sorted", "reversed", "enumerate", "zip", "map", "filter", "sum", "min", "max", "any", "all",
             "islice", "chain", "next", "deque", "dict", "Counter"}
SLOTS = {"_schema", "_row_factory", "arraysize", "_nbytes"}
# functions / classes of orso a frame is handed to: (file, class or None, function or None (= every method), frame expression)
COVERED = {
    "ascii_table": ("orso/display.py", None, "ascii_table", 0),
    "markdown": ("orso/display.py", None, "markdown", 0),
    "html_table": ("orso/display.py", None, "html_table", 0),
    "to_arrow": ("orso/converters.py", None, "to_arrow", 0),
    "to_pandas": ("orso/converters.py", None, "to_pandas", 0),
    "to_polars": ("orso/converters.py", None, "to_polars", 0),
    "GroupBy": ("orso/group_by.py", "GroupBy", None, "self._dictset"),
    "TableProfile.from_dataframe": ("orso/profiler/profiler.py", "TableProfile", "from_dataframe", 1),
}
CURSOR_API = ("__init__", "append", "fetchone", "fetchmany", "fetchall")
PURE_MEMBERS = ("column_names", "columncount", "description", "schema")


class Footprint:
    def __init__(self, name):
        self.name = name
        self.cursor = self.mutates = self.rebinds = self.reads = self.escapes = False
        self.calls = set()
        self.why = []

    def merge(self, other):
        for k in ("cursor", "mutates", "rebinds", "reads", "escapes"):
            setattr(self, k, getattr(self, k) or getattr(other, k))
        self.calls |= other.calls
        self.why += other.why


def analyse(fn, name, frame_exprs, members):
    """Footprint of one function body with respect to the frame expressions (unparse texts)."""
    fp = Footprint(name)
    frames = set(frame_exprs)
    row_aliases = set()
    # locals bound to the frame / to its row list by a plain assignment (flow-insensitive)
    changed = True
    while changed:
        changed = False
        for n in ast.walk(fn):
            if isinstance(n, ast.Assign) and len(n.targets) == 1 and isinstance(n.targets[0], ast.Name):
                v = ast.unparse(n.value)
                if v in frames and n.targets[0].id not in frames:
                    frames.add(n.targets[0].id)
                    changed = True
                if any(v == f + "._rows" for f in frames) and n.targets[0].id not in row_aliases:
                    row_aliases.add(n.targets[0].id)
                    changed = True
    if row_aliases:
        fp.escapes = True
        fp.why.append("the row list gets another name: " + ", ".join(sorted(row_aliases)))

    def is_frame(e):
        return isinstance(e, (ast.Name, ast.Attribute)) and ast.unparse(e) in frames and e not in shadowed

    def is_rows(e):
        return isinstance(e, ast.Attribute) and e.attr == "_rows" and is_frame(e.value)

    parents = {}
    for p in ast.walk(fn):
        for c in ast.iter_child_nodes(p):
            parents[c] = p
    # a comprehension variable or the parameter of an inner function of the same name is another variable
    shadowed = set()
    for p in ast.walk(fn):
        names = set()
        if isinstance(p, (ast.ListComp, ast.SetComp, ast.DictComp, ast.GeneratorExp)):
            names = {x.id for g in p.generators for x in ast.walk(g.target) if isinstance(x, ast.Name)}
        elif isinstance(p, (ast.FunctionDef, ast.Lambda)) and p is not fn:
            names = {a.arg for a in p.args.args + p.args.kwonlyargs}
        if names:
            for x in ast.walk(p):
                if isinstance(x, ast.Name) and x.id in names:
                    shadowed.add(x)

    for n in ast.walk(fn):
        if isinstance(n, ast.Attribute) and is_frame(n.value):
            par = parents.get(n)
            if n.attr == "_cursor":
                # looking at whether there is a cursor (`self._cursor is None`) does not move it; anything else —
                # an assignment, `next(…)`, `list(…)`, `for … in`, handing it on — counts
                inspects = isinstance(n.ctx, ast.Load) and (
                    (isinstance(par, ast.Compare) and all(isinstance(o, (ast.Is, ast.IsNot, ast.Eq, ast.NotEq)) for o in par.ops))
                    or (isinstance(par, (ast.If, ast.While, ast.IfExp)) and par.test is n)
                    or isinstance(par, (ast.BoolOp, ast.UnaryOp)))
                if not inspects:
                    fp.cursor = True
            elif n.attr == "_rows":
                if isinstance(n.ctx, (ast.Store, ast.Del)):
                    fp.rebinds = True
                    if isinstance(par, ast.AugAssign):
                        fp.mutates = True  # `+=` on a list extends it in place
                else:
                    fp.reads = True
                    if isinstance(par, ast.Attribute) and par.attr in MUTATORS and isinstance(parents.get(par), ast.Call):
                        fp.mutates = True
                    if isinstance(par, ast.Subscript) and isinstance(par.ctx, (ast.Store, ast.Del)):
                        fp.mutates = True
            elif n.attr in members:
                fp.calls.add(n.attr)
            elif n.attr in SLOTS:
                pass
            else:
                fp.escapes = True
                fp.why.append("unknown attribute ." + n.attr)
        elif is_frame(n) and not isinstance(parents.get(n), ast.Attribute):
            # the frame itself is used: how?
            par = parents.get(n)
            if isinstance(n.ctx, (ast.Store, ast.Del)):
                continue  # the name is (re)bound: what it is bound to is looked at where it is used
            if isinstance(par, (ast.For, ast.comprehension)) and par.iter is n:
                fp.calls.add("__iter__")
            elif isinstance(par, ast.Subscript) and par.value is n:
                fp.calls.add("__getitem__")
            elif isinstance(par, ast.BinOp) and isinstance(par.op, ast.Add):
                fp.calls.add("__add__")
            elif isinstance(par, ast.Compare):
                pass  # `x is frame`, `frame == y`: DataFrame defines no comparison
            elif isinstance(par, ast.Call) and n in par.args or isinstance(par, ast.keyword):
                call = par if isinstance(par, ast.Call) else parents.get(par)
                callee = ast.unparse(call.func)
                short = callee.split(".")[-1]
                if callee in COVERED or short in COVERED:
                    fp.calls.add("fn:" + (callee if callee in COVERED else short))
                elif callee == "len":
                    fp.calls.add("__len__")
                elif callee == "hash":
                    fp.calls.add("__hash__")
                elif callee in ("str", "repr", "format", "print"):
                    fp.calls.add("__str__")
                    fp.calls.add("__repr__")
                elif callee in ("isinstance", "type", "id"):
                    pass
                elif short in ITERATING:
                    fp.calls.add("__iter__")
                else:
                    fp.escapes = True
                    fp.why.append("handed to " + callee)
            elif isinstance(par, ast.Assign) and par.value is n:
                if not all(isinstance(t, ast.Name) for t in par.targets):
                    fp.escapes = True
                    fp.why.append("stored in " + ast.unparse(par.targets[0]))
            elif isinstance(par, (ast.Return, ast.Yield, ast.YieldFrom)):
                fp.escapes = True
                fp.why.append("returned")
            elif isinstance(par, ast.IfExp) or isinstance(par, (ast.BoolOp, ast.UnaryOp, ast.If, ast.While)):
                pass  # truthiness: DataFrame defines neither __bool__ nor … (falls back to __len__)
            elif isinstance(par, ast.Expr):
                pass
            else:
                fp.escapes = True
                fp.why.append("used in " + type(par).__name__)
        elif isinstance(n, ast.Call) and ast.unparse(n.func) in ("getattr", "setattr", "delattr", "vars") and n.args and is_frame(n.args[0]):
            fp.escapes = True
            fp.why.append(ast.unparse(n.func) + " on the frame")
    # truthiness of the frame is __len__
    for n in ast.walk(fn):
        if isinstance(n, (ast.If, ast.While, ast.IfExp)) and is_frame(n.test):
            fp.calls.add("__len__")
    return fp


def _class(tree, name):
    for n in tree.body:
        if isinstance(n, ast.ClassDef) and n.name == name:
            return n
    raise KeyError(name)


def _functions(scope):
    return [n for n in scope.body if isinstance(n, (ast.FunctionDef, ast.AsyncFunctionDef))]


def footprints():
    df = Src("orso/dataframe.py")
    cls = _class(df.tree, "DataFrame")
    members = {f.name for f in _functions(cls)}
    units = []
    for f in _functions(cls):
        units.append(analyse(f, f.name, {"self"}, members))
    for key, (path, cname, fname, frame) in COVERED.items():
        src = Src(path)
        scope = _class(src.tree, cname) if cname else src.tree
        fns = [f for f in _functions(scope) if fname is None or f.name == fname]
        if not fns:
            raise KeyError(key)
        unit = Footprint("fn:" + key)
        for f in fns:
            if isinstance(frame, int):
                args = [a.arg for a in f.args.args]
                exprs = {args[frame]}
            else:
                exprs = {frame}
            unit.merge(analyse(f, unit.name, exprs, members))
        units.append(unit)
    return units, sorted(members)


PINNED_FILE = os.path.join(os.path.dirname(os.path.abspath(__file__)), "pinned", "c04_footprint.json")


def _pinned():
    try:
        return json.load(open(PINNED_FILE))
    except OSError:
        return None


def generate(o):
    def get():
        units, members = footprints()
        # what the analysis cannot follow is not a fact about the code: the item degrades (pinned table), it does not
        # break a theorem.  (`__init__`, `append` and the fetch methods are the cursor's own code.)
        lost = [u for u in units if u.escapes and u.name not in CURSOR_API]
        if lost:
            raise ValueError("cannot follow the frame in %s (%s)" % (lost[0].name, "; ".join(lost[0].why[:2])))
        return [[u.name, u.cursor, u.mutates, u.rebinds, u.reads, u.escapes, sorted(u.calls), u.why[:4]] for u in units]

    # a source the analysis cannot read (syntax error, a covered function that is gone) degrades to the table of the
    # pinned tree: the theorems are then about that table, and the item is reported in `extraction_degraded`
    rows = o.item("cursor.footprint", get, _pinned())
    if os.environ.get("ORSO_VERIF_WRITE_PINNED") == "c04_footprint" and rows is not None:
        os.makedirs(os.path.dirname(PINNED_FILE), exist_ok=True)
        json.dump(rows, open(PINNED_FILE, "w"), indent=0)
    b = lambda v: "true" if v else "false"  # noqa: E731
    t = HEADER + "namespace Gen.CursorFootprint\n"
    t += "/-- what a member of DataFrame (or a function of orso a frame is handed to, `fn:…`) does with the frame -/\n"
    t += "structure Member where\n  name : String\n  cursor : Bool\n  mutates : Bool\n  rebinds : Bool\n  reads : Bool\n  escapes : Bool\n  calls : List String\n  deriving Repr\n\n"
    if rows is None:
        t += "def extracted : Bool := false\ndef units : List Member := []\n"
    else:
        t += "def extracted : Bool := true\ndef units : List Member := [\n"
        lines = []
        for name, cur, mut, reb, rd, esc, calls, why in rows:
            lines.append("  { name := %s, cursor := %s, mutates := %s, rebinds := %s, reads := %s, escapes := %s, calls := %s }%s"
                         % (lean_str(name), b(cur), b(mut), b(reb), b(rd), b(esc), lean_list(calls, lean_str),
                            ("  -- " + "; ".join(why).replace("\n", " ")) if why else ""))
        # the comment must not swallow the comma
        t += ",\n".join(l if "  -- " not in l else l.split("  -- ")[0] for l in lines) + "\n]\n"
        notes = [l.split("  -- ")[1] + " (" + l.split('"')[1] + ")" for l in lines if "  -- " in l]
        if notes:
            t += "/- why a unit is marked `escapes`:\n" + "\n".join("   " + n for n in notes) + " -/\n"
    t += "/-- the schema-level observers: what a lazily backed frame may be shown to (harness: recipes of kind `pure`) -/\n"
    t += "def schemaObservers : List String := %s\n" % lean_list(PURE_MEMBERS, lean_str)
    t += "end Gen.CursorFootprint\n"
    o.files["CursorFootprint.lean"] = t
