"""C12: the statements of `GroupBy._map`, `GroupBy.aggregate`, `GroupBy.groups`, the aggregator
functions (orso/group_by.py) and `DataFrame.__iter__` / `materialize` (orso/dataframe.py), read from
the AST of the working tree and written as terms of `Model/GroupByIR.lean` into
`Generated/GroupByCode.lean`.  `Model/GroupByCode.lean` interprets them; the theorems of
`Props/C12.lean` (`source_*`) are about the interpreter applied to them.

Every item is extracted on its own through `o.item`: a statement that is not in one of the shapes
recognised here is a refactor the extractor does not understand — the item degrades to its pinned
term (reported in `extraction_degraded`) and correspondence + oracle carry it.  Every term is well
typed whatever the source says, so a recognised change can break a theorem but never the build.
"""
import ast

from ..extract import HEADER, Src, lean_str


class Shape(Exception):
    """the source is not in a shape this extractor reads"""


# ----------------------------------------------------------------------------- small AST helpers


def _u(n):
    return ast.unparse(n)


def _is_name(n, name):
    return isinstance(n, ast.Name) and n.id == name


def _is_call(n, fname, nargs=None):
    if not isinstance(n, ast.Call):
        return False
    f = n.func
    ok = (isinstance(f, ast.Name) and f.id == fname) or (isinstance(f, ast.Attribute) and _u(f) == fname)
    return ok and (nargs is None or (len(n.args) == nargs and not n.keywords))


def _first_for(fn, pred):
    for n in ast.walk(fn):
        if isinstance(n, ast.For) and pred(n):
            return n
    raise Shape("loop not found")


_HELPERS = {}  # module-level one-line predicates of group_by.py: name -> (parameter, returned expression)


def _load_helpers(gb):
    """`def is_null(value): return value is None or value != value` and the like: a module-level function
    of one parameter whose body (after a docstring) is a single `return <expression>`."""
    _HELPERS.clear()
    if gb.tree is None:
        return
    for n in gb.tree.body:
        if isinstance(n, ast.FunctionDef) and len(n.args.args) == 1 and not (n.args.vararg or n.args.kwarg or n.args.kwonlyargs
                                                                             or n.args.defaults or n.decorator_list):
            body = [b for b in n.body if not (isinstance(b, ast.Expr) and isinstance(b.value, ast.Constant))]
            if len(body) == 1 and isinstance(body[0], ast.Return) and body[0].value is not None:
                _HELPERS[n.name] = (n.args.args[0].arg, body[0].value)


def _need(conj, test):
    if conj is None:
        raise Shape("test %s is not a conjunction of tests on the value" % _u(test))
    return conj


def _value_test(test, value_name, depth=0):
    """A test on the value of a triple -> (guards that hold when it is true, guards that hold when it is
    false), each a conjunction (list) of `Guard`s or None when that side is not a conjunction."""
    if depth > 6:
        raise Shape("test too deep")
    if _is_name(test, value_name):
        return ["truthy"], ["falsy"]
    if isinstance(test, ast.UnaryOp) and isinstance(test.op, ast.Not):
        a, b = _value_test(test.operand, value_name, depth + 1)
        return b, a
    if isinstance(test, ast.BoolOp):
        parts = [_value_test(v, value_name, depth + 1) for v in test.values]
        if isinstance(test.op, ast.And):
            pos = None if any(p[0] is None for p in parts) else [g for p in parts for g in p[0]]
            return pos, None
        neg = None if any(p[1] is None for p in parts) else [g for p in parts for g in p[1]]
        return None, neg
    if isinstance(test, ast.Compare) and len(test.ops) == 1 and _is_name(test.left, value_name):
        right = test.comparators[0]
        if isinstance(right, ast.Constant) and right.value is None:
            if isinstance(test.ops[0], ast.IsNot):
                return ["notNone"], ["isNone"]
            if isinstance(test.ops[0], ast.Is):
                return ["isNone"], ["notNone"]
        if _is_name(right, value_name):
            # only a NaN differs from itself
            if isinstance(test.ops[0], ast.NotEq):
                return ["isNaN"], ["notNaN"]
            if isinstance(test.ops[0], ast.Eq):
                return ["notNaN"], ["isNaN"]
    if isinstance(test, ast.Call) and not test.keywords and len(test.args) == 1 and _is_name(test.args[0], value_name):
        f = _u(test.func)
        if f in ("math.isnan", "isnan", "numpy.isnan", "np.isnan"):
            return ["isNaN"], ["notNaN"]
        if isinstance(test.func, ast.Name) and test.func.id in _HELPERS:
            param, expr = _HELPERS[test.func.id]
            return _value_test(expr, param, depth + 1)
    raise Shape("test %s" % _u(test))


# ----------------------------------------------------------------------------- _map


def _row_loop(fn):
    return _first_for(fn, lambda n: _u(n.iter) in ("self._dictset", "self._dictset._rows") or _is_name(n.target, "record"))


def rows_via(gb):
    loop = _row_loop(gb.func("_map", "GroupBy"))
    it = _u(loop.iter)
    if it == "self._dictset":
        return "frame"
    if it == "self._dictset._rows":
        return "backing"
    raise Shape("row loop iterates %s" % it)


def _key_elements(x):
    """The element expressions of the tuple a group is identified by, and the comprehension variable."""
    if isinstance(x, ast.Tuple):
        return list(x.elts), None
    if _is_call(x, "tuple", 1):
        a = x.args[0]
        if isinstance(a, (ast.GeneratorExp, ast.ListComp)) and len(a.generators) == 1 and not a.generators[0].ifs \
                and not a.generators[0].is_async and isinstance(a.generators[0].target, ast.Name):
            return [a.elt], a.generators[0].target.id
        if isinstance(a, (ast.List, ast.Tuple)):
            return list(a.elts), None
    raise Shape("group_key = %s" % _u(x))


def _key_element_kind(e, record, var):
    """`record[col]` -> tuple; `(type(record[col]), record[col])` (either order, or `.__class__`) -> typedTuple."""
    def is_cell(y):
        return isinstance(y, ast.Subscript) and _is_name(y.value, record) and (var is None or _is_name(y.slice, var))

    if is_cell(e):
        return "tuple"
    if isinstance(e, ast.Tuple) and len(e.elts) == 2:
        for t, v in (e.elts, e.elts[::-1]):
            if not is_cell(v):
                continue
            if _is_call(t, "type", 1) and is_cell(t.args[0]) and _u(t.args[0]) == _u(v):
                return "typedTuple"
            if isinstance(t, ast.Attribute) and t.attr == "__class__" and is_cell(t.value) and _u(t.value) == _u(v):
                return "typedTuple"
    raise Shape("a key value enters the identity of its group as %s" % _u(e))


def group_key(gb):
    loop = _row_loop(gb.func("_map", "GroupBy"))
    found = [n for n in ast.walk(loop) if isinstance(n, ast.Assign) and len(n.targets) == 1 and _is_name(n.targets[0], "group_key")]
    if len(found) != 1:
        raise Shape("%d assignments to group_key" % len(found))
    if not isinstance(loop.target, ast.Name):
        raise Shape("row loop target")
    v = found[0].value
    hashed = _is_call(v, "hash", 1)
    elts, var = _key_elements(v.args[0] if hashed else v)
    kinds = {_key_element_kind(e, loop.target.id, var) for e in elts}
    if kinds <= {"tuple"}:
        return "hashTuple" if hashed else "tuple"
    if kinds == {"typedTuple"} and not hashed:
        return "typedTuple"
    raise Shape("group_key = %s" % _u(v))


def map_registers(gb):
    fn = gb.func("_map", "GroupBy")
    loop = _row_loop(fn)
    mentions = [n for n in ast.walk(fn) if isinstance(n, ast.Attribute) and n.attr == "_group_keys"]
    for st in loop.body:
        if isinstance(st, ast.If) and _u(st.test) == "group_key not in self._group_keys" and not st.orelse:
            for b in st.body:
                if isinstance(b, ast.Assign) and len(b.targets) == 1 and _u(b.targets[0]) == "self._group_keys[group_key]":
                    return True
    if not mentions:
        return False
    raise Shape("_group_keys is used in another shape")


def _the_yield(gb):
    fn = gb.func("_map", "GroupBy")
    loop = _row_loop(fn)
    ys = [n for n in ast.walk(loop) if isinstance(n, ast.Yield)]
    if len(ys) != 1 or not isinstance(ys[0].value, ast.Tuple) or len(ys[0].value.elts) != 3:
        raise Shape("yield")
    inner = _first_for(loop, lambda n: any(y is ys[0] for y in ast.walk(n)) and n is not loop)
    return inner, ys[0]


def _walk_to(stmts, target, guards, value_name, env):
    """Path of tests (on `value_name`) from the top of `stmts` down to the statement holding `target`."""
    g = list(guards)
    for st in stmts:
        if any(x is target for x in ast.walk(st)):
            if isinstance(st, ast.If):
                a, b = _value_test(st.test, value_name)
                if any(x is target for s2 in st.body for x in ast.walk(s2)):
                    return _walk_to(st.body, target, g + _need(a, st.test), value_name, env)
                return _walk_to(st.orelse, target, g + _need(b, st.test), value_name, env)
            if isinstance(st, ast.Expr):
                return g
            raise Shape("yield inside %s" % type(st).__name__)
        if isinstance(st, ast.Assign) and len(st.targets) == 1 and isinstance(st.targets[0], ast.Name):
            env[st.targets[0].id] = st.value
            continue
        if isinstance(st, ast.If) and st.body and isinstance(st.body[-1], ast.Continue) and not st.orelse:
            a, b = _value_test(st.test, value_name)
            g.extend(_need(b, st.test))
            continue
        raise Shape("statement before the yield: %s" % type(st).__name__)
    raise Shape("yield not reached")


def map_value_and_guards(gb):
    inner, y = _the_yield(gb)
    third = y.value.elts[2]
    env = {}
    vname = third.id if isinstance(third, ast.Name) else "\0"
    guards = _walk_to(inner.body, y, [], vname, env)
    expr = env.get(third.id) if isinstance(third, ast.Name) else third
    if expr is None:
        raise Shape("yielded value")
    if isinstance(expr, ast.IfExp) and _u(expr.test) == "column == -1" and isinstance(expr.body, ast.Constant) \
            and expr.body.value == "*" and _u(expr.orelse) == "record[column]":
        return ["starIfMissing", guards]
    if _u(expr) == "record[column]":
        return ["cell", guards]
    raise Shape("yielded value %s" % _u(expr))


def collect_index(gb):
    """How `_map` finds the position of a requested column: the comprehension assigned to
    `collect_column_indicies`."""
    fn = gb.func("_map", "GroupBy")
    defs = [n for n in ast.walk(fn) if isinstance(n, ast.Assign) and len(n.targets) == 1
            and _is_name(n.targets[0], "collect_column_indicies")]
    if len(defs) != 1:
        raise Shape("%d assignments to collect_column_indicies" % len(defs))
    comp = defs[0].value
    if not (isinstance(comp, ast.ListComp) and len(comp.generators) == 1 and not comp.generators[0].ifs
            and isinstance(comp.generators[0].target, ast.Name) and _u(comp.generators[0].iter) == "collect_columns"):
        raise Shape("collect_column_indicies = %s" % _u(comp)[:60])
    t = comp.generators[0].target.id
    e = comp.elt

    def minus_one(x):
        return _u(x) == "-1"

    if isinstance(e, ast.IfExp):
        test, a, b = _u(e.test), e.body, e.orelse
        if test == "%s not in source_columns" % t:
            test, a, b = "%s in source_columns" % t, b, a
        if test == "%s in source_columns" % t and _u(a) == "source_columns.index(%s)" % t and minus_one(b):
            return "indexIfPresent"
        raise Shape("position of a column: %s" % _u(e)[:60])

    def first_positions(name):
        """`name = {}` followed by `for p, n in enumerate(source_columns): name.setdefault(n, p)`"""
        inits = [n for n in ast.walk(fn) if isinstance(n, (ast.Assign, ast.AnnAssign))
                 and any(_is_name(x, name) for x in (n.targets if isinstance(n, ast.Assign) else [n.target]))]
        if len(inits) != 1 or inits[0].value is None or _u(inits[0].value) not in ("{}", "dict()"):
            return False
        uses = [n for n in ast.walk(fn) if isinstance(n, ast.Name) and n.id == name]
        loops = [n for n in ast.walk(fn) if isinstance(n, ast.For) and _u(n.iter) == "enumerate(source_columns)"
                 and isinstance(n.target, ast.Tuple) and len(n.target.elts) == 2 and all(isinstance(x, ast.Name) for x in n.target.elts)
                 and len(n.body) == 1 and not n.orelse and isinstance(n.body[0], ast.Expr)
                 and _u(n.body[0].value) == "%s.setdefault(%s, %s)" % (name, n.target.elts[1].id, n.target.elts[0].id)]
        return len(loops) == 1 and len(uses) == 3  # its definition, the setdefault, the lookup

    if _is_call(e, e.func.value.id + ".get" if isinstance(e, ast.Call) and isinstance(e.func, ast.Attribute)
                and isinstance(e.func.value, ast.Name) else "\0") and len(e.args) == 2 and not e.keywords \
            and _is_name(e.args[0], t) and minus_one(e.args[1]) and first_positions(e.func.value.id):
        return "getDefault"
    if isinstance(e, ast.BoolOp) and isinstance(e.op, ast.Or) and len(e.values) == 2 and minus_one(e.values[1]):
        g = e.values[0]
        if isinstance(g, ast.Call) and isinstance(g.func, ast.Attribute) and g.func.attr == "get" and isinstance(g.func.value, ast.Name) \
                and len(g.args) == 1 and not g.keywords and _is_name(g.args[0], t) and first_positions(g.func.value.id):
            return "getOrMinusOne"
    raise Shape("position of a column: %s" % _u(e)[:60])


# ----------------------------------------------------------------------------- aggregate


def _collect_loop(gb):
    fn = gb.func("aggregate", "GroupBy")
    loop = _first_for(fn, lambda n: isinstance(n.iter, ast.Call) and _u(n.iter.func) == "self._map")
    if not (isinstance(loop.target, ast.Tuple) and len(loop.target.elts) == 3 and all(isinstance(e, ast.Name) for e in loop.target.elts)):
        raise Shape("loop target")
    return fn, loop


def collect_columns(gb):
    fn, loop = _collect_loop(gb)
    if len(loop.iter.args) != 1 or loop.iter.keywords:
        raise Shape("_map arguments")
    arg = loop.iter.args[0]
    if isinstance(arg, ast.Name):
        defs = [n for n in ast.walk(fn) if isinstance(n, ast.Assign) and len(n.targets) == 1 and _is_name(n.targets[0], arg.id)]
        if len(defs) != 1:
            raise Shape("%d assignments to %s" % (len(defs), arg.id))
        arg = defs[0].value

    def over_requests(comp):
        if len(comp.generators) != 1 or comp.generators[0].ifs:
            return False
        g = comp.generators[0]
        return _u(g.iter) == "aggregations" and isinstance(g.target, ast.Tuple) and len(g.target.elts) == 2 \
            and isinstance(g.target.elts[1], ast.Name) and _is_name(comp.elt, g.target.elts[1].id)

    if isinstance(arg, ast.ListComp) and over_requests(arg):
        return "all"
    if _is_call(arg, "list", 1) and _is_call(arg.args[0], "dict.fromkeys", 1):
        inner = arg.args[0].args[0]
        if isinstance(inner, (ast.GeneratorExp, ast.ListComp)) and over_requests(inner):
            return "dedup"
    raise Shape("collect columns %s" % _u(arg))


def collect_body(gb):
    fn, loop = _collect_loop(gb)
    gname, cname, vname = [e.id for e in loop.target.elts]
    group_dict = "column_value_map[%s]" % gname
    out = []

    def run(stmts, guards, aliases):
        g = list(guards)
        for st in stmts:
            if isinstance(st, ast.Pass):
                continue
            if isinstance(st, ast.Continue):
                return
            if isinstance(st, ast.If):
                a, b = _value_test(st.test, vname)
                if [x for x in st.body if not isinstance(x, (ast.Pass, ast.Continue))]:
                    run(st.body, g + _need(a, st.test), set(aliases))
                if [x for x in st.orelse if not isinstance(x, (ast.Pass, ast.Continue))]:
                    run(st.orelse, g + _need(b, st.test), set(aliases))
                if st.body and isinstance(st.body[-1], ast.Continue):
                    g.extend(_need(b, st.test))
                if st.orelse and isinstance(st.orelse[-1], ast.Continue):
                    g.extend(_need(a, st.test))
                continue
            if isinstance(st, ast.Assign) and len(st.targets) == 1 and isinstance(st.targets[0], ast.Name) \
                    and _u(st.value) == group_dict:
                aliases.add(st.targets[0].id)
                out.append((list(g), "touch"))
                continue
            if isinstance(st, ast.Expr) and _u(st.value) == group_dict:
                out.append((list(g), "touch"))
                continue
            if isinstance(st, ast.Expr) and isinstance(st.value, ast.Call) and isinstance(st.value.func, ast.Attribute) \
                    and st.value.func.attr == "append" and len(st.value.args) == 1 and _is_name(st.value.args[0], vname):
                tgt = st.value.func.value
                if isinstance(tgt, ast.Subscript) and _is_name(tgt.slice, cname) \
                        and (_u(tgt.value) == group_dict or (isinstance(tgt.value, ast.Name) and tgt.value.id in aliases)):
                    out.append((list(g), "append"))
                    continue
            raise Shape("statement in the collection loop: %s" % _u(st)[:40])

    run(loop.body, [], set())
    if len(out) > 12:
        raise Shape("collection loop too long")
    return [[gs, a] for gs, a in out]


def label_formats(gb):
    fn = gb.func("aggregate", "GroupBy")
    out = []
    in_raise = {id(x) for r in ast.walk(fn) if isinstance(r, ast.Raise) for x in ast.walk(r)}
    for n in ast.walk(fn):
        if isinstance(n, ast.JoinedStr):
            names = [_u(v.value) for v in n.values if isinstance(v, ast.FormattedValue)]
            if not {"func", "col"} <= set(names) or id(n) in in_raise:
                continue  # some other f-string (an error message, a log line)
            parts = []
            for v in n.values:
                if isinstance(v, ast.Constant) and isinstance(v.value, str):
                    parts.append(["lit", v.value])
                elif isinstance(v, ast.FormattedValue) and v.conversion == -1 and v.format_spec is None and _u(v.value) in ("func", "col"):
                    parts.append([_u(v.value)])
                else:
                    raise Shape("label part %s" % _u(v))
            out.append((n.lineno, n.col_offset, parts))
    if not out or len(out) > 12:
        raise Shape("%d label f-strings" % len(out))
    out.sort(key=lambda t: (t[0], t[1]))
    return [p for _, _, p in out]


def result_cell(gb):
    """`results = {<label f-string>: <cell> for func, col in aggregations}`: what is written under a label."""
    fn = gb.func("aggregate", "GroupBy")
    comps = [n for n in ast.walk(fn) if isinstance(n, ast.DictComp) and isinstance(n.key, ast.JoinedStr)
             and len(n.generators) == 1 and _u(n.generators[0].iter) == "aggregations"]
    if len(comps) != 1:
        raise Shape("%d dict comprehensions over the aggregations" % len(comps))
    comp = comps[0]
    key = _u(comp.key)

    def is_lookup(e):
        if isinstance(e, ast.Call) and isinstance(e.func, ast.Attribute) and e.func.attr == "get" \
                and isinstance(e.func.value, ast.Name) and len(e.args) == 1 and not e.keywords and _u(e.args[0]) == key:
            return True
        return isinstance(e, ast.Subscript) and isinstance(e.value, ast.Name) and _u(e.slice) == key

    v = comp.value
    if is_lookup(v):
        return ["get"]
    if isinstance(v, ast.BoolOp) and isinstance(v.op, ast.Or) and len(v.values) == 2 and is_lookup(v.values[0]) \
            and isinstance(v.values[1], ast.Constant):
        d = v.values[1].value
        if d is None:
            return ["getOrNone"]
        if isinstance(d, int) and not isinstance(d, bool) and abs(d) < 10**9:
            return ["getOrLit", d]
    raise Shape("result cell %s" % _u(v)[:40])


def _empty_branch(fn, test_text):
    tests = [n for n in ast.walk(fn) if isinstance(n, ast.If) and _u(n.test) == test_text]
    if not tests:
        if any(isinstance(n, ast.If) and test_text.replace("not ", "") in _u(n.test) for n in ast.walk(fn)):
            raise Shape("another test of %s" % test_text)
        return False
    for t in tests:
        for b in ast.walk(t):
            if isinstance(b, ast.Return) and isinstance(b.value, ast.Call) and _u(b.value.func) == "DataFrame" \
                    and any(k.arg == "rows" and _u(k.value) == "[]" for k in b.value.keywords) \
                    and any(k.arg == "schema" for k in b.value.keywords):
                return True
    raise Shape("the branch for no groups does not return an empty frame")


def aggregate_empty_header(gb):
    return _empty_branch(gb.func("aggregate", "GroupBy"), "not result_set")


def groups_empty_header(gb):
    return _empty_branch(gb.func("groups", "GroupBy"), "not self._group_keys")


def wrappers(gb):
    """min/max/sum/avg/count: the aggregate they ask `self.aggregate` for, as (method, FUNC, column or "")."""
    out = []
    for name in ("max", "min", "sum", "count", "avg"):
        fn = gb.func(name, "GroupBy")
        rets = [n for n in ast.walk(fn) if isinstance(n, ast.Return)]
        if len(rets) != 1 or not (isinstance(rets[0].value, ast.Call) and _u(rets[0].value.func) == "self.aggregate"
                                  and len(rets[0].value.args) == 1 and not rets[0].value.keywords):
            raise Shape("%s does not return self.aggregate(...)" % name)
        arg = rets[0].value.args[0]
        if isinstance(arg, ast.ListComp) and len(arg.generators) == 1 and not arg.generators[0].ifs \
                and _u(arg.generators[0].iter) == "columns" and isinstance(arg.generators[0].target, ast.Name) \
                and isinstance(arg.elt, ast.Tuple) and len(arg.elt.elts) == 2 \
                and isinstance(arg.elt.elts[0], ast.Constant) and isinstance(arg.elt.elts[0].value, str) \
                and _is_name(arg.elt.elts[1], arg.generators[0].target.id):
            out.append([name, arg.elt.elts[0].value, ""])
            continue
        if isinstance(arg, ast.List) and len(arg.elts) == 1:
            arg = arg.elts[0]
        if isinstance(arg, ast.Tuple) and len(arg.elts) == 2 and all(isinstance(e, ast.Constant) and isinstance(e.value, str) for e in arg.elts):
            out.append([name, arg.elts[0].value, arg.elts[1].value])
            continue
        raise Shape("%s asks for %s" % (name, _u(arg)[:40]))
    return out


# ----------------------------------------------------------------------------- aggregator functions


def _aexpr(n, vals):
    """expression over the parameter `vals` -> nested list (constructor, args…)"""
    if isinstance(n, ast.Constant):
        if n.value is None:
            return ["none"]
        if isinstance(n.value, int) and not isinstance(n.value, bool) and abs(n.value) < 10**9:
            return ["lit", n.value]
        raise Shape("constant %r" % (n.value,))
    if isinstance(n, ast.Call):
        f = _u(n.func)
        args_are_vals = len(n.args) == 1 and _is_name(n.args[0], vals)
        if f in ("len", "sum") and args_are_vals and not n.keywords:
            return [f]
        if f in ("min", "max") and args_are_vals:
            if not n.keywords:
                return [f + "E"]
            if len(n.keywords) == 1 and n.keywords[0].arg == "default":
                return [f + "D", _aexpr(n.keywords[0].value, vals)]
        if f in ("decimal.Decimal", "Decimal", "float") and len(n.args) == 1 and not n.keywords:
            return ["decimal", _aexpr(n.args[0], vals)]
        raise Shape("call %s" % _u(n)[:40])
    if isinstance(n, ast.BinOp) and isinstance(n.op, ast.Div):
        return ["div", _aexpr(n.left, vals), _aexpr(n.right, vals)]
    if isinstance(n, ast.BoolOp) and isinstance(n.op, ast.Or) and len(n.values) == 2:
        return ["orElse", _aexpr(n.values[0], vals), _aexpr(n.values[1], vals)]
    if isinstance(n, ast.IfExp):
        e = _emptiness(n.test, vals)
        a, b = _aexpr(n.body, vals), _aexpr(n.orelse, vals)
        return ["ifEmpty", a, b] if e else ["ifEmpty", b, a]
    raise Shape("expression %s" % _u(n)[:40])


def _emptiness(test, vals):
    """True when the test holds exactly for an empty list, False when exactly for a non-empty one."""
    t = _u(test)
    if t in ("not %s" % vals, "len(%s) == 0" % vals, "%s == []" % vals, "len(%s) < 1" % vals):
        return True
    if t in (vals, "len(%s) > 0" % vals, "len(%s) != 0" % vals, "len(%s) >= 1" % vals, "%s != []" % vals):
        return False
    raise Shape("test %s" % t)


def _abody(stmts, vals):
    stmts = [s for s in stmts if not (isinstance(s, ast.Expr) and isinstance(s.value, ast.Constant))]  # docstring
    if not stmts:
        raise Shape("function falls off its end")
    st = stmts[0]
    if isinstance(st, ast.Return):
        return ["none"] if st.value is None else _aexpr(st.value, vals)
    if isinstance(st, ast.If):
        e = _emptiness(st.test, vals)
        a = _abody(st.body, vals)
        b = _abody(st.orelse if st.orelse else stmts[1:], vals)
        return ["ifEmpty", a, b] if e else ["ifEmpty", b, a]
    raise Shape("statement %s" % type(st).__name__)


def aggregators(gb):
    if gb.tree is None:
        raise Shape("group_by.py does not parse")
    table = None
    for n in gb.tree.body:
        if isinstance(n, ast.Assign) and len(n.targets) == 1 and _is_name(n.targets[0], "AGGREGATORS") and isinstance(n.value, ast.Dict):
            table = n.value
    if table is None:
        raise Shape("AGGREGATORS")
    funcs = {n.name: n for n in gb.tree.body if isinstance(n, ast.FunctionDef)}
    out = []
    for k, v in zip(table.keys, table.values):
        if not (isinstance(k, ast.Constant) and isinstance(k.value, str)):
            raise Shape("key %s" % _u(k))
        if not isinstance(v, ast.Name):
            raise Shape("value %s" % _u(v))
        if v.id not in funcs:
            out.append([k.value, ["raise"]])
            continue
        fn = funcs[v.id]
        if len(fn.args.args) != 1 or fn.args.vararg or fn.args.kwarg or fn.args.kwonlyargs or fn.decorator_list:
            raise Shape("signature of %s" % v.id)
        out.append([k.value, _abody(fn.body, fn.args.args[0].arg)])
    if len(out) > 16:
        raise Shape("table too long")
    return out


# ----------------------------------------------------------------------------- DataFrame glue


def iter_materialises(df):
    fn = df.func("__iter__", "DataFrame")
    body = [s for s in fn.body if not (isinstance(s, ast.Expr) and isinstance(s.value, ast.Constant))]
    if not body or not (isinstance(body[-1], ast.Return) and _u(body[-1].value) == "iter(self._rows)"):
        raise Shape("__iter__ does not return iter(self._rows)")
    rest = body[:-1]
    if not rest:
        return False
    if len(rest) == 1 and isinstance(rest[0], ast.Expr) and _u(rest[0].value) == "self.materialize()":
        return True
    raise Shape("__iter__ body")


def materialize_makes_list(df):
    fn = df.func("materialize", "DataFrame")
    body = [s for s in fn.body if not (isinstance(s, ast.Expr) and isinstance(s.value, ast.Constant))]
    if len(body) == 1 and isinstance(body[0], ast.If) and _u(body[0].test) == "not isinstance(self._rows, list)" \
            and not body[0].orelse and len(body[0].body) == 1 and isinstance(body[0].body[0], ast.Assign) \
            and _u(body[0].body[0].targets[0]) == "self._rows" \
            and _u(body[0].body[0].value) in ("list(self._rows or [])", "list(self._rows)"):
        return True
    raise Shape("materialize body")


def fresh_value_map(gb):
    fn = gb.func("aggregate", "GroupBy")
    defs = [n for n in ast.walk(fn) if isinstance(n, ast.Assign) and len(n.targets) == 1 and _is_name(n.targets[0], "column_value_map")]
    if len(defs) != 1:
        raise Shape("%d assignments to column_value_map" % len(defs))
    v = defs[0].value
    if _is_call(v, "defaultdict") and not any(isinstance(x, ast.Attribute) and _is_name(x.value, "self") for x in ast.walk(v)):
        return True
    if isinstance(v, ast.Attribute) and _is_name(v.value, "self"):
        return False  # kept on the object
    raise Shape("column_value_map = %s" % _u(v)[:40])


def registry_per_object(gb):
    init = gb.func("__init__", "GroupBy")
    in_init = [n for n in ast.walk(init) if isinstance(n, ast.Assign) and len(n.targets) == 1
               and _u(n.targets[0]) == "self._group_keys" and _u(n.value) in ("{}", "dict()")]
    cls = [n for n in gb.tree.body if isinstance(n, ast.ClassDef) and n.name == "GroupBy"][0]
    at_class = [n for n in cls.body if isinstance(n, (ast.Assign, ast.AnnAssign))
                and any(_is_name(t, "_group_keys") for t in (n.targets if isinstance(n, ast.Assign) else [n.target]))]
    if in_init and not at_class:
        return True
    if at_class and not in_init:
        return False
    raise Shape("_group_keys is initialised in another way")


def columns_copied(gb):
    """`GroupBy.__init__`: is what `self._columns` holds a NEW object in every branch - `tuple(columns)`,
    `list(columns)`, `[columns]`, `[*columns]`, a comprehension over it - (True), or, in some branch, the object the
    caller passed (False: `self._columns = columns`, also after `columns = [columns]` in ANOTHER branch only)?
    A GroupBy is evaluated later; a caller who edits its list in between must not change what is grouped by."""
    init = gb.func("__init__", "GroupBy")
    params = [a.arg for a in init.args.args[1:]]
    if len(params) < 2:
        raise Shape("__init__ parameters")
    col = params[1]
    stores = [n for n in ast.walk(init) if isinstance(n, ast.Assign) and len(n.targets) == 1
              and _u(n.targets[0]) == "self._columns"]
    if not stores:
        raise Shape("no assignment to self._columns")

    def fresh_of_param(v):
        if isinstance(v, ast.Call) and isinstance(v.func, ast.Name) and v.func.id in ("tuple", "list") and len(v.args) == 1 \
                and not v.keywords and _is_name(v.args[0], col):
            return True
        if isinstance(v, (ast.List, ast.Tuple)) and all(_is_name(e, col) or (isinstance(e, ast.Starred) and _is_name(e.value, col))
                                                         for e in v.elts) and v.elts:
            return True
        if isinstance(v, (ast.ListComp,)) or (isinstance(v, ast.Call) and isinstance(v.func, ast.Name) and v.func.id in ("tuple", "list")
                                              and len(v.args) == 1 and isinstance(v.args[0], (ast.GeneratorExp, ast.ListComp))):
            return True
        return False

    verdicts = []
    for st in stores:
        if fresh_of_param(st.value):
            verdicts.append(True)
        elif _is_name(st.value, col):
            verdicts.append(False)  # the caller's object (a rebinding `columns = [columns]` covers one branch at most)
        else:
            raise Shape("self._columns = %s" % _u(st.value)[:40])
    if not all(verdicts):
        # `columns = tuple(columns)` (unconditionally, at the top level of __init__, before the store) makes it fresh again
        for n in init.body:
            if isinstance(n, ast.Assign) and len(n.targets) == 1 and _is_name(n.targets[0], col) and fresh_of_param(n.value) \
                    and isinstance(n.value, ast.Call):
                return True
            if any(x in stores for x in ast.walk(n)):
                break
        return False
    return True


ARRAY_CODES = {"b": (8, True), "B": (8, False), "h": (16, True), "H": (16, False), "i": (32, True), "I": (32, False),
               "l": (64, True), "L": (64, False), "q": (64, True), "Q": (64, False)}


def _positions_container(gb, over):
    """The container `_map` keeps column positions in: the assignment whose value is built from
    `source_columns.index(target) … for target in <over>`.  ["list"] (a list / tuple: any integer), ["bytes"]
    (`bytes(…)` / `bytearray(…)`: 0..255), ["array", bits, signed] (`array.array(code, …)`)."""
    fn = gb.func("_map", "GroupBy")
    found = []
    for n in ast.walk(fn):
        if not (isinstance(n, ast.Assign) and len(n.targets) == 1 and isinstance(n.targets[0], ast.Name)):
            continue
        comps = [c for c in ast.walk(n.value) if isinstance(c, (ast.GeneratorExp, ast.ListComp))
                 and len(c.generators) == 1 and _u(c.generators[0].iter) == over]
        if not comps:
            continue
        comp = comps[0]
        if not any(isinstance(x, ast.Call) and isinstance(x.func, ast.Attribute) and x.func.attr == "index" for x in ast.walk(comp.elt)):
            raise Shape("positions of %s are not found with .index()" % over)
        v = n.value
        if v is comp and isinstance(v, ast.ListComp):
            found.append(["list"])
        elif isinstance(v, ast.Call) and not v.keywords and len(v.args) == 1 and v.args[0] is comp \
                and isinstance(v.func, ast.Name) and v.func.id in ("list", "tuple"):
            found.append(["list"])
        elif isinstance(v, ast.Call) and not v.keywords and len(v.args) == 1 and v.args[0] is comp \
                and isinstance(v.func, ast.Name) and v.func.id in ("bytes", "bytearray"):
            found.append(["bytes"])
        elif isinstance(v, ast.Call) and not v.keywords and len(v.args) == 2 and v.args[1] is comp \
                and _u(v.func) in ("array.array", "array") and isinstance(v.args[0], ast.Constant) \
                and v.args[0].value in ARRAY_CODES:
            bits, signed = ARRAY_CODES[v.args[0].value]
            found.append(["array", bits, signed])
        else:
            raise Shape("positions container %s" % _u(v)[:50])
    if len(found) != 1:
        raise Shape("%d assignments hold the positions of %s" % (len(found), over))
    return found[0]


def key_positions(gb):
    return _positions_container(gb, "self._columns")


def value_positions(gb):
    return _positions_container(gb, "collect_columns")


def lean_container(c):
    if c[0] == "array":
        return "(.array %d %s)" % (c[1], lean_bool(c[2]))
    return "." + c[0]


# ----------------------------------------------------------------------------- Lean text

PINNED = {
    "group_key": "tuple",
    "map_registers": True,
    "map_value": ["starIfMissing", []],
    "collect_index": "indexIfPresent",
    "rows_via": "frame",
    "collect_columns": "dedup",
    "collect_body": [[[], "touch"], [["notNone"], "append"]],
    "aggregators": [["MIN", ["minD", ["none"]]], ["MAX", ["maxD", ["none"]]], ["COUNT", ["len"]],
                    ["AVG", ["ifEmpty", ["none"], ["div", ["decimal", ["sum"]], ["decimal", ["len"]]]]],
                    ["SUM", ["ifEmpty", ["none"], ["sum"]]]],
    "label_formats": [[["func"], ["lit", "("], ["col"], ["lit", ")"]]] * 4,
    "result_cell": ["get"],
    "wrappers": [["max", "MAX", ""], ["min", "MIN", ""], ["sum", "SUM", ""], ["count", "COUNT", "*"], ["avg", "AVG", ""]],
    "aggregate_empty_header": True,
    "groups_empty_header": True,
    "iter_materialises": True,
    "materialize_makes_list": True,
    "fresh_value_map": True,
    "registry_per_object": True,
    "columns_copied": True,
    "key_positions": ["array", 32, True],
    "value_positions": ["list"],
}


def lean_aexpr(e):
    head, args = e[0], e[1:]
    if head == "lit":
        return "(.lit %s)" % ("%d" % args[0] if args[0] >= 0 else "(%d)" % args[0])
    if not args:
        return "." + head
    return "(.%s %s)" % (head, " ".join(lean_aexpr(a) for a in args))


def lean_guards(gs):
    return "[" + ", ".join("." + g for g in gs) + "]"


def lean_bool(b):
    return "true" if b else "false"


def generate(o):
    gb = Src("orso/group_by.py")
    df = Src("orso/dataframe.py")
    try:
        _load_helpers(gb)
    except Exception:  # noqa: BLE001 - an unreadable module degrades item by item below
        _HELPERS.clear()
    P = PINNED
    key = o.item("group_by._map.group_key", lambda: group_key(gb), P["group_key"])
    reg = o.item("group_by._map.registers", lambda: map_registers(gb), P["map_registers"])
    val, yg = o.item("group_by._map.yield", lambda: map_value_and_guards(gb), P["map_value"])
    via = o.item("group_by._map.rows_via", lambda: rows_via(gb), P["rows_via"])
    cix = o.item("group_by._map.collect_index", lambda: collect_index(gb), P["collect_index"])
    col = o.item("group_by.aggregate.collect_columns", lambda: collect_columns(gb), P["collect_columns"])
    body = o.item("group_by.aggregate.collect_body", lambda: collect_body(gb), P["collect_body"])
    aggs = o.item("group_by.aggregators", lambda: aggregators(gb), P["aggregators"])
    labels = o.item("group_by.aggregate.labels", lambda: label_formats(gb), P["label_formats"])
    wr = o.item("group_by.wrappers", lambda: wrappers(gb), P["wrappers"])
    rc = o.item("group_by.aggregate.result_cell", lambda: result_cell(gb), P["result_cell"])
    aeh = o.item("group_by.aggregate.empty_header", lambda: aggregate_empty_header(gb), P["aggregate_empty_header"])
    geh = o.item("group_by.groups.empty_header", lambda: groups_empty_header(gb), P["groups_empty_header"])
    itm = o.item("dataframe.__iter__.materialises", lambda: iter_materialises(df), P["iter_materialises"])
    mml = o.item("dataframe.materialize.makes_list", lambda: materialize_makes_list(df), P["materialize_makes_list"])

    fvm = o.item("group_by.aggregate.fresh_value_map", lambda: fresh_value_map(gb), P["fresh_value_map"])
    rpo = o.item("group_by.__init__.registry_per_object", lambda: registry_per_object(gb), P["registry_per_object"])

    cc = o.item("group_by.__init__.columns_copied", lambda: columns_copied(gb), P["columns_copied"])

    kp = o.item("group_by._map.key_positions", lambda: key_positions(gb), P["key_positions"])
    vp = o.item("group_by._map.value_positions", lambda: value_positions(gb), P["value_positions"])

    def part(p):
        return ".lit %s" % lean_str(p[1]) if p[0] == "lit" else "." + p[0]

    t = HEADER + "import OrsoVerif.Model.GroupByIR\nnamespace Gen.GroupByCode\nopen GroupByIR\n"
    t += "/-- `_map`: `group_key = …` -/\ndef groupKey : KeyExpr := .%s\n" % key
    t += "/-- `_map`: `if group_key not in self._group_keys: self._group_keys[group_key] = […]` is in the row loop -/\n"
    t += "def mapRegisters : Bool := %s\n" % lean_bool(reg)
    t += "/-- `_map`: the value of the yielded triple -/\ndef mapValue : ValExpr := .%s\n" % val
    t += "/-- `_map`: how the position of a requested column is found (`collect_column_indicies`) -/\ndef collectIndex : ColIndexExpr := .%s\n" % cix
    t += "/-- `_map`: the tests the `yield` sits under -/\ndef mapYieldGuards : List Guard := %s\n" % lean_guards(yg)
    t += "/-- `_map`: what the row loop iterates -/\ndef rowsVia : RowsVia := .%s\n" % via
    t += "/-- `aggregate`: the argument of `self._map(…)` -/\ndef collectColumns : CollectExpr := .%s\n" % col
    t += "/-- `aggregate`: the collection loop, every action with the tests on `value` it sits under -/\n"
    t += "def collectBody : List (List Guard × Action) := [%s]\n" % ", ".join("(%s, .%s)" % (lean_guards(g), a) for g, a in body)
    t += "/-- `AGGREGATORS`: key, body of the function it names -/\n"
    t += "def aggregators : List (String × AExpr) := [%s]\n" % ", ".join("(%s, %s)" % (lean_str(k), lean_aexpr(e)) for k, e in aggs)
    t += "/-- every f-string of `aggregate` that builds a column label -/\n"
    t += "def labelFormats : List (List LabelPart) := [%s]\n" % ", ".join("[" + ", ".join(part(p) for p in f) + "]" for f in labels)
    t += "/-- `aggregate`: the value written into a result row under a label -/\n"
    t += "def resultCell : CellExpr := %s\n" % (".%s" % rc[0] if len(rc) == 1 else "(.%s %s)" % (rc[0], "%d" % rc[1] if rc[1] >= 0 else "(%d)" % rc[1]))
    t += "/-- the convenience wrappers: method, the function it asks `aggregate` for, the fixed column (\"\" = its argument) -/\n"
    t += "def wrappers : List (String × String × String) := [%s]\n" % ", ".join("(%s, %s, %s)" % tuple(lean_str(x) for x in w) for w in wr)
    t += "/-- `aggregate`: `if not result_set:` returns a frame with the header and no rows -/\n"
    t += "def aggregateEmptyHeader : Bool := %s\n" % lean_bool(aeh)
    t += "/-- `groups`: `if not self._group_keys:` returns a frame with the key columns and no rows -/\n"
    t += "def groupsEmptyHeader : Bool := %s\n" % lean_bool(geh)
    t += "/-- `DataFrame.__iter__` calls `self.materialize()` before `iter(self._rows)` -/\n"
    t += "def iterMaterialises : Bool := %s\n" % lean_bool(itm)
    t += "/-- `DataFrame.materialize` replaces a non-list `_rows` by `list(self._rows or [])` -/\n"
    t += "def materializeMakesList : Bool := %s\n" % lean_bool(mml)
    t += "/-- `aggregate`: `column_value_map = defaultdict(…)` is a fresh local of every call -/\n"
    t += "def freshValueMap : Bool := %s\n" % lean_bool(fvm)
    t += "/-- `GroupBy.__init__`: `self._group_keys = {}` (one registry per object) -/\n"
    t += "def registryPerObject : Bool := %s\n" % lean_bool(rpo)
    t += "/-- `GroupBy.__init__`: `self._columns` is a new object (`tuple(columns)` / `[columns]`), never the caller's list -/\n"
    t += "def columnsCopied : Bool := %s\n" % lean_bool(cc)
    t += "/-- `_map`: the container that holds the positions of the key columns (`group_column_indicies = …`) -/\n"
    t += "def keyPositions : PosContainer := %s\n" % lean_container(kp)
    t += "/-- `_map`: the container that holds the positions of the requested columns (`collect_column_indicies = …`) -/\n"
    t += "def valuePositions : PosContainer := %s\n" % lean_container(vp)
    t += "end Gen.GroupByCode\n"
    o.files["GroupByCode.lean"] = t
