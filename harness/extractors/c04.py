"""C04: the guards, the fetch-size arithmetic and the cursor life cycle of DataFrame, lifted from the AST.

Generated/CursorExpr.lean (namespace Gen.Cursor) holds what the source says *now*:

* `fetchSize` / `loopBound`      – `fetch_size = self.arraysize if size is None else size`, `range(fetch_size)`
                                    (a typed mini-translator for optional-int expressions: `x or y`, `x if c else y`,
                                    `x is None`, `not x`, min/max/+/-; anything else degrades, never ill-typed Lean)
* `fetch{one,many,all}Refuses`   – the test of the leading `if …: raise` of each fetch method
* `initCursorLive`               – is the `_cursor` created by `__init__` an iterator or `None`
* `appendInvalidates`            – the path condition under which `append` reaches `self._cursor = None`
                                    (statement level: sequences, if/else, early return/raise)
* `limitReached`, `processedAfter`, `skipsEmptyTables` – converters._RowsIterator.__next__

Model/Cursor.lean is assembled from these definitions; Props/C04.lean proves what the property needs of each
(`gen_*` theorems) and the refinement theorems use those facts, so a changed guard breaks a named theorem.
"""
import ast

from ..extract import HEADER, Src
from ..pyexpr import Untranslatable, find_function, to_lean

PINNED = {
    "fetchSize": "(if size.isNone then arraysize else (size.getD 0))",
    "loopBound": "fetchSize",
    "refuses": "cursorIsNone",
    "initCursorLive": "true",
    "appendInvalidates": "true",
    "limitReached": "(processed ≥ maxSize)",
    "processedAfter": "(processed + 1)",
    "skipsEmptyTables": True,
    "ownsRows": "true",
}


# ----------------------------------------------------------------------------- optional-int expressions


class V:
    """A Python value that is an int or None, as three Lean terms: its int, its truthiness, its None-ness."""

    def __init__(self, i, t, n):
        self.i, self.t, self.n = i, t, n


def _ite(c, a, b):
    return "(if %s then %s else %s)" % (c, a, b)


def optint(node, env):
    """Translate an expression over ints-or-None.  `env` maps `ast.unparse` text -> V."""

    def val(n):
        key = ast.unparse(n)
        if key in env:
            if env[key] is None:
                raise Untranslatable("depends on an untranslatable assignment: " + key)
            return env[key]
        if isinstance(n, ast.Constant):
            if n.value is None:
                return V("0", "false", "true")
            if isinstance(n.value, bool) or not isinstance(n.value, int):
                raise Untranslatable("constant %r" % (n.value,))
            lit = "%d" % n.value if n.value >= 0 else "(%d)" % n.value
            return V(lit, "true" if n.value != 0 else "false", "false")
        if isinstance(n, ast.IfExp):
            c, a, b = cond(n.test), val(n.body), val(n.orelse)
            return V(_ite(c, a.i, b.i), _ite(c, a.t, b.t), _ite(c, a.n, b.n))
        if isinstance(n, ast.BoolOp):
            vs = [val(v) for v in n.values]
            acc = vs[-1]
            for a in reversed(vs[:-1]):
                if isinstance(n.op, ast.Or):  # a or b: a when a is truthy
                    acc = V(_ite(a.t, a.i, acc.i), "(%s || %s)" % (a.t, acc.t), _ite(a.t, "false", acc.n))
                else:  # a and b: a when a is falsy
                    acc = V(_ite(a.t, acc.i, a.i), "(%s && %s)" % (a.t, acc.t), _ite(a.t, acc.n, a.n))
            return acc
        if isinstance(n, ast.BinOp) and type(n.op) in (ast.Add, ast.Sub, ast.Mult):
            a, b = val(n.left), val(n.right)
            op = {ast.Add: "+", ast.Sub: "-", ast.Mult: "*"}[type(n.op)]
            i = "(%s %s %s)" % (a.i, op, b.i)
            return V(i, "(%s != 0)" % i, "false")
        if isinstance(n, ast.UnaryOp) and isinstance(n.op, ast.USub):
            a = val(n.operand)
            return V("(-%s)" % a.i, a.t, "false")
        if isinstance(n, ast.Call) and isinstance(n.func, ast.Name) and n.func.id in ("min", "max") and len(n.args) == 2 and not n.keywords:
            a, b = val(n.args[0]), val(n.args[1])
            i = "(%s %s %s)" % (n.func.id, a.i, b.i)
            return V(i, "(%s != 0)" % i, "false")
        if isinstance(n, ast.Call) and isinstance(n.func, ast.Name) and n.func.id == "int" and len(n.args) == 1 and not n.keywords:
            return val(n.args[0])
        raise Untranslatable("%s: %s" % (type(n).__name__, key))

    def cond(n):
        if isinstance(n, ast.Compare) and len(n.ops) == 1:
            op, l, r = n.ops[0], n.left, n.comparators[0]
            r_none = isinstance(r, ast.Constant) and r.value is None
            if isinstance(op, (ast.Is, ast.Eq)) and r_none:
                return val(l).n
            if isinstance(op, (ast.IsNot, ast.NotEq)) and r_none:
                return "(!%s)" % val(l).n
            ops = {ast.Lt: "<", ast.LtE: "≤", ast.Gt: ">", ast.GtE: "≥", ast.Eq: "=", ast.NotEq: "≠"}
            if type(op) in ops:
                return "decide (%s %s %s)" % (val(l).i, ops[type(op)], val(r).i)
            raise Untranslatable("comparison " + ast.unparse(n))
        if isinstance(n, ast.UnaryOp) and isinstance(n.op, ast.Not):
            return "(!%s)" % cond(n.operand)
        if isinstance(n, ast.BoolOp):
            j = " && " if isinstance(n.op, ast.And) else " || "
            return "(" + j.join(cond(v) for v in n.values) + ")"
        return val(n).t

    return val(node)


def _is_guard_raise(st):
    return isinstance(st, ast.If) and not st.orelse and len(st.body) == 1 and isinstance(st.body[0], ast.Raise)


def fetchmany_exprs(src):
    """(fetchSize, loopBound) of DataFrame.fetchmany; raises when the body is not straight-line up to the loop."""
    fn = find_function(src.tree, "fetchmany", "DataFrame")
    if [a.arg for a in fn.args.args] != ["self", "size"] or ast.unparse(fn.args.defaults[0]) != "None":
        raise KeyError("signature of fetchmany")
    env = {
        "size": V("(size.getD 0)", "(size.isSome && (size.getD 0 != 0))", "size.isNone"),
        "self.arraysize": V("arraysize", "(arraysize != 0)", "false"),
    }
    loop = None
    fetch_size_expr = None
    for st in fn.body:
        if isinstance(st, ast.Expr) and isinstance(st.value, ast.Constant):
            continue  # docstring
        if _is_guard_raise(st):
            continue
        if isinstance(st, ast.Assign) and len(st.targets) == 1 and isinstance(st.targets[0], ast.Name):
            name = st.targets[0].id
            try:
                env[name] = optint(st.value, env)
            except Untranslatable:
                env[name] = None  # poisoned: only a problem when the loop bound depends on it
            if name == "fetch_size":
                fetch_size_expr = env[name]
            continue
        if isinstance(st, ast.For):
            loop = st
            break
        raise KeyError("statement before the loop: " + ast.unparse(st)[:40])
    if loop is None:
        raise KeyError("no for loop in fetchmany")
    it = loop.iter
    if not (isinstance(it, ast.Call) and ast.unparse(it.func) == "range" and len(it.args) == 1 and not it.keywords):
        raise KeyError("loop is not `for … in range(x)`")
    if fetch_size_expr is None:
        # the bound is written directly in range(...)
        whole = optint(it.args[0], env)
        return whole.i, "fetchSize"
    if env.get("fetch_size") is None:
        raise KeyError("fetch_size is not translatable")
    bound = optint(it.args[0], dict(env, fetch_size=V("fetchSize", "(fetchSize != 0)", "false")))
    return env["fetch_size"].i, bound.i


def refuses(src, name):
    fn = find_function(src.tree, name, "DataFrame")
    body = [st for st in fn.body if not (isinstance(st, ast.Expr) and isinstance(st.value, ast.Constant))]
    if not body or not _is_guard_raise(body[0]):
        raise KeyError("%s does not start with `if …: raise`" % name)
    atoms = {"self._cursor is None": "cursorIsNone", "self._cursor is not None": "(!cursorIsNone)",
             "self._cursor": "(!cursorIsNone)"}
    return _bool(body[0].test, atoms)


def init_cursor_live(src):
    fn = find_function(src.tree, "__init__", "DataFrame")
    found = []
    for n in ast.walk(fn):
        if isinstance(n, ast.Assign) and any(ast.unparse(t) == "self._cursor" for t in n.targets):
            found.append(n)
    if len(found) != 1 or found[0] not in fn.body:
        raise KeyError("one unconditional `self._cursor = …` in __init__")

    def live(e):
        if isinstance(e, ast.Call) and ast.unparse(e.func) == "iter" and len(e.args) == 1:
            return "true"
        if isinstance(e, ast.Constant) and e.value is None:
            return "false"
        if isinstance(e, ast.IfExp):
            return "(if %s then %s else %s)" % (test(e.test), live(e.body), live(e.orelse))
        raise Untranslatable("cursor expression " + ast.unparse(e))

    def test(t):
        k = ast.unparse(t).replace(" ", "")
        if k in ("self._rows", "len(self._rows)>0", "len(self._rows)", "len(self._rows)!=0", "rows"):
            return "rowsNonEmpty"
        if k in ("notself._rows", "len(self._rows)==0", "notrows"):
            return "(!rowsNonEmpty)"
        raise Untranslatable("cursor test " + ast.unparse(t))

    return live(found[0].value)


ATOMS_APPEND = {
    "self._nbytes is not None": "nbytesTracked",
    "self._nbytes is None": "(!nbytesTracked)",
    "isinstance(self._schema, RelationSchema)": "schemaIsRelation",
}


def _bool(t, atoms):
    k = ast.unparse(t)
    if k in atoms:
        return atoms[k]
    if isinstance(t, ast.UnaryOp) and isinstance(t.op, ast.Not):
        return "(!%s)" % _bool(t.operand, atoms)
    if isinstance(t, ast.BoolOp):
        j = " && " if isinstance(t.op, ast.And) else " || "
        return "(" + j.join(_bool(v, atoms) for v in t.values) + ")"
    raise Untranslatable("test " + k)


def _mentions(st, what=("self._cursor",)):
    for n in ast.walk(st):
        if isinstance(n, (ast.Return, ast.Raise)) and "flow" in what:
            return True
        if isinstance(n, ast.Attribute) and ast.unparse(n) in what:
            return True
    return False


def append_invalidates(src):
    """Path condition (a Lean Bool term) under which a *completing* append executes `self._cursor = None`."""
    fn = find_function(src.tree, "append", "DataFrame")

    def block(stmts, cur):
        """-> (hit, cont): formulas for 'invalidation executed' and 'falls through the end'."""
        hit = "false"
        for st in stmts:
            if isinstance(st, ast.Assign) and any(ast.unparse(t) == "self._cursor" for t in st.targets):
                if not (isinstance(st.value, ast.Constant) and st.value.value is None):
                    raise Untranslatable("cursor re-created in append")
                hit = "(%s || %s)" % (hit, cur)
            elif isinstance(st, ast.Return):
                return hit, "false"
            elif isinstance(st, ast.Raise):
                return hit, "false"  # the append did not complete: no row was appended on this path
            elif isinstance(st, ast.If):
                relevant = _mentions(st, ("self._cursor", "flow"))
                if not relevant:
                    continue
                try:
                    t = _bool(st.test, ATOMS_APPEND)
                except Untranslatable:
                    # a test over something the model has no atom for (e.g. `isinstance(self._rows, list)`): the
                    # formula must hold whichever way it goes, so take lower bounds — invalidated only if both
                    # branches invalidate, continuing only if both continue
                    h1, c1 = block(st.body, cur)
                    h2, c2 = block(st.orelse, cur)
                    hit = "(%s || (%s && %s))" % (hit, h1, h2)
                    cur = "(%s && %s)" % (c1, c2)
                    continue
                h1, c1 = block(st.body, "(%s && %s)" % (cur, t))
                h2, c2 = block(st.orelse, "(%s && !%s)" % (cur, t))
                hit = "(%s || %s || %s)" % (hit, h1, h2)
                cur = "(%s || %s)" % (c1, c2)
            elif isinstance(st, (ast.Expr, ast.Assign, ast.AugAssign, ast.AnnAssign, ast.Pass)):
                if _mentions(st):
                    raise Untranslatable("cursor used in " + ast.unparse(st)[:40])
            else:
                if _mentions(st, ("self._cursor", "flow")):
                    raise Untranslatable("control flow around the cursor: " + type(st).__name__)
        return hit, cur

    hit, cont = block(fn.body, "true")
    return _simplify(hit)


# ----------------------------------------------------------------------------- append: where it can be left by an exception

ATOMS_APPEND3 = dict(ATOMS_APPEND)
ATOMS_APPEND3.update({
    "isinstance(self._rows, list)": "rowsIsList",
    "type(self._rows) is list": "rowsIsList",
})


def _effect(st):
    """What a simple statement does to the cursor / the row store: 'drop', 'materialize', 'store', None; raises when it
    does something to them this analysis has no word for."""
    text = ast.unparse(st)
    if isinstance(st, ast.Assign) and any(ast.unparse(t) == "self._cursor" for t in st.targets):
        if len(st.targets) == 1 and isinstance(st.value, ast.Constant) and st.value.value is None:
            return "drop"
        raise Untranslatable("cursor re-created in append")
    if isinstance(st, ast.Expr) and isinstance(st.value, ast.Call):
        f = ast.unparse(st.value.func)
        if f == "self.materialize" and not st.value.args and not st.value.keywords:
            return "materialize"
        if f in ("self._rows.append", "self._rows.extend", "self._rows.insert"):
            return "store"
    if isinstance(st, ast.Assign) and any(ast.unparse(t) == "self._rows" for t in st.targets):
        v = ast.unparse(st.value).replace(" ", "")
        if v in ("list(self._rows)", "list(self._rowsor[])"):
            return "materialize"
        raise Untranslatable("row store re-bound in append: " + text[:40])
    if isinstance(st, ast.AugAssign) and ast.unparse(st.target) == "self._rows":
        return "store"
    for n in ast.walk(st):
        if isinstance(n, ast.Attribute) and ast.unparse(n) == "self._cursor":
            raise Untranslatable("cursor used in " + text[:40])
        if isinstance(n, ast.Call) and ast.unparse(n.func).startswith("self._rows."):
            raise Untranslatable("row store changed in " + text[:40])
    return None


def _has_call(n):
    """Can this statement / test be left by an exception?  One that calls something (or is a `raise`): attribute
    reads, `is`-tests and arithmetic on the frame's own counters are taken not to raise."""
    return any(isinstance(x, (ast.Call, ast.Raise)) for x in ast.walk(n))


def append_points(src):
    """`DataFrame.append`, statement by statement: every place it can be left from — by an exception (any statement or
    test that calls something) or by completing — with what has happened to the frame by then.

    Returns (points, final): `points` is a list of dicts {first, last (source lines), text, dropped, materialized,
    stored}; the three are Lean Bool terms over `rowsIsList schemaIsRelation nbytesTracked` (the state when `append`
    is entered) saying whether `self._cursor = None`, `self.materialize()`, `self._rows.append(…)` have been executed
    when the statement starts; `final` the same three for an append that completes.

    The path through `append` must be decided by those three atoms wherever an effect or a `return` depends on it; a test
    over anything else may only guard statements without effect (they are still points).  Anything else raises."""
    fn = find_function(src.tree, "append", "DataFrame")
    points = []
    exits = []

    def disj(a, b):
        return b if a == "false" else (a if b == "false" else "(%s || %s)" % (a, b))

    def point(node, st):
        points.append({"first": node.lineno, "last": getattr(node, "end_lineno", node.lineno), "text": ast.unparse(node)[:60],
                       "dropped": st["drop"], "materialized": st["materialize"], "stored": st["store"]})

    def plain(stmts):
        """statements under a test this analysis cannot decide: no effects, no way out but an exception"""
        for s_ in stmts:
            for n in ast.walk(s_):
                if isinstance(n, (ast.Return, ast.Break, ast.Continue, ast.Yield, ast.YieldFrom)):
                    raise Untranslatable("control flow under a test over the record")
            if isinstance(s_, (ast.Expr, ast.Assign, ast.AugAssign, ast.AnnAssign, ast.Raise, ast.Pass, ast.Assert)):
                if not isinstance(s_, (ast.Raise, ast.Pass, ast.Assert)) and _effect(s_) is not None:
                    raise Untranslatable("effect under a test over the record")
            else:
                for sub in ast.iter_child_nodes(s_):
                    if isinstance(sub, ast.stmt):
                        plain([sub])
                if _mentions(s_, ("self._cursor", "self._rows")) and not isinstance(s_, ast.If):
                    raise Untranslatable("compound statement around the cursor: " + type(s_).__name__)

    def block(stmts, cur, st):
        """-> (cur, st) after the block; cur == "false" when no path falls through"""
        for s_ in stmts:
            if isinstance(s_, ast.Expr) and isinstance(s_.value, ast.Constant):
                continue
            if isinstance(s_, ast.Return):
                if s_.value is not None and _has_call(s_.value):
                    point(s_, st)
                exits.append((cur, dict(st)))
                return "false", st
            if isinstance(s_, ast.Raise):
                point(s_, st)
                return "false", st
            if isinstance(s_, ast.If):
                if _has_call(s_.test):
                    point(s_.test, st)
                try:
                    t = _bool(s_.test, ATOMS_APPEND3)
                except Untranslatable:
                    plain(s_.body)
                    plain(s_.orelse)
                    inner = dict(st)
                    for b in (s_.body, s_.orelse):
                        pts(b, inner)
                    continue
                c1, s1 = block(s_.body, "(%s && %s)" % (cur, t), dict(st))
                c2, s2 = block(s_.orelse, "(%s && !%s)" % (cur, t), dict(st))
                st = {k: disj(s1[k], s2[k]) if s1[k] != s2[k] else s1[k] for k in st}
                if not (c1 == "(%s && %s)" % (cur, t) and c2 == "(%s && !%s)" % (cur, t)):  # a branch left the method
                    cur = disj(c1, c2)
                continue
            if isinstance(s_, (ast.Expr, ast.Assign, ast.AugAssign, ast.AnnAssign, ast.Pass, ast.Assert, ast.Import, ast.ImportFrom)):
                eff = None if isinstance(s_, (ast.Pass, ast.Assert, ast.Import, ast.ImportFrom)) else _effect(s_)
                if _has_call(s_):
                    point(s_, st)
                if eff is not None:
                    key = {"drop": "drop", "materialize": "materialize", "store": "store"}[eff]
                    st = dict(st)
                    st[key] = disj(st[key], cur)
                continue
            # for / while / try / with: fine as long as they do nothing to the cursor, the store or the flow
            plain([s_])
            point(s_, st)
        return cur, st

    def pts(stmts, st):
        for s_ in stmts:
            if isinstance(s_, ast.If):
                if _has_call(s_.test):
                    point(s_.test, st)
                pts(s_.body, st)
                pts(s_.orelse, st)
            elif _has_call(s_):
                point(s_, st)

    cur, st = block(fn.body, "true", {"drop": "false", "materialize": "false", "store": "false"})
    if cur != "false":
        exits.append((cur, st))
    if not exits:
        raise KeyError("append never completes")
    final = {}
    for k in ("drop", "materialize", "store"):
        f = "false"
        for c, s_ in exits:
            f = disj(f, "(%s && %s)" % (c, s_[k]))
        final[k] = _simplify(f)
    points.sort(key=lambda p: (p["first"], p["last"]))
    for p in points:
        for k in ("dropped", "materialized", "stored"):
            p[k] = _simplify(p[k])
    return points, final


def append_point_of_line(points, lineno):
    """The index of the innermost point whose source lines contain `lineno` (None when there is none)."""
    best = None
    for i, p in enumerate(points):
        if p["first"] <= lineno <= p["last"] and (best is None or p["last"] - p["first"] <= points[best]["last"] - points[best]["first"]):
            best = i
    return best


# the table of the tree this framework was built against (written when the extraction degrades)
PINNED_POINTS = [["false", "false", "false"]] * 2 + [["(!rowsIsList)", "(!rowsIsList)", "false"]] * 9
PINNED_FINAL = ["(((!rowsIsList) || true))", "(!rowsIsList)", "true"]


def append_points_lean(src):
    points, final = append_points(src)
    return [[[p["dropped"], p["materialized"], p["stored"]] for p in points], [final["drop"], final["materialize"], final["store"]],
            [[p["first"], p["last"], p["text"]] for p in points]]


def _simplify(f):
    """Cosmetic: fold the constant parts of the formula (it stays a plain Bool term either way)."""
    prev = None
    while prev != f:
        prev = f
        for a, b in (("(false || true)", "true"), ("(true && ", "("), ("(false || ", "("), (" || false)", ")"),
                     ("((", "(("), ("(true)", "true"), ("(false)", "false")):
            f = f.replace(a, b)
        # (x) -> x for atoms
        import re

        f = re.sub(r"\((\w+)\)", r"\1", f)
        f = re.sub(r"\(\(([^()]*)\)\)", r"(\1)", f)
    return f


def rows_iterator(src):
    fn = find_function(src.tree, "__next__", "_RowsIterator")
    env = {"self.rows_processed": "processed", "self.max_size": "maxSize"}
    first = [st for st in fn.body if not (isinstance(st, ast.Expr) and isinstance(st.value, ast.Constant))][0]
    if not (_is_guard_raise(first) and "StopIteration" in ast.unparse(first.body[0])):
        raise KeyError("__next__ does not start with the max_size guard")
    tests = first.test.values if isinstance(first.test, ast.BoolOp) else [first.test]
    if not all(isinstance(t, ast.Compare) for t in tests):
        raise Untranslatable("max_size guard is not a comparison")
    limit = to_lean(first.test, env)
    inc = None
    for n in ast.walk(fn):
        if isinstance(n, ast.AugAssign) and ast.unparse(n.target) == "self.rows_processed":
            inc = to_lean(ast.BinOp(left=n.target, op=n.op, right=n.value), env)
    if inc is None:
        raise KeyError("rows_processed += …")
    return limit, inc


def skips_empty(src):
    fn = find_function(src.tree, "__next__", "_RowsIterator")
    loops = [n for n in fn.body if isinstance(n, ast.While)]
    ifs = [n for n in fn.body if isinstance(n, ast.If) and ast.unparse(n.test).replace(" ", "") in ("rowisNone",)]
    if len(loops) == 1 and ast.unparse(loops[0].test).replace(" ", "") == "rowisNone":
        last = loops[0].body[-1]
        if isinstance(last, ast.Assign) and ast.unparse(last).replace(" ", "") == "row=next(self.current_rows,None)":
            return True
        raise KeyError("loop body does not end with row = next(self.current_rows, None)")
    if not loops and len(ifs) == 1:
        return False  # `if row is None:` — one table is loaded, an empty one ends the stream
    raise KeyError("while row is None")


# ----------------------------------------------------------------------------- frames derived from a frame

DERIVING = ("slice", "head", "tail", "query", "distinct", "__add__", "to_batches")
_LIST_MUTATORS = ("append", "extend", "insert")


def _is_view(e, fn):
    """`rows=` a generator: a generator expression, or a call of a generator function nested in the method."""
    if isinstance(e, ast.GeneratorExp):
        return True
    if isinstance(e, ast.Call) and isinstance(e.func, ast.Name) and not e.args and not e.keywords:
        for n in ast.walk(fn):
            if isinstance(n, ast.FunctionDef) and n is not fn and n.name == e.func.id:
                return any(isinstance(y, (ast.Yield, ast.YieldFrom)) for y in ast.walk(n))
    return False


def owns_rows(src, name, depth=0):
    """A Lean Bool term: does every frame that `DataFrame.<name>` hands out own its row list?

    `true` when each `DataFrame(…, rows=E)` built in the method gets a list nobody else holds — a slice
    `xs[a:b]`, a list display / comprehension, `list(…)`, `sorted(…)`, a concatenation `xs + ys`, or a local that
    is only ever bound to such expressions — and the method never returns `self`.  `false` as soon as one of them
    is handed the parent's own `self._rows` (or a local bound to it): then two frames walk one list, and an
    append through either is seen by the cursor of the other.  A method that only delegates
    (`return self.slice(…)`) owns what the delegate owns.  A generator expression is a lazy *view* (select /
    filter / take): not this definition's business.  Anything unrecognised raises (the item degrades)."""
    fn = find_function(src.tree, name, "DataFrame")
    body = [st for st in fn.body if not (isinstance(st, ast.Expr) and isinstance(st.value, ast.Constant))]
    if len(body) == 1 and isinstance(body[0], ast.Return) and isinstance(body[0].value, ast.Call) \
            and isinstance(body[0].value.func, ast.Attribute) and ast.unparse(body[0].value.func.value) == "self" \
            and body[0].value.func.attr in DERIVING and body[0].value.func.attr != name and depth < 3:
        return {"slice": "sliceOwnsRows"}.get(body[0].value.func.attr) or owns_rows(src, body[0].value.func.attr, depth + 1)
    binds = {}
    for n in ast.walk(fn):
        if isinstance(n, ast.Assign) and len(n.targets) == 1 and isinstance(n.targets[0], ast.Name):
            binds.setdefault(n.targets[0].id, []).append(n.value)
        elif isinstance(n, (ast.AugAssign, ast.AnnAssign)) and isinstance(n.target, ast.Name):
            binds.setdefault(n.target.id, []).append(n.value if n.value is not None else ast.Constant(None))
        elif isinstance(n, (ast.For, ast.comprehension)) and isinstance(n.target, ast.Name):
            binds.setdefault(n.target.id, []).append(None)  # a loop variable: an element, not a list we know

    def fresh(e, seen=()):
        if isinstance(e, ast.Subscript) and isinstance(e.slice, ast.Slice):
            return True
        if isinstance(e, (ast.List, ast.ListComp)):
            return True
        if isinstance(e, ast.Call) and isinstance(e.func, ast.Name) and e.func.id in ("list", "sorted") and len(e.args) == 1:
            return True
        if isinstance(e, ast.BinOp) and isinstance(e.op, ast.Add):
            return True  # xs + ys is a new list whatever xs and ys are
        if isinstance(e, ast.IfExp):
            return fresh(e.body, seen) and fresh(e.orelse, seen)
        if isinstance(e, ast.Attribute) and ast.unparse(e) in ("self._rows", "the_other._rows"):
            return False
        if isinstance(e, ast.Name) and e.id in binds and e.id not in seen:
            if any(v is None for v in binds[e.id]):
                raise Untranslatable("rows= a loop variable: " + e.id)
            return all(fresh(v, seen + (e.id,)) for v in binds[e.id])
        raise Untranslatable("rows= " + ast.unparse(e)[:50])

    ok = True
    built = 0
    for n in ast.walk(fn):
        if isinstance(n, ast.Return) and n.value is not None and ast.unparse(n.value) == "self":
            ok = False
        if isinstance(n, (ast.Yield, ast.YieldFrom)) and n.value is not None and ast.unparse(n.value) == "self":
            ok = False
        if isinstance(n, ast.Call) and ast.unparse(n.func) in ("DataFrame", "cls", "type(self)", "self.__class__"):
            built += 1
            kw = [k for k in n.keywords if k.arg == "rows"]
            if any(k.arg is None for k in n.keywords) or (n.args and not kw):
                raise Untranslatable("DataFrame(…) built from positional / ** arguments in " + name)
            if kw and not _is_view(kw[0].value, fn):
                ok = ok and fresh(kw[0].value)
    if built == 0 and ok:
        raise KeyError("%s builds no DataFrame" % name)
    return "true" if ok else "false"


def generate(o):
    src = Src("orso/dataframe.py")
    conv = Src("orso/converters.py")
    fs, lb = o.item("cursor.fetchmany.size", lambda: list(fetchmany_exprs(src)), [PINNED["fetchSize"], PINNED["loopBound"]])
    g1 = o.item("cursor.fetchone.guard", lambda: refuses(src, "fetchone"), PINNED["refuses"])
    g2 = o.item("cursor.fetchmany.guard", lambda: refuses(src, "fetchmany"), PINNED["refuses"])
    g3 = o.item("cursor.fetchall.guard", lambda: refuses(src, "fetchall"), PINNED["refuses"])
    il = o.item("cursor.init.live", lambda: init_cursor_live(src), PINNED["initCursorLive"])
    ai = o.item("cursor.append.invalidates", lambda: append_invalidates(src), PINNED["appendInvalidates"])
    ap = o.item("cursor.append.points", lambda: append_points_lean(src), [PINNED_POINTS, PINNED_FINAL, None])
    lim, inc = o.item("cursor.rowsiter.limit", lambda: list(rows_iterator(conv)), [PINNED["limitReached"], PINNED["processedAfter"]])
    sk = o.item("cursor.rowsiter.skips_empty", lambda: skips_empty(conv), PINNED["skipsEmptyTables"])
    t = HEADER + "set_option linter.unusedVariables false\nnamespace Gen.Cursor\n"
    t += "/-- dataframe.py `fetchmany`: the value of `fetch_size` (`size = none` is the omitted argument) -/\n"
    t += "def fetchSize (arraysize : Int) (size : Option Int) : Int := %s\n" % fs
    t += "/-- …and the argument of `range(…)` in its loop, as a function of `fetch_size` -/\n"
    t += "def loopBound (fetchSize : Int) : Int := %s\n" % lb
    t += "/-- the tests of the leading `if …: raise` of the three fetch methods (`cursorIsNone` = `self._cursor is None`) -/\n"
    t += "def fetchoneRefuses (cursorIsNone : Bool) : Bool := %s\n" % g1
    t += "def fetchmanyRefuses (cursorIsNone : Bool) : Bool := %s\n" % g2
    t += "def fetchallRefuses (cursorIsNone : Bool) : Bool := %s\n" % g3
    t += "/-- `__init__`: is the cursor it creates an iterator (`true`) or `None` (`false`) -/\n"
    t += "def initCursorLive (rowsNonEmpty : Bool) : Bool := %s\n" % il
    t += "/-- `append`: the condition under which a completing append executes `self._cursor = None` -/\n"
    t += "def appendInvalidates (schemaIsRelation nbytesTracked : Bool) : Bool := %s\n" % ai
    args3 = "fun rowsIsList schemaIsRelation nbytesTracked => "
    t += "/-- `append`, statement by statement: every statement (and every test) it can be left from by an exception, in source\n"
    t += "order, with what has been executed when that statement starts — `self._cursor = None` (`dropped`), `self.materialize()`\n"
    t += "(`materialized`), `self._rows.append(…)` (`stored`) — as functions of the state in which `append` was entered -/\n"
    t += "structure AppendPoint where\n  dropped : Bool → Bool → Bool → Bool\n  materialized : Bool → Bool → Bool → Bool\n  stored : Bool → Bool → Bool → Bool\n"
    t += "def appendPoints : List AppendPoint := [\n"
    for i, (d, m, st) in enumerate(ap[0]):
        t += "  ⟨%s%s, %s%s, %s%s⟩%s%s\n" % (args3, d, args3, m, args3, st, "," if i + 1 < len(ap[0]) else "",
                                           ("  -- %d: %s" % (i, ap[2][i][2].replace("\n", " ")) if ap[2] else ""))
    t += "  ]\n"
    t += "/-- …and the same for an append that completes -/\n"
    t += "def appendDropsCursor (rowsIsList schemaIsRelation nbytesTracked : Bool) : Bool := %s\n" % ap[1][0]
    t += "def appendMaterializes (rowsIsList schemaIsRelation nbytesTracked : Bool) : Bool := %s\n" % ap[1][1]
    t += "def appendStores (rowsIsList schemaIsRelation nbytesTracked : Bool) : Bool := %s\n" % ap[1][2]
    t += "/-- converters.py `_RowsIterator.__next__`: the max_size guard, the counter update, the loop kind -/\n"
    t += "def limitReached (processed maxSize : Int) : Prop := %s\n" % lim
    t += "instance (p m : Int) : Decidable (limitReached p m) := by unfold limitReached; infer_instance\n"
    t += "def processedAfter (processed : Int) : Int := %s\n" % inc
    t += "def skipsEmptyTables : Bool := %s\n" % ("true" if sk else "false")
    t += "/-- the methods that hand out a new frame over rows of this one: does the new frame own its row list\n"
    t += "(`true`), or is it given the parent's own `self._rows` (`false`: two cursors over one list) -/\n"
    for meth, lean in (("slice", "sliceOwnsRows"), ("head", "headOwnsRows"), ("tail", "tailOwnsRows"), ("query", "queryOwnsRows"),
                       ("distinct", "distinctOwnsRows"), ("__add__", "addOwnsRows"), ("to_batches", "batchesOwnsRows")):
        v = o.item("cursor.derived.%s.owns_rows" % meth, lambda meth=meth: owns_rows(src, meth), PINNED["ownsRows"])
        t += "def %s : Bool := %s\n" % (lean, v)
    t += "/-- `select` / `filter` / `take` hand out a new frame over a generator (or over a list of its own) — never `self`,\n"
    t += "never the parent's list -/\n"
    for meth, lean in (("select", "selectIsNewFrame"), ("filter", "filterIsNewFrame"), ("take", "takeIsNewFrame")):
        v = o.item("cursor.derived.%s.new_frame" % meth, lambda meth=meth: owns_rows(src, meth), PINNED["ownsRows"])
        t += "def %s : Bool := %s\n" % (lean, v)
    t += "end Gen.Cursor\n"
    o.files["CursorExpr.lean"] = t
