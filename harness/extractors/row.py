"""Row byte format constants: orso/row.py and the decoder in orso/compute/compiled.pyx."""
import ast
import re

from ..extract import HEADER, Src, lean_bytes, lean_list, lean_str


def generate(o):
    row = Src("orso/row.py")
    pyx = Src("orso/compute/compiled.pyx")
    hs = o.item("row.HEADER_SIZE", lambda: row.assign("HEADER_SIZE"), 14)
    hp = o.item("row.HEADER_PREFIX", lambda: row.assign("HEADER_PREFIX"), b"\x10\x00")
    mx = o.item("row.MAXIMUM_RECORD_SIZE", lambda: row.assign("MAXIMUM_RECORD_SIZE"), 16 * 1024 * 1024)

    def to_bytes_calls():
        fn = row.func("as_bytes", "Row")
        calls = []
        for n in ast.walk(fn):
            if isinstance(n, ast.Call) and isinstance(n.func, ast.Attribute) and n.func.attr == "to_bytes":
                base = n.func.value.id if isinstance(n.func.value, ast.Name) else "?"
                calls.append((n.lineno, n.col_offset, base, ast.literal_eval(n.args[0]), ast.literal_eval(n.args[1])))
        calls.sort()
        d = {c[2]: (c[3], c[4]) for c in calls}
        return [list(d["record_size"]), list(d["timestamp"])]

    tb = o.item("row.to_bytes", to_bytes_calls, [[4, "big"], [8, "big"]])

    def pyx_int(pattern, conv=lambda s: int(s, 0)):
        def g():
            m = re.search(pattern, pyx.text)
            if not m:
                raise KeyError(pattern)
            return conv(m.group(1))

        return g

    dhs = o.item("pyx.HEADER_SIZE", pyx_int(r"^\s*HEADER_SIZE\s*=\s*(\d+)\s*$".replace("^", "(?m)^")), 14)
    mask = o.item("pyx.nibble_mask", pyx_int(r"data_ptr\[0\]\s*&\s*(0x[0-9A-Fa-f]+)"), 0xF0)
    nib = o.item("pyx.nibble_value", pyx_int(r"data_ptr\[0\]\s*&\s*0x[0-9A-Fa-f]+\s*!=\s*(0x[0-9A-Fa-f]+)"), 0x10)

    def shifts():
        ms = re.findall(r"<unsigned char>data_ptr\[(\d+)\]\)(?:\s*<<\s*(\d+))?", pyx.text)
        if len(ms) != 4:
            raise KeyError("length-field shifts")
        return [[int(a), int(b or 0)] for a, b in ms]

    sh = o.item("pyx.length_field", shifts, [[2, 24], [3, 16], [4, 8], [5, 0]])

    def guards():
        g1 = re.search(r"if\s+length\s*(<|<=|>|>=)\s*HEADER_SIZE\s+or", pyx.text)
        g2 = re.search(r"if\s+record_size\s*(!=|==|<|>|<=|>=)\s*length\s*-\s*HEADER_SIZE", pyx.text)
        if not g1 or not g2:
            raise KeyError("guards")
        return [g1.group(1), g2.group(1)]

    gd = o.item("pyx.guards", guards, ["<", "!="])
    big = all(x[1] == "big" for x in tb)
    text = HEADER + "namespace Gen.Row\n"
    text += "def headerSize : Nat := %d\n" % hs
    text += "def headerPrefix : List UInt8 := %s\n" % lean_bytes(hp)
    text += "def maxRecord : Nat := %d\n" % mx
    text += "def lenWidth : Nat := %d\n" % tb[0][0]
    text += "def tsWidth : Nat := %d\n" % tb[1][0]
    text += "def bigEndian : Bool := %s\n" % ("true" if big else "false")
    text += "def decHeaderSize : Nat := %d\n" % dhs
    text += "def nibbleMask : Nat := %d\n" % mask
    text += "def nibbleValue : Nat := %d\n" % nib
    text += "/-- (byte offset, left shift) of the decoder's length field -/\n"
    text += "def lengthField : List (Nat × Nat) := %s\n" % lean_list(sh, lambda p: "(%d, %d)" % (p[0], p[1]))
    text += "def guardSizeOp : String := %s\n" % lean_str(gd[0])
    text += "def guardLenOp : String := %s\n" % lean_str(gd[1])
    text += "end Gen.Row\n"
    o.files["Row.lean"] = text


