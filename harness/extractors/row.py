"""Row byte format constants: orso/row.py and the decoder in orso/compute/compiled.pyx."""
import ast
import re

from ..extract import HEADER, Src, lean_bytes, lean_list, lean_str


def generate(o):
    row = Src("orso/row.py")
    pyx = Src("orso/compute/compiled.pyx")
    hs = o.item("row.HEADER_SIZE", lambda: row.assign("HEADER_SIZE"), 14)
    hp = o.item("row.HEADER_PREFIX", lambda: row.assign("HEADER_PREFIX"), b"\x10\x00")
    mx = o.item("row.MAXIMUM_RECORD_SIZE", lambda: row.assign("MAXIMUM_RECORD_SIZE"), 16 * 1024 * 1024)

    def roles():
        """Which local of `as_bytes` is the payload, its length, the clock — by what is assigned to it, not by name."""
        fn = row.func("as_bytes", "Row")
        r = {}
        for n in ast.walk(fn):
            if isinstance(n, ast.Assign) and len(n.targets) == 1 and isinstance(n.targets[0], ast.Name) and isinstance(n.value, ast.Call):
                f = n.value.func
                name = f.id if isinstance(f, ast.Name) else (f.attr if isinstance(f, ast.Attribute) else None)
                if name == "packb":
                    r[n.targets[0].id] = "payload"
                elif name == "time_ns":
                    r[n.targets[0].id] = "ts"
        for n in ast.walk(fn):
            if isinstance(n, ast.Assign) and len(n.targets) == 1 and isinstance(n.targets[0], ast.Name) and isinstance(n.value, ast.Call) \
                    and isinstance(n.value.func, ast.Name) and n.value.func.id == "len" and len(n.value.args) == 1 \
                    and isinstance(n.value.args[0], ast.Name) and r.get(n.value.args[0].id) == "payload":
                r[n.targets[0].id] = "len"
        return fn, r

    def role_of(e, r):
        """Role of an expression: a local by its role, `len(payload)` and `time.time_ns()` written inline."""
        if isinstance(e, ast.Name):
            if e.id == "HEADER_PREFIX":
                return "prefix"
            return r.get(e.id)
        if isinstance(e, ast.Call):
            f = e.func
            if isinstance(f, ast.Name) and f.id == "len" and len(e.args) == 1 and role_of(e.args[0], r) == "payload":
                return "len"
            if isinstance(f, ast.Attribute) and f.attr == "time_ns":
                return "ts"
        return None

    def to_bytes_calls():
        fn, r = roles()
        d = {}
        for n in ast.walk(fn):
            if isinstance(n, ast.Call) and isinstance(n.func, ast.Attribute) and n.func.attr == "to_bytes":
                d[role_of(n.func.value, r)] = [ast.literal_eval(n.args[0]), ast.literal_eval(n.args[1])]
        return [d["len"], d["ts"]]

    tb = o.item("row.to_bytes", to_bytes_calls, [[4, "big"], [8, "big"]])

    def pyx_int(pattern, conv=lambda s: int(s, 0)):
        def g():
            m = re.search(pattern, pyx.text)
            if not m:
                raise KeyError(pattern)
            return conv(m.group(1))

        return g

    # the locals of `from_bytes_cython` by role (what is assigned to them), so that renaming them changes nothing:
    # the char pointer, the buffer length, the declared payload length, the loop variable
    def fn_text0():
        m = re.search(r"(?ms)^cpdef from_bytes_cython\(.*?(?=^\S)", pyx.text + "\nX")
        return m.group(0) if m else pyx.text

    def local(pattern, default):
        m = re.search(pattern, fn_text0())
        return re.escape(m.group(1)) if m else default

    PTR = local(r"cdef\s+const\s+char\s*\*\s*(\w+)\s*=\s*PyBytes_AsString\(\s*data\s*\)", "data_ptr")
    LEN = local(r"cdef\s+Py_ssize_t\s+(\w+)\s*=\s*PyBytes_GET_SIZE\(\s*data\s*\)", "length")
    SIZE = local(r"cdef\s+(?:Py_ssize_t|int|long)\s+(\w+)\s*=\s*\(?\s*\(\s*<unsigned char>", "record_size")
    ITEM = local(r"(?m)^\s*for\s+(\w+)\s+in\s+\w+\s*:", "item")

    dhs = o.item("pyx.HEADER_SIZE", pyx_int(r"^\s*HEADER_SIZE\s*=\s*(\d+)\s*$".replace("^", "(?m)^")), 14)
    mask = o.item("pyx.nibble_mask", pyx_int(PTR + r"\[0\]\s*&\s*(0x[0-9A-Fa-f]+)"), 0xF0)
    nib = o.item("pyx.nibble_value", pyx_int(PTR + r"\[0\]\s*&\s*0x[0-9A-Fa-f]+\s*!=\s*(0x[0-9A-Fa-f]+)"), 0x10)

    def shifts():
        ms = re.findall(r"<unsigned char>" + PTR + r"\[(\d+)\]\)(?:\s*<<\s*(\d+))?", pyx.text)
        if len(ms) != 4:
            raise KeyError("length-field shifts")
        return [[int(a), int(b or 0)] for a, b in ms]

    sh = o.item("pyx.length_field", shifts, [[2, 24], [3, 16], [4, 8], [5, 0]])

    def guards():
        g1 = re.search(r"if\s+" + LEN + r"\s*(<|<=|>|>=)\s*HEADER_SIZE\s+or", pyx.text)
        g2 = re.search(r"if\s+" + SIZE + r"\s*(!=|==|<|>|<=|>=)\s*" + LEN + r"\s*-\s*HEADER_SIZE", pyx.text)
        if not g1 or not g2:
            raise KeyError("guards")
        return [g1.group(1), g2.group(1)]

    gd = o.item("pyx.guards", guards, ["<", "!="])

    # ---- round 2: more of the control flow of both functions (C01)
    def fn_text():
        m = re.search(r"(?ms)^cpdef from_bytes_cython\(.*?(?=^\S)", pyx.text + "\nX")
        if not m:
            raise KeyError("from_bytes_cython")
        return m.group(0)

    def guard_order():
        t = fn_text()
        pos = {
            "size": re.search(LEN + r"\s*(?:<|<=|>|>=)\s*HEADER_SIZE", t),
            "version": re.search(PTR + r"\[0\]\s*&", t),
            "length": re.search(SIZE + r"\s*(?:!=|==|<|>|<=|>=)\s*" + LEN + r"\s*-\s*HEADER_SIZE", t),
        }
        if not all(pos.values()):
            raise KeyError("guard positions")
        up = re.search(r"unpackb\(", t)
        if not up or up.start() < max(m.start() for m in pos.values()):
            raise KeyError("unpackb before a guard")
        return [k for k, _ in sorted(pos.items(), key=lambda kv: kv[1].start())]

    order = o.item("pyx.guard_order", guard_order, ["size", "version", "length"])

    def payload_start():
        m = re.search(r"unpackb\(\s*data\[\s*(\w+)\s*:\s*\]\s*\)", fn_text())
        if not m:
            raise KeyError("unpackb(data[...:])")
        return dhs if m.group(1) == "HEADER_SIZE" else int(m.group(1), 0)

    pstart = o.item("pyx.payload_start", payload_start, 14)

    def reserved_dec():
        t = fn_text()
        m = re.search(r"isinstance\(" + ITEM + r",\s*list\)\s+and\s+len\(" + ITEM + r"\)\s*==\s*(\d+)\s+and\s+" + ITEM
                      + r"\[(\d+)\]\s*==\s*\"([^\"]*)\"", t)
        a = re.search(r"datetime\.fromtimestamp\(\s*" + ITEM + r"\[(\d+)\]\s*\)", t)
        if not m or not a:
            raise KeyError("reserved form test")
        return [int(m.group(1)), int(m.group(2)), m.group(3), int(a.group(1))]

    rsv = o.item("pyx.reserved_form", reserved_dec, [2, 0, "__datetime__", 1])

    def reserved_enc():
        fn = row.func("as_bytes", "Row")
        marks = set()
        for n in ast.walk(fn):
            if isinstance(n, ast.Return) and isinstance(n.value, ast.Tuple) and n.value.elts and isinstance(n.value.elts[0], ast.Constant) \
                    and isinstance(n.value.elts[0].value, str):
                marks.add((n.value.elts[0].value, len(n.value.elts)))
        if len(marks) != 1:
            raise KeyError("serialize markers %r" % (marks,))
        return list(marks.pop())

    rse = o.item("row.reserved_form", reserved_enc, ["__datetime__", 2])

    def cap_test():
        fn, r = roles()
        ops = {ast.Gt: ">", ast.GtE: ">=", ast.Lt: "<", ast.LtE: "<=", ast.Eq: "==", ast.NotEq: "!="}
        for n in ast.walk(fn):
            if isinstance(n, ast.If) and isinstance(n.test, ast.Compare) and len(n.test.ops) == 1 \
                    and isinstance(n.test.comparators[0], ast.Name) and n.test.comparators[0].id == "MAXIMUM_RECORD_SIZE" \
                    and any(isinstance(b, ast.Raise) for b in n.body):
                if role_of(n.test.left, r) != "len":
                    raise KeyError("the cap is compared with something else than len(payload)")
                return ops[type(n.test.ops[0])]
        raise KeyError("cap test")

    cap_op = o.item("row.cap_op", cap_test, ">")

    def layout():
        fn, r = roles()
        rets = [n for n in fn.body if isinstance(n, ast.Return)]
        if len(rets) != 1:
            raise KeyError("return")
        parts = []

        def flat(e):
            if isinstance(e, ast.BinOp) and isinstance(e.op, ast.Add):
                flat(e.left)
                flat(e.right)
                return
            role = role_of(e.func.value, r) if (isinstance(e, ast.Call) and isinstance(e.func, ast.Attribute) and e.func.attr == "to_bytes") \
                else role_of(e, r)
            if role not in ("prefix", "len", "ts", "payload"):
                raise KeyError("part " + ast.unparse(e)[:40])
            parts.append(role)

        flat(rets[0].value)
        return parts

    lay = o.item("row.layout", layout, ["prefix", "len", "ts", "payload"])
    big = all(x[1] == "big" for x in tb)
    text = HEADER + "namespace Gen.Row\n"
    text += "def headerSize : Nat := %d\n" % hs
    text += "def headerPrefix : List UInt8 := %s\n" % lean_bytes(hp)
    text += "def maxRecord : Nat := %d\n" % mx
    text += "def lenWidth : Nat := %d\n" % tb[0][0]
    text += "def tsWidth : Nat := %d\n" % tb[1][0]
    text += "def bigEndian : Bool := %s\n" % ("true" if big else "false")
    text += "def decHeaderSize : Nat := %d\n" % dhs
    text += "def nibbleMask : Nat := %d\n" % mask
    text += "def nibbleValue : Nat := %d\n" % nib
    text += "/-- (byte offset, left shift) of the decoder's length field -/\n"
    text += "def lengthField : List (Nat × Nat) := %s\n" % lean_list(sh, lambda p: "(%d, %d)" % (p[0], p[1]))
    text += "def guardSizeOp : String := %s\n" % lean_str(gd[0])
    text += "def guardLenOp : String := %s\n" % lean_str(gd[1])
    text += "/-- order in which `from_bytes_cython` applies its three tests (all before `unpackb`) -/\n"
    text += "def guardOrder : List String := %s\n" % lean_list(order, lean_str)
    text += "/-- `unpackb(data[payloadStart:])` -/\n"
    text += "def payloadStart : Nat := %d\n" % pstart
    text += "/-- the reserved form on the decoder side: `len(item) == reservedLen and item[reservedIdx] == reservedMarker`, argument `item[reservedArg]` -/\n"
    text += "def reservedLen : Nat := %d\n" % rsv[0]
    text += "def reservedIdx : Nat := %d\n" % rsv[1]
    text += "def reservedMarker : String := %s\n" % lean_str(rsv[2])
    text += "def reservedArg : Nat := %d\n" % rsv[3]
    text += "/-- the reserved form the encoder's `serialize` produces: (marker, tuple length) -/\n"
    text += "def reservedMarkerEnc : String := %s\n" % lean_str(rse[0])
    text += "def reservedLenEnc : Nat := %d\n" % rse[1]
    text += "/-- `if record_size <capOp> MAXIMUM_RECORD_SIZE: raise DataError` with `record_size = len(record_bytes)` -/\n"
    text += "def capOp : String := %s\n" % lean_str(cap_op)
    text += "/-- the parts `as_bytes` concatenates, in order -/\n"
    text += "def frameLayout : List String := %s\n" % lean_list(lay, lean_str)
    text += "end Gen.Row\n"
    o.files["Row.lean"] = text


