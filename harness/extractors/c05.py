"""C05 extraction.

`Generated/Validate.lean` — the type -> Python class table used by RelationSchema.validate
(orso/types.py ORSO_TO_PYTHON_MAP) and CPython's subclass relation among the value classes, re-measured
with issubclass on every run.

`Generated/ValidateFlow.lean` — the *control flow* of `RelationSchema.validate` and `DataFrame.append`,
translated statement by statement from the working tree on every run:

* `columnRule`   the body of the `for column in self.columns` loop as a decision over five Boolean atoms
                 (key present, value is None, column nullable, column typed, isinstance holds) returning the
                 error-dict keys the column is appended to (if/elif/else, early `continue`, sequences);
* `top`          the top level of `validate` as a decision over (data is not a mapping, excess keys exist,
                 errors were collected) returning how the function exits — the order of the checks and which
                 check raises at once;
* `excessAgainst` what the keys are compared with (column names, or names and aliases);
* `appendSteps`  the statements of `DataFrame.append` in source order, classified
                 (validate / build / size / store / count / cursor);
* `schemaReads`, `columnReads`, `hiddenState`  everything `validate` reads from `self` and from a column,
                 resolved through properties and helper methods, and every source of state that is not a
                 declared dataclass field (cached properties, memoising decorators, ad-hoc instance
                 attributes, writes to `self` or to module globals).

Every item degrades to its pinned text when the statement shape is not recognised; the generated text is built
only from a closed vocabulary, so it always compiles.
"""
import ast
import collections
import datetime
import decimal

import numpy

from ..extract import HEADER, Src, lean_list, lean_str
from . import c05_frames as fr
from . import c05_layout as lay
from . import c05_record as rec
from . import c05_rowclass as rc

PINNED = [["BOOLEAN", "bool"], ["BLOB", "bytes"], ["DATE", "date"], ["TIMESTAMP", "datetime"], ["TIME", "time"],
          ["INTERVAL", "timedelta"], ["STRUCT", "dict"], ["DECIMAL", "Decimal"], ["DOUBLE", "float"], ["INTEGER", "int"],
          ["ARRAY", "list"], ["VARCHAR", "str"], ["JSONB", "bytes"], ["NULL", "None"]]


# subclasses of the value classes, defined here so that the extractor (issubclass table) and the harness
# (value pool) talk about the same objects
class MyInt(int):
    pass


class MyStr(str):
    pass


class MyDateTime(datetime.datetime):
    pass


class MyDict(dict):
    pass


CLASSES = {"bool": bool, "int": int, "float": float, "str": str, "bytes": bytes, "date": datetime.date,
           "datetime": datetime.datetime, "time": datetime.time, "timedelta": datetime.timedelta, "dict": dict,
           "Decimal": decimal.Decimal, "list": list, "tuple": tuple, "set": set,
           # unusual but legal values (round 2)
           "bytearray": bytearray, "frozenset": frozenset, "np.int64": numpy.int64, "np.float64": numpy.float64,
           "np.bool": numpy.bool_, "np.str": numpy.str_, "np.ndarray": numpy.ndarray,
           "OrderedDict": collections.OrderedDict, "defaultdict": collections.defaultdict,
           "MyInt": MyInt, "MyStr": MyStr, "MyDateTime": MyDateTime, "MyDict": MyDict}

KEY_MISSING = "Column in Schema Not Found in Record"
KEY_NULL = "Column not Nullable"
KEY_WRONG = "Incorrect Type"

PIN_RULE = ("(if (!present) then [%s] else (if isNone then (if (!nullable) then [%s] else []) else "
            "(if (typed && (!inst)) then [%s] else [])))" % (lean_str(KEY_MISSING), lean_str(KEY_NULL), lean_str(KEY_WRONG)))
PIN_TOP = "(if notMapping then Exit.typeError else (if excess then Exit.excess else (if errors then Exit.invalid else Exit.ok)))"
PIN_STEPS = ["materialize", "cursor", "coerce", "validate", "build", "size", "store", "count", "cursor"]   # the tree as repaired (F02, F03)
STEP_NAMES = {"validate", "build", "size", "store", "count", "cursor", "materialize", "coerce"}


class Unrecognised(Exception):
    pass


def _cls(tree, name):
    for n in tree.body:
        if isinstance(n, ast.ClassDef) and n.name == name:
            return n
    raise Unrecognised("class %s" % name)


def _method(cls, name):
    for n in cls.body:
        if isinstance(n, ast.FunctionDef) and n.name == name:
            return n
    raise Unrecognised("method %s" % name)


def _is_docstring(st):
    return isinstance(st, ast.Expr) and isinstance(st.value, ast.Constant) and isinstance(st.value.value, str)


# ----------------------------------------------------------------------------- validate: the loop body


class LoopTranslator:
    """`for <col> in self.columns:` body -> Lean `List String` over the atoms present/isNone/nullable/typed/inst."""

    def __init__(self, col, data):
        self.col, self.data = col, data
        self.value_names = set()
        self.keys = []

    def lookup_texts(self):
        base = "%s[%s.name]" % (self.data, self.col)
        return {base} | set(self.value_names)

    def cond(self, n):
        t = ast.unparse(n)
        col, data = self.col, self.data
        if isinstance(n, ast.UnaryOp) and isinstance(n.op, ast.Not):
            return "(!%s)" % self.cond(n.operand)
        if isinstance(n, ast.BoolOp):
            j = " && " if isinstance(n.op, ast.And) else " || "
            return "(" + j.join(self.cond(v) for v in n.values) + ")"
        if t == "%s.name in %s" % (col, data):
            return "present"
        if t == "%s.name not in %s" % (col, data):
            return "(!present)"
        if t == "%s.nullable" % col:
            return "nullable"
        if t in ("%s.type != OrsoTypes._MISSING_TYPE" % col, "%s.type is not OrsoTypes._MISSING_TYPE" % col,
                 "OrsoTypes._MISSING_TYPE != %s.type" % col):
            return "typed"
        if t in ("%s.type == OrsoTypes._MISSING_TYPE" % col, "%s.type is OrsoTypes._MISSING_TYPE" % col,
                 "OrsoTypes._MISSING_TYPE == %s.type" % col):
            return "(!typed)"
        for v in self.lookup_texts():
            if t == "%s is None" % v:
                return "isNone"
            if t == "%s is not None" % v:
                return "(!isNone)"
            if t == "isinstance(%s, ORSO_TO_PYTHON_MAP[%s.type])" % (v, col):
                return "inst"
        raise Unrecognised("condition %s" % t[:60])

    def block(self, stmts):
        if not stmts:
            return "[]"
        st, rest = stmts[0], list(stmts[1:])
        if isinstance(st, ast.Pass) or _is_docstring(st):
            return self.block(rest)
        if isinstance(st, ast.Continue):
            return "[]"
        if isinstance(st, ast.Assign) and len(st.targets) == 1 and isinstance(st.targets[0], ast.Name) \
                and ast.unparse(st.value) == "%s[%s.name]" % (self.data, self.col):
            self.value_names.add(st.targets[0].id)
            return self.block(rest)
        if isinstance(st, ast.Expr) and isinstance(st.value, ast.Call):
            c = st.value
            f = c.func
            if isinstance(f, ast.Attribute) and f.attr == "append" and isinstance(f.value, ast.Subscript) \
                    and isinstance(f.value.value, ast.Name) and f.value.value.id == "errors" \
                    and isinstance(f.value.slice, ast.Constant) and isinstance(f.value.slice.value, str) and len(c.args) == 1:
                # what is appended must name the column: `column.name` or a tuple starting with it
                a = c.args[0]
                first = a.elts[0] if isinstance(a, ast.Tuple) and a.elts else a
                if ast.unparse(first) != "%s.name" % self.col:
                    raise Unrecognised("appended value %s" % ast.unparse(a)[:40])
                key = f.value.slice.value
                self.keys.append(key)
                tail = self.block(rest)
                return "(%s :: %s)" % (lean_str(key), tail)
        if isinstance(st, ast.If):
            return "(if %s then %s else %s)" % (self.cond(st.test), self.block(list(st.body) + rest),
                                                 self.block(list(st.orelse) + rest))
        raise Unrecognised("statement %s" % ast.unparse(st)[:60])


class LoopTranslatorE(LoopTranslator):
    """The same loop body with Python's evaluation order: a test is evaluated left to right and short-circuits,
    `data[col.name]` raises KeyError when the key is absent, `ORSO_TO_PYTHON_MAP[col.type]` raises KeyError for an
    untyped column.  -> Lean `Option (List String)` (`none` = an exception escapes the loop)."""

    def __init__(self, col, data):
        super().__init__(col, data)
        self.aliases = set()

    def value_ok(self, v):
        return "true" if v in self.aliases else "present"

    def condE(self, n):
        t = ast.unparse(n)
        col, data = self.col, self.data
        if isinstance(n, ast.UnaryOp) and isinstance(n.op, ast.Not):
            return "(notE %s)" % self.condE(n.operand)
        if isinstance(n, ast.BoolOp):
            vs = [self.condE(v) for v in n.values]
            acc = vs[-1]
            for v in reversed(vs[:-1]):
                acc = "(%s %s %s)" % ("andE" if isinstance(n.op, ast.And) else "orE", v, acc)
            return acc
        plain = {"%s.name in %s" % (col, data): "present", "%s.name not in %s" % (col, data): "(!present)", "%s.nullable" % col: "nullable"}
        if t in plain:
            return "(some %s)" % plain[t]
        if t in ("%s.type != OrsoTypes._MISSING_TYPE" % col, "%s.type is not OrsoTypes._MISSING_TYPE" % col, "OrsoTypes._MISSING_TYPE != %s.type" % col):
            return "(some typed)"
        if t in ("%s.type == OrsoTypes._MISSING_TYPE" % col, "%s.type is OrsoTypes._MISSING_TYPE" % col, "OrsoTypes._MISSING_TYPE == %s.type" % col):
            return "(some (!typed))"
        for v in sorted(self.lookup_texts()):
            if t == "%s is None" % v:
                return "(valueE %s isNone)" % self.value_ok(v)
            if t == "%s is not None" % v:
                return "(valueE %s (!isNone))" % self.value_ok(v)
            if t == "isinstance(%s, ORSO_TO_PYTHON_MAP[%s.type])" % (v, col):
                return "(valueE (%s && typed) inst)" % self.value_ok(v)
        raise Unrecognised("condition %s" % t[:60])

    def blockE(self, stmts):
        if not stmts:
            return "(some [])"
        st, rest = stmts[0], list(stmts[1:])
        if isinstance(st, ast.Pass) or _is_docstring(st):
            return self.blockE(rest)
        if isinstance(st, ast.Continue):
            return "(some [])"
        if isinstance(st, ast.Assign) and len(st.targets) == 1 and isinstance(st.targets[0], ast.Name) \
                and ast.unparse(st.value) == "%s[%s.name]" % (self.data, self.col):
            self.value_names.add(st.targets[0].id)
            self.aliases.add(st.targets[0].id)
            return "(if present then %s else none)" % self.blockE(rest)
        if isinstance(st, ast.Expr) and isinstance(st.value, ast.Call):
            c = st.value
            f = c.func
            if isinstance(f, ast.Attribute) and f.attr == "append" and isinstance(f.value, ast.Subscript) \
                    and isinstance(f.value.value, ast.Name) and f.value.value.id == "errors" \
                    and isinstance(f.value.slice, ast.Constant) and isinstance(f.value.slice.value, str) and len(c.args) == 1:
                a = c.args[0]
                first = a.elts[0] if isinstance(a, ast.Tuple) and a.elts else a
                if ast.unparse(first) != "%s.name" % self.col:
                    raise Unrecognised("appended value %s" % ast.unparse(a)[:40])
                return "(consE %s %s)" % (lean_str(f.value.slice.value), self.blockE(rest))
        if isinstance(st, ast.If):
            return "(iteE %s %s %s)" % (self.condE(st.test), self.blockE(list(st.body) + rest), self.blockE(list(st.orelse) + rest))
        raise Unrecognised("statement %s" % ast.unparse(st)[:60])


# ----------------------------------------------------------------------------- validate: the top level


def translate_top(fn):
    """Returns (lean text of `top`, excessAgainst, loop node)."""
    args = [a.arg for a in fn.args.args]
    if len(args) != 2 or args[0] != "self":
        raise Unrecognised("signature")
    data = args[1]
    state = {"excess_name": None, "against": None, "loop": None, "errors_init": False}

    def excess_expr(v):
        # set(data.keys()) - set(<col>.name for <col> in self.columns)   |  set(data) - set(self.column_names) | ... all_column_names()
        if not (isinstance(v, ast.BinOp) and isinstance(v.op, ast.Sub)):
            raise Unrecognised("excess expression %s" % ast.unparse(v)[:60])
        left = ast.unparse(v.left)
        if left not in ("set(%s.keys())" % data, "set(%s)" % data, "%s.keys()" % data):
            raise Unrecognised("excess left %s" % left[:40])
        r = v.right
        if isinstance(r, ast.Call) and isinstance(r.func, ast.Name) and r.func.id in ("set", "frozenset") and len(r.args) == 1:
            r = r.args[0]
        if isinstance(r, (ast.GeneratorExp, ast.ListComp, ast.SetComp)) and len(r.generators) == 1 \
                and ast.unparse(r.generators[0].iter) == "self.columns" and not r.generators[0].ifs \
                and isinstance(r.generators[0].target, ast.Name) \
                and ast.unparse(r.elt) == "%s.name" % r.generators[0].target.id:
            return "name"
        if ast.unparse(r) == "self.column_names":
            return "name"
        if ast.unparse(r) == "self.all_column_names()":
            return "all_names"
        raise Unrecognised("excess right %s" % ast.unparse(r)[:40])

    def atom(n):
        t = ast.unparse(n)
        if isinstance(n, ast.UnaryOp) and isinstance(n.op, ast.Not):
            return "(!%s)" % atom(n.operand)
        if t in ("isinstance(%s, MutableMapping)" % data, "isinstance(%s, Mapping)" % data, "isinstance(%s, dict)" % data,
                 "isinstance(%s, collections.abc.MutableMapping)" % data, "isinstance(%s, collections.abc.Mapping)" % data):
            # WHICH objects pass the test is `Gen.AppendFlow.guardAccepts`
            return "(!notMapping)"
        if state["excess_name"] and t in (state["excess_name"], "len(%s) > 0" % state["excess_name"]):
            return "excess"
        if t in ("errors", "len(errors) > 0"):
            if state["loop"] is None or not state["errors_init"]:
                raise Unrecognised("errors tested before the loop")
            return "errors"
        raise Unrecognised("top-level condition %s" % t[:60])

    def exit_of(st):
        if isinstance(st, ast.Return):
            return "Exit.ok" if (isinstance(st.value, ast.Constant) and st.value.value is True) else "Exit.other"
        if isinstance(st, ast.Raise) and isinstance(st.exc, ast.Call) and isinstance(st.exc.func, ast.Name):
            nm = st.exc.func.id
            if nm == "TypeError":
                return "Exit.typeError"
            if nm == "ExcessColumnsInDataError":
                kw = {k.arg: ast.unparse(k.value) for k in st.exc.keywords}
                if kw.get("columns") != state["excess_name"] and [ast.unparse(a) for a in st.exc.args] != [state["excess_name"]]:
                    raise Unrecognised("ExcessColumnsInDataError argument")
                return "Exit.excess"
            if nm == "DataValidationError":
                kw = {k.arg: ast.unparse(k.value) for k in st.exc.keywords}
                if kw.get("errors") != "errors" and [ast.unparse(a) for a in st.exc.args] != ["errors"]:
                    raise Unrecognised("DataValidationError argument")
                return "Exit.invalid"
        return None

    def block(stmts):
        if not stmts:
            return "Exit.other"
        st, rest = stmts[0], list(stmts[1:])
        if isinstance(st, ast.Pass) or _is_docstring(st):
            return block(rest)
        e = exit_of(st)
        if e is not None:
            return e
        if isinstance(st, ast.Assign) and len(st.targets) == 1 and isinstance(st.targets[0], ast.Name):
            nm = st.targets[0].id
            if ast.unparse(st.value) in ("defaultdict(list)", "collections.defaultdict(list)") and nm == "errors":
                if state["loop"] is not None:
                    raise Unrecognised("errors re-initialised after the loop")
                state["errors_init"] = True
                return block(rest)
            if state["excess_name"] is None:
                state["against"] = excess_expr(st.value)
                state["excess_name"] = nm
                return block(rest)
        if isinstance(st, ast.For) and ast.unparse(st.iter) == "self.columns" and isinstance(st.target, ast.Name) and not st.orelse:
            if state["loop"] is not None:
                raise Unrecognised("two loops")
            state["loop"] = st
            return block(rest)
        if isinstance(st, ast.If):
            return "(if %s then %s else %s)" % (atom(st.test), block(list(st.body) + rest), block(list(st.orelse) + rest))
        raise Unrecognised("top-level statement %s" % ast.unparse(st)[:60])

    text = block(list(fn.body))
    if state["loop"] is None or state["against"] is None:
        raise Unrecognised("loop or excess check not found")
    return text, state["against"], state["loop"], data


# ----------------------------------------------------------------------------- what validate reads


STATELESS_DECORATORS = {"property", "staticmethod", "classmethod"}


def _fields(cls):
    return [n.target.id for n in cls.body if isinstance(n, ast.AnnAssign) and isinstance(n.target, ast.Name)]


def reads_of(tree, cls_name, fn_name, col_cls_name):
    """(schema fields read, column fields read, hidden state) of a method, through properties and helpers."""
    cls, col_cls = _cls(tree, cls_name), _cls(tree, col_cls_name)
    s_fields, c_fields = set(_fields(cls)), set(_fields(col_cls))
    members = {n.name: n for n in cls.body if isinstance(n, ast.FunctionDef)}
    col_members = {n.name: n for n in col_cls.body if isinstance(n, ast.FunctionDef)}
    s_reads, c_reads, hidden = set(), set(), set()
    seen = set()

    def decorators(fn):
        out = []
        for d in fn.decorator_list:
            d = d.func if isinstance(d, ast.Call) else d
            out.append(d.attr if isinstance(d, ast.Attribute) else getattr(d, "id", "?"))
        return out

    def locals_of(fn):
        names = {a.arg for a in fn.args.args + fn.args.kwonlyargs}
        for n in ast.walk(fn):
            if isinstance(n, ast.Name) and isinstance(n.ctx, ast.Store):
                names.add(n.id)
        return names

    def visit(fn, owner, self_name, col_vars):
        key = (owner, fn.name)
        if key in seen:
            return
        seen.add(key)
        for d in decorators(fn):
            if d not in STATELESS_DECORATORS:
                hidden.add("%s.%s is decorated with %s" % (owner, fn.name, d))
        loc = locals_of(fn)
        col_vars = set(col_vars)
        for n in ast.walk(fn):
            gens = []
            if isinstance(n, ast.For):
                gens = [(n.target, n.iter)]
            elif isinstance(n, (ast.GeneratorExp, ast.ListComp, ast.SetComp, ast.DictComp)):
                gens = [(g.target, g.iter) for g in n.generators]
            for tgt, it in gens:
                if isinstance(tgt, ast.Name) and owner == cls_name and ast.unparse(it) in ("%s.columns" % self_name, "%s.columns[:]" % self_name):
                    col_vars.add(tgt.id)
                if isinstance(tgt, ast.Tuple) and owner == cls_name and ast.unparse(it) == "enumerate(%s.columns)" % self_name \
                        and len(tgt.elts) == 2 and isinstance(tgt.elts[1], ast.Name):
                    col_vars.add(tgt.elts[1].id)
        for n in ast.walk(fn):
            if isinstance(n, (ast.Global, ast.Nonlocal)):
                hidden.add("%s.%s declares %s" % (owner, fn.name, ast.unparse(n)))
            if isinstance(n, (ast.Attribute, ast.Subscript)) and isinstance(n.ctx, (ast.Store, ast.Del)):
                base = n
                while isinstance(base, (ast.Attribute, ast.Subscript)):
                    base = base.value
                if isinstance(base, ast.Name) and (base.id == self_name or base.id in col_vars or base.id not in loc):
                    hidden.add("%s.%s writes %s" % (owner, fn.name, ast.unparse(n)[:40]))
            if isinstance(n, ast.Attribute) and isinstance(n.ctx, ast.Load) and isinstance(n.value, ast.Name):
                if n.value.id == self_name:
                    fields, mem, reads = (s_fields, members, s_reads) if owner == cls_name else (c_fields, col_members, c_reads)
                    if n.attr in fields:
                        reads.add(n.attr)
                    elif n.attr in mem:
                        visit(mem[n.attr], owner, mem[n.attr].args.args[0].arg if mem[n.attr].args.args else "self", ())
                    else:
                        hidden.add("%s.%s reads %s.%s, which is not a declared field" % (owner, fn.name, self_name, n.attr))
                elif n.value.id in col_vars:
                    if n.attr in c_fields:
                        c_reads.add(n.attr)
                    elif n.attr in col_members:
                        m = col_members[n.attr]
                        visit(m, col_cls_name, m.args.args[0].arg if m.args.args else "self", ())
                    else:
                        hidden.add("%s.%s reads column.%s, which is not a declared field" % (owner, fn.name, n.attr))

    fn = members.get(fn_name)
    if fn is None:
        raise Unrecognised("method %s" % fn_name)
    visit(fn, cls_name, "self", ())
    return sorted(s_reads), sorted(c_reads), sorted(hidden), sorted(s_fields), sorted(c_fields)


# ----------------------------------------------------------------------------- DataFrame.append


def append_steps(fn):
    args = [a.arg for a in fn.args.args]
    if len(args) != 2:
        raise Unrecognised("signature")
    out = []

    def classify(st):
        tags = []
        for n in ast.walk(st):
            if isinstance(n, ast.Call) and isinstance(n.func, ast.Attribute):
                t = ast.unparse(n.func)
                if n.func.attr == "validate":
                    tags.append((n.lineno, n.col_offset, "validate"))
                elif t == "self._row_factory":
                    tags.append((n.lineno, n.col_offset, "build"))
                elif n.func.attr == "nbytes":
                    tags.append((n.lineno, n.col_offset, "size"))
                elif t == "self._rows.append":
                    tags.append((n.lineno, n.col_offset, "store"))
                elif t == "self.materialize":
                    tags.append((n.lineno, n.col_offset, "materialize"))
            if isinstance(n, ast.Call) and ast.unparse(n.func) == "dict" and len(n.args) == 1 and ast.unparse(n.args[0]) == args[1]:
                tags.append((n.lineno, n.col_offset, "coerce"))
            if isinstance(n, ast.AugAssign) and ast.unparse(n.target) == "self._nbytes":
                # `self._nbytes += new_row.nbytes()` sizes, then counts
                tags.append((n.end_lineno, n.end_col_offset, "count"))
            if isinstance(n, ast.Assign) and [ast.unparse(t) for t in n.targets] == ["self._cursor"]:
                tags.append((n.lineno, n.col_offset, "cursor"))
        if not tags:
            raise Unrecognised("statement %s" % ast.unparse(st)[:60])
        return [t[2] for t in sorted(tags)]

    for st in fn.body:
        if _is_docstring(st) or isinstance(st, ast.Pass):
            continue
        out.extend(classify(st))
    if out.count("store") != 1 or out.count("validate") != 1:
        raise Unrecognised("append does not store / validate exactly once")
    return out


# ----------------------------------------------------------------------------- entry point


def generate(o):
    types = Src("orso/types.py")

    def table():
        for node in types.tree.body:
            tgt = node.target if isinstance(node, ast.AnnAssign) else (node.targets[0] if isinstance(node, ast.Assign) else None)
            if isinstance(tgt, ast.Name) and tgt.id == "ORSO_TO_PYTHON_MAP":
                out = []
                for k, v in zip(node.value.keys, node.value.values):
                    name = k.attr  # OrsoTypes.X
                    if isinstance(v, ast.Constant) and v.value is None:
                        cls = "None"
                    elif isinstance(v, ast.Attribute):
                        cls = v.attr
                    else:
                        cls = v.id
                    out.append([name, cls])
                return out
        raise KeyError("ORSO_TO_PYTHON_MAP")

    tbl = o.item("types.ORSO_TO_PYTHON_MAP", table, PINNED)
    sub = sorted([a, b] for a, ca in CLASSES.items() for b, cb in CLASSES.items() if issubclass(ca, cb))
    o.json["cpython.subclass"] = sub
    text = HEADER + "namespace Gen.Validate\n"
    text += "/-- ORSO_TO_PYTHON_MAP: column type -> name of the Python class a value must be an instance of -/\n"
    text += "def pythonClass : List (String × String) := %s\n" % lean_list(tbl, lambda p: "(%s, %s)" % (lean_str(p[0]), lean_str(p[1])))
    text += "/-- issubclass(a, b) among the value classes, measured on the running interpreter -/\n"
    text += "def subclass : List (String × String) := %s\n" % lean_list(sub, lambda p: "(%s, %s)" % (lean_str(p[0]), lean_str(p[1])))
    text += "end Gen.Validate\n"
    o.files["Validate.lean"] = text

    # ---- control flow
    schema = Src("orso/schema.py")
    frame = Src("orso/dataframe.py")

    def flow():
        fn = _method(_cls(schema.tree, "RelationSchema"), "validate")
        top, against, loop, data = translate_top(fn)
        tr = LoopTranslator(loop.target.id, data)
        rule = tr.block(list(loop.body))
        rule_e = LoopTranslatorE(loop.target.id, data).blockE(list(loop.body))
        return {"top": top, "against": against, "rule": rule, "keys": sorted(set(tr.keys)), "rule_e": rule_e}

    fl = o.item("schema.validate.flow", flow, {"top": PIN_TOP, "against": "name", "rule": PIN_RULE,
                                                "keys": sorted([KEY_MISSING, KEY_NULL, KEY_WRONG]),
                                                "rule_e": "(some (columnRule present isNone nullable typed inst))"})

    def reads():
        s_r, c_r, hidden, s_f, c_f = reads_of(schema.tree, "RelationSchema", "validate", "FlatColumn")
        return {"schema": s_r, "column": c_r, "hidden": hidden, "schema_fields": s_f, "column_fields": c_f}

    rd = o.item("schema.validate.reads", reads, {"schema": ["columns"], "column": ["name", "nullable", "type"], "hidden": [],
                                                 "schema_fields": ["columns"], "column_fields": ["name", "nullable", "type"]})

    def steps():
        return append_steps(_method(_cls(frame.tree, "DataFrame"), "append"))

    st = o.item("dataframe.append.steps", steps, PIN_STEPS)
    st = [s for s in st if s in STEP_NAMES]

    def validate_guard():
        """does `append` validate only when the frame's schema is a RelationSchema (a frame built from dictionaries or
        on a list of names has no schema object to validate against)?"""
        fn = _method(_cls(frame.tree, "DataFrame"), "append")
        for top in fn.body:
            for n in ast.walk(top):
                if isinstance(n, ast.Call) and isinstance(n.func, ast.Attribute) and n.func.attr == "validate":
                    if isinstance(top, ast.If) and ast.unparse(top.test) == "isinstance(self._schema, RelationSchema)" \
                            and any(n in list(ast.walk(b)) for b in top.body):
                        return True
                    if top is not None and not isinstance(top, ast.If):
                        return False
                    raise Unrecognised("validate under %s" % ast.unparse(top.test)[:50])
        raise Unrecognised("no validate call")

    guarded = o.item("dataframe.append.validate_guard", validate_guard, True)

    t = HEADER + "set_option linter.unusedVariables false\nnamespace Gen.ValidateFlow\n"
    t += "/-- how `validate` exits -/\ninductive Exit where\n  | typeError | excess | invalid | ok | other\n  deriving DecidableEq, Repr\n"
    t += "/-- what `DataFrame.append` does, statement by statement -/\ninductive Step where\n  | validate | coerce | build | size | materialize | store | count | cursor\n  deriving DecidableEq, Repr\n"
    t += "/-- schema.py `RelationSchema.validate`, the body of `for column in self.columns`: the error-dict keys a column is appended to -/\n"
    t += "def columnRule (present isNone nullable typed inst : Bool) : List String :=\n  %s\n" % fl["rule"]
    t += "/-- a test that may raise (`none`): `and` / `or` evaluate left to right and short-circuit -/\n"
    t += "def andE (a b : Option Bool) : Option Bool := match a with\n  | some true => b\n  | other => other\n"
    t += "def orE (a b : Option Bool) : Option Bool := match a with\n  | some false => b\n  | other => other\n"
    t += "def notE (a : Option Bool) : Option Bool := a.map (!·)\n"
    t += "/-- a test on `data[column.name]` / `ORSO_TO_PYTHON_MAP[column.type]`: raises KeyError unless the key is there -/\n"
    t += "def valueE (there v : Bool) : Option Bool := if there then some v else none\n"
    t += "def iteE (c : Option Bool) (t e : Option (List String)) : Option (List String) := match c with\n  | none => none\n  | some true => t\n  | some false => e\n"
    t += "def consE (k : String) (r : Option (List String)) : Option (List String) := r.map (k :: ·)\n"
    t += "/-- the same loop body with Python's evaluation order: `none` = an exception (KeyError) escapes the loop -/\n"
    t += "def columnRuleE (present isNone nullable typed inst : Bool) : Option (List String) :=\n  %s\n" % fl["rule_e"]
    t += "/-- schema.py `RelationSchema.validate`, top level: the order of the checks and how the function exits -/\n"
    t += "def top (notMapping excess errors : Bool) : Exit :=\n  %s\n" % fl["top"]
    t += "/-- what the record's keys are compared with: \"name\" (column names) or \"all_names\" (names and aliases) -/\n"
    t += "def excessAgainst : String := %s\n" % lean_str(fl["against"])
    t += "/-- the error-dict keys used in the loop -/\ndef errorKeys : List String := %s\n" % lean_list(fl["keys"], lean_str)
    t += "/-- dataframe.py `DataFrame.append`: its statements in source order -/\n"
    t += "def appendSteps : List Step := %s\n" % lean_list(st, lambda s: "Step." + s)
    t += "/-- dataframe.py `DataFrame.append`: is the record validated only when the frame's schema is a RelationSchema? -/\n"
    t += "def appendValidateGuarded : Bool := %s\n" % ("true" if guarded else "false")
    t += "/-- dataclass fields of RelationSchema that `validate` reads (through properties and helper methods) -/\n"
    t += "def schemaReads : List String := %s\n" % lean_list(rd["schema"], lean_str)
    t += "/-- dataclass fields of a column that `validate` reads -/\n"
    t += "def columnReads : List String := %s\n" % lean_list(rd["column"], lean_str)
    t += "/-- state `validate` depends on that is not a declared field: cached properties, memoising decorators, undeclared attributes, writes -/\n"
    t += "def hiddenState : List String := %s\n" % lean_list(rd["hidden"], lean_str)
    t += "def schemaFields : List String := %s\n" % lean_list(rd["schema_fields"], lean_str)
    t += "def columnFields : List String := %s\n" % lean_list(rd["column_fields"], lean_str)
    t += "end Gen.ValidateFlow\n"
    o.files["ValidateFlow.lean"] = t

    # ---- what a record object may be, and who owns a frame's row list
    rowsrc = Src("orso/row.py")
    frame_cls = lambda: _cls(frame.tree, "DataFrame")
    items = {
        "guard": o.item("schema.validate.guard", lambda: fr.validate_guard(_method(_cls(schema.tree, "RelationSchema"), "validate")), fr.PIN_GUARD),
        "coerce": o.item("dataframe.append.coerce", lambda: fr.coerce_guard(_method(frame_cls(), "append")), fr.PIN_COERCE),
        "rowreads": o.item("row.new.reads", lambda: fr.row_reads(_method(_cls(rowsrc.tree, "Row"), "__new__")), fr.PIN_ROWREADS),
        "slice": o.item("dataframe.slice.tree", lambda: fr.slice_tree(_method(frame_cls(), "slice")), fr.PIN_SLICE),
        "head": o.item("dataframe.head.call", lambda: fr.slice_call(_method(frame_cls(), "head")), fr.PIN_HEAD),
        "tail": o.item("dataframe.tail.call", lambda: fr.slice_call(_method(frame_cls(), "tail")), fr.PIN_TAIL),
        "derived": o.item("dataframe.derived.rows", lambda: fr.derived_rows(frame_cls()), fr.PIN_DERIVED),
        "errors": o.item("exceptions.validation.errors", lambda: fr.error_classes(Src("orso/exceptions.py").tree), fr.PIN_ERRORS),
    }
    o.files["AppendFlow.lean"] = fr.lean_text(HEADER, items)

    # ---- where a frame's row class comes from
    conv = Src("orso/converters.py")
    facts = o.item("row.create_class", lambda: rc.create_class_facts(rowsrc.tree), rc.PIN)
    flags = o.item("row.create_class.callers", lambda: rc.call_flags(rowsrc.tree, frame.tree, conv.tree), rc.PIN_FLAGS)
    o.files["RowClass.lean"] = rc.lean_text(HEADER, facts, flags)

    # ---- how a stored row is laid out, and how large a record may be
    rel = o.item("dataframe.append.relayout", lambda: lay.resolve_relayout(frame.tree, schema.tree), lay.PIN_RELAYOUT)
    it = o.item("schema.iter", lambda: lay.schema_iter(schema.tree), lay.PIN_ITER)
    ff = o.item("row.create_class.fields", lambda: lay.class_fields_from(rowsrc.tree), lay.PIN_FIELDS)
    size = o.item("row.as_bytes.size", lambda: lay.size_facts(rowsrc.tree), lay.PIN_SIZE)
    o.files["Layout.lean"] = lay.lean_text(HEADER, rel, it, ff, size)

    # ---- what validate / append do with the caller's record object beyond reading it
    use = o.item("record.use", lambda: rec.facts(_method(_cls(schema.tree, "RelationSchema"), "validate"), _method(frame_cls(), "append")), rec.PIN)
    o.files["RecordUse.lean"] = rec.lean_text(HEADER, use, lean_list, lean_str)
