"""C05: the type -> Python class table used by RelationSchema.validate (orso/types.py ORSO_TO_PYTHON_MAP)
and CPython's subclass relation among the value classes, re-measured with issubclass on every run."""
import ast
import datetime
import decimal

from ..extract import HEADER, Src, lean_list, lean_str

PINNED = [["BOOLEAN", "bool"], ["BLOB", "bytes"], ["DATE", "date"], ["TIMESTAMP", "datetime"], ["TIME", "time"],
          ["INTERVAL", "timedelta"], ["STRUCT", "dict"], ["DECIMAL", "Decimal"], ["DOUBLE", "float"], ["INTEGER", "int"],
          ["ARRAY", "list"], ["VARCHAR", "str"], ["JSONB", "bytes"], ["NULL", "None"]]

CLASSES = {"bool": bool, "int": int, "float": float, "str": str, "bytes": bytes, "date": datetime.date,
           "datetime": datetime.datetime, "time": datetime.time, "timedelta": datetime.timedelta, "dict": dict,
           "Decimal": decimal.Decimal, "list": list, "tuple": tuple, "set": set}


def generate(o):
    types = Src("orso/types.py")

    def table():
        for node in types.tree.body:
            tgt = node.target if isinstance(node, ast.AnnAssign) else (node.targets[0] if isinstance(node, ast.Assign) else None)
            if isinstance(tgt, ast.Name) and tgt.id == "ORSO_TO_PYTHON_MAP":
                out = []
                for k, v in zip(node.value.keys, node.value.values):
                    name = k.attr  # OrsoTypes.X
                    if isinstance(v, ast.Constant) and v.value is None:
                        cls = "None"
                    elif isinstance(v, ast.Attribute):
                        cls = v.attr
                    else:
                        cls = v.id
                    out.append([name, cls])
                return out
        raise KeyError("ORSO_TO_PYTHON_MAP")

    tbl = o.item("types.ORSO_TO_PYTHON_MAP", table, PINNED)
    sub = sorted([a, b] for a, ca in CLASSES.items() for b, cb in CLASSES.items() if issubclass(ca, cb))
    o.json["cpython.subclass"] = sub
    text = HEADER + "namespace Gen.Validate\n"
    text += "/-- ORSO_TO_PYTHON_MAP: column type -> name of the Python class a value must be an instance of -/\n"
    text += "def pythonClass : List (String × String) := %s\n" % lean_list(tbl, lambda p: "(%s, %s)" % (lean_str(p[0]), lean_str(p[1])))
    text += "/-- issubclass(a, b) among the value classes, measured on the running interpreter -/\n"
    text += "def subclass : List (String × String) := %s\n" % lean_list(sub, lambda p: "(%s, %s)" % (lean_str(p[0]), lean_str(p[1])))
    text += "end Gen.Validate\n"
    o.files["Validate.lean"] = text
