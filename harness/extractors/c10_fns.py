"""C10: `collect_cython`, `extract_dict_columns` and `calculate_data_width`, translated statement by statement from the
working tree's `compiled.pyx` on every run into `Generated/KernelFns.lean` (namespace `Gen.KernelFns`).

The `.pyx` is de-cythonised by `harness/pyxshadow.translate` (the same text the source-level shadow executes: every
unchecked access is an explicit `_uget` / `_uset`), parsed as Python, and each statement becomes one line of a Lean
`do` block in the fault monad of `Model/KernelSem.lean`:

    x = e                         let x := e                (`let x : Int := e` for counts and sizes)
    x = _uget(a, i, kind)         let x ← uget a i          (an unchecked read: outside the object = the fault `oob`;
                                                             nested reads become `(← uget a i)`, evaluated in source order)
    _uset(buf, i, v, 'list')      let buf ← uset buf i v
    _uset(m, (j, i), v, …)        let m ← uset2 m j i v
    if c: x = e                   let x := (if c then e else x)
    if c: raise E(…)              if c then throw (Fault.raises "E") else <rest>
    if / elif / else              if … then <branch; rest> else <branch; rest>
    if p is not _NULL / None      match p with | some p_some => … | none => …
    for i in range(n): …          let s ← forRange n s (fun s i => do … pure s)     (s = the variables the body assigns)
    for v in xs: …                let s ← forEach xs s (fun s v => do … pure s)
    return e                      pure e

`Props/C10.lean` proves `generated_collect_eq_model`, `generated_extract_spec` / `generated_extract_eq_model` and
`generated_width_eq_model`: the translations equal the models every C10 theorem is about (for every input, faults
included).  A change of the `.pyx` that changes what a kernel computes or which memory it touches breaks one of them
(a named theorem) in addition to the failing input the shadow / the binary give; a statement shape the translator does
not know raises `Untranslatable`: the pinned translation (`pinned/c10_fns.json`, of the tree as it is) is used and the
item is reported as degraded.
"""
import ast
import json
import os
import re

from .. import core, pystmt
from ..extract import HEADER, Src, lean_str
from ..pyexpr import Untranslatable

PINNED_FILE = os.path.join(os.path.dirname(os.path.abspath(__file__)), "pinned", "c10_fns.json")

CMP = {ast.Lt: "<", ast.LtE: "≤", ast.Gt: ">", ast.GtE: "≥", ast.Eq: "=", ast.NotEq: "≠"}
ARITH = {ast.Add: "+", ast.Sub: "-", ast.Mult: "*"}
RESERVED = {"fun", "do", "let", "if", "then", "else", "match", "with", "pure", "throw", "null", "uget", "uset", "uset2", "len",
            "forRange", "forEach", "npEmpty", "pyRepeat", "strLen", "at", "from", "have", "show", "end", "in", "Type", "Int", "Nat"}


def _u(n):
    return ast.unparse(n)


def shadow_source(pyx_text, fname):
    """compiled.pyx -> the Python text of one kernel (harness/pyxshadow.py)"""
    from .. import pyxshadow

    lines = pyx_text.split("\n")
    starts = [i for i, l in enumerate(lines) if re.match(r"^(cpdef|def)\s", l)]
    for k, st in enumerate(starts):
        if not re.match(r"^(?:cpdef|def)\s+(?:[\w\.\[\], =]+?\s+)??%s\s*\(" % re.escape(fname), lines[st]):
            continue
        end = starts[k + 1] if k + 1 < len(starts) else len(lines)
        body = []
        for l in lines[st:end]:
            if body and l and not l.startswith((" ", "\t")) and not l.startswith("#"):
                break
            body.append(l)
        try:
            _, py = pyxshadow.translate(body)
        except pyxshadow.ShadowUnavailable as e:
            raise Untranslatable("pyxshadow: %s" % e)
        return py
    raise Untranslatable("%s not found" % fname)


def _is_call(n, name, nargs=None):
    return isinstance(n, ast.Call) and _u(n.func) == name and (nargs is None or len(n.args) == nargs)


def _int_const(n):
    return isinstance(n, ast.Constant) and isinstance(n.value, int) and not isinstance(n.value, bool)


class Kernel:
    """One kernel body -> lines of a Lean `do` block."""

    def __init__(self, params, optional_iter=()):
        self.bound = set(params)      # python names visible here
        self.opt = set()              # names holding an Optional (a `PyDict_GetItem` result, an element of an object array)
        self.narrow = {}              # optional name -> name of its payload inside the `some` branch
        self.ints = set()             # names holding a C integer
        self.optional_iter = set(optional_iter)  # parameters whose elements are Optional (object arrays: None = null)
        self.params = set(params)

    # ------------------------------------------------------------------ expressions

    def name(self, n):
        if n.id in self.narrow:
            return self.narrow[n.id]
        if n.id in self.bound:
            if n.id in RESERVED or not (n.id.isidentifier() and n.id.isascii()):
                raise Untranslatable("variable name %s" % n.id)
            if n.id in self.opt:
                raise Untranslatable("%s may be NULL / None here" % n.id)
            return n.id
        raise Untranslatable("free name %s" % n.id)

    def is_int(self, n):
        if _int_const(n):
            return True
        if isinstance(n, ast.Name):
            return n.id in self.ints
        if isinstance(n, ast.BinOp) and type(n.op) in ARITH:
            return self.is_int(n.left) and self.is_int(n.right)
        if isinstance(n, ast.UnaryOp) and isinstance(n.op, ast.USub):
            return self.is_int(n.operand)
        if _is_call(n, "len", 1) or _is_call(n, "_ob_size", 1) or self.shape0(n) is not None:
            return True
        if _is_call(n, "_uget", 3) and isinstance(n.args[2], ast.Constant) and n.args[2].value == "memview":
            return True     # an element of a typed integer memoryview
        return False

    @staticmethod
    def shape0(n):
        """`(_NoneView if x is None else x).shape[0]` (the de-cythonised `x.shape[0]` of a typed memoryview) -> x"""
        if isinstance(n, ast.Subscript) and _int_const(n.slice) and n.slice.value == 0 and isinstance(n.value, ast.Attribute) \
                and n.value.attr == "shape" and isinstance(n.value.value, ast.IfExp):
            e = n.value.value
            if _u(e.body) == "_NoneView" and isinstance(e.orelse, ast.Name) and _u(e.test) == "%s is None" % e.orelse.id:
                return e.orelse
        return None

    def E(self, n):
        if isinstance(n, ast.Name):
            return self.name(n)
        if isinstance(n, ast.Constant):
            if n.value is None:
                return "null"
            if _int_const(n):
                return "%d" % n.value if n.value >= 0 else "(%d)" % n.value
            raise Untranslatable("constant %r" % (n.value,))
        s0 = self.shape0(n)
        if s0 is not None:
            return "(len %s)" % self.E(s0)
        if isinstance(n, ast.Compare):
            parts, left = [], n.left
            for op, right in zip(n.ops, n.comparators):
                if type(op) not in CMP or not (self.is_int(left) and self.is_int(right)):
                    raise Untranslatable("comparison %s" % _u(n)[:50])
                parts.append("(%s %s %s)" % (self.E(left), CMP[type(op)], self.E(right)))
                left = right
            return parts[0] if len(parts) == 1 else "(" + " ∧ ".join(parts) + ")"
        if isinstance(n, ast.BoolOp):
            return "(" + (" ∧ " if isinstance(n.op, ast.And) else " ∨ ").join(self.cond(v) for v in n.values) + ")"
        if isinstance(n, ast.UnaryOp) and isinstance(n.op, ast.Not):
            return "(¬ %s)" % self.cond(n.operand)
        if isinstance(n, ast.UnaryOp) and isinstance(n.op, ast.USub) and self.is_int(n.operand):
            return "(-%s)" % self.E(n.operand)
        if isinstance(n, ast.BinOp) and type(n.op) in ARITH and self.is_int(n.left) and self.is_int(n.right):
            return "(%s %s %s)" % (self.E(n.left), ARITH[type(n.op)], self.E(n.right))
        if isinstance(n, ast.BinOp) and isinstance(n.op, ast.Mult) and isinstance(n.left, ast.List) and len(n.left.elts) == 1 \
                and isinstance(n.left.elts[0], ast.Constant) and n.left.elts[0].value is None and self.is_int(n.right):
            return "(pyRepeat null %s)" % self.E(n.right)                                   # [None] * n
        if isinstance(n, ast.Call) and not n.keywords:
            if _is_call(n, "len", 1):
                return "(len %s)" % self.E(n.args[0])
            if _is_call(n, "_uget", 3) and isinstance(n.args[2], ast.Constant) and n.args[2].value in ("list", "tuple", "memview"):
                if not self.is_int(n.args[1]):
                    raise Untranslatable("index %s" % _u(n.args[1])[:40])
                return "(← uget %s %s)" % (self.E(n.args[0]), self.E(n.args[1]))
            if _is_call(n, "_cdef_cast", 2) and isinstance(n.args[1], ast.Constant) and n.args[1].value == "list" \
                    and isinstance(n.args[0], ast.BinOp):
                return self.E(n.args[0])         # `cdef list x = [None] * n`: a fresh list is a list
            if _is_call(n, "_dict_getitem", 2) and isinstance(n.args[0], ast.Name) and n.args[0].id == "data" and "data" in self.params:
                return "(DictRow.lookup %s data)" % self.E(n.args[1])
            if _is_call(n, "_ob_size", 1) and _is_call(n.args[0], "str", 1):
                return "((strLen %s : Nat) : Int)" % self.E(n.args[0].args[0])
            if _is_call(n, "tuple", 1) and isinstance(n.args[0], ast.Name):
                return self.E(n.args[0])
        if isinstance(n, ast.Call) and _u(n.func) in ("np.empty", "numpy.empty") and len(n.args) == 1 and isinstance(n.args[0], ast.Tuple) \
                and len(n.args[0].elts) == 2 and [k.arg for k in n.keywords] == ["dtype"] and _u(n.keywords[0].value) == "object":
            a, b = n.args[0].elts
            if not (self.is_int(a) and self.is_int(b)):
                raise Untranslatable("shape %s" % _u(n.args[0]))
            return "(npEmpty null %s %s)" % (self.E(a), self.E(b))
        raise Untranslatable("%s: %s" % (type(n).__name__, _u(n)[:60]))

    def cond(self, n):
        if isinstance(n, (ast.Compare, ast.BoolOp)) or (isinstance(n, ast.UnaryOp) and isinstance(n.op, ast.Not)):
            return self.E(n)
        raise Untranslatable("truth value of %s" % _u(n)[:40])

    def effect_free(self, n):
        return not any(isinstance(x, ast.Call) and _u(x.func) in ("_uget", "_uset", "_dict_getitem") for x in ast.walk(n))

    # ------------------------------------------------------------------ statements

    def save(self):
        return set(self.bound), set(self.opt), dict(self.narrow), set(self.ints)

    def restore(self, st):
        self.bound, self.opt, self.narrow, self.ints = set(st[0]), set(st[1]), dict(st[2]), set(st[3])

    @staticmethod
    def assigned(stmts):
        """names a block (re)binds, in order of first binding"""
        out = []
        for s in stmts:
            for n in ast.walk(s):
                nm = None
                if isinstance(n, ast.Assign):
                    for t in n.targets:
                        if not isinstance(t, ast.Name):
                            raise Untranslatable("assignment target %s" % _u(t)[:40])
                        if t.id not in out:
                            out.append(t.id)
                elif isinstance(n, (ast.AugAssign, ast.AnnAssign, ast.NamedExpr, ast.Delete, ast.With, ast.Try, ast.While, ast.Global, ast.Nonlocal)):
                    raise Untranslatable("statement %s" % type(n).__name__)
                elif isinstance(n, ast.Expr) and _is_call(n.value, "_uset", 4) and isinstance(n.value.args[0], ast.Name):
                    nm = n.value.args[0].id
                elif isinstance(n, ast.For):
                    for t in ast.walk(n.target):
                        if isinstance(t, ast.Name) and t.id not in out:
                            out.append(t.id)
                if nm is not None and nm not in out:
                    out.append(nm)
        return out

    def bind(self, name, value=None):
        self.bound.add(name)
        self.opt.discard(name)
        self.narrow.pop(name, None)
        self.ints.discard(name)
        if value is not None:
            if self.is_int(value) or (_is_call(value, "_uget", 3) and value.args[2].value == "memview"):
                self.ints.add(name)
            if _is_call(value, "_dict_getitem", 2):
                self.opt.add(name)

    def block(self, stmts, tail, pad, in_loop=False):
        """lines of the `do` block for `stmts`; `tail` (a list of lines, or None = must not fall off the end) ends it"""
        if not stmts:
            if tail is None:
                raise Untranslatable("the function can fall off its end")
            return [pad + l for l in tail]
        s, rest = stmts[0], stmts[1:]
        if isinstance(s, ast.Pass) or (isinstance(s, ast.Expr) and isinstance(s.value, ast.Constant)):
            return self.block(rest, tail, pad, in_loop)
        if isinstance(s, ast.Return):
            if in_loop or s.value is None:
                raise Untranslatable("return inside a loop / without a value")
            return [pad + "pure %s" % self.E(s.value)]
        if isinstance(s, ast.Raise):
            e = s.exc
            if not (isinstance(e, ast.Call) and isinstance(e.func, ast.Name) and e.func.id.isidentifier() and s.cause is None):
                raise Untranslatable("raise %s" % _u(s)[:50])
            return [pad + "throw (Fault.raises %s)" % lean_str(e.func.id)]
        if isinstance(s, ast.Assign) and len(s.targets) == 1 and isinstance(s.targets[0], ast.Name):
            name, v = s.targets[0].id, s.value
            if _is_call(v, "_arg", 3):
                if name not in self.params or _u(v.args[1]) != name:
                    raise Untranslatable("argument conversion %s" % _u(s)[:50])
                return self.block(rest, tail, pad, in_loop)       # typed-argument conversion: outside the model (clause 5)
            if name in self.params:
                raise Untranslatable("parameter %s is reassigned" % name)
            if _is_call(v, "_uget", 3):
                inner = self.E(v)
                line = "let %s ← %s" % (name, inner[3:-1])        # `(← uget a i)` -> `uget a i`
            else:
                ann = " : Int" if self.is_int(v) else ""
                line = "let %s%s := %s" % (name, ann, self.E(v))
            st = self.save()
            self.bind(name, v)
            try:
                return [pad + line] + self.block(rest, tail, pad, in_loop)
            finally:
                self.restore(st)
        if isinstance(s, ast.Expr) and _is_call(s.value, "_uset", 4) and isinstance(s.value.args[0], ast.Name) \
                and isinstance(s.value.args[3], ast.Constant) and not s.value.keywords:
            buf, idx, val, kind = s.value.args
            if buf.id not in self.bound or buf.id in self.params:
                raise Untranslatable("write through %s" % buf.id)
            if kind.value == "list" and self.is_int(idx):
                line = "let %s ← uset %s %s %s" % (buf.id, buf.id, self.E(idx), self.E(val))
            elif kind.value == "ndarray2" and isinstance(idx, ast.Tuple) and len(idx.elts) == 2 and all(self.is_int(x) for x in idx.elts):
                # Python evaluates the right-hand side before the subscript; the indexes are pure, so the order is immaterial
                line = "let %s ← uset2 %s %s %s %s" % (buf.id, buf.id, self.E(idx.elts[0]), self.E(idx.elts[1]), self.E(val))
            else:
                raise Untranslatable("write %s" % _u(s)[:50])
            return [pad + line] + self.block(rest, tail, pad, in_loop)
        if isinstance(s, ast.If):
            return self.if_(s, rest, tail, pad, in_loop)
        if isinstance(s, ast.For) and not s.orelse and isinstance(s.target, ast.Name):
            return self.for_(s, rest, tail, pad, in_loop)
        raise Untranslatable("statement %s: %s" % (type(s).__name__, _u(s)[:60]))

    def if_(self, s, rest, tail, pad, in_loop):
        t = s.test
        # narrowing of an Optional
        if isinstance(t, ast.Compare) and len(t.ops) == 1 and isinstance(t.left, ast.Name) and isinstance(t.ops[0], (ast.Is, ast.IsNot)) \
                and _u(t.comparators[0]) in ("_NULL", "None") and t.left.id in self.opt and t.left.id not in self.narrow:
            x = t.left.id
            some_b, none_b = (s.body, s.orelse) if isinstance(t.ops[0], ast.IsNot) else (s.orelse, s.body)
            st = self.save()
            self.narrow[x] = x + "_some"
            try:
                a = self.block(list(some_b) + rest, tail, pad + "  ", in_loop)
            finally:
                self.restore(st)
            b = self.block(list(none_b) + rest, tail, pad + "  ", in_loop)
            return [pad + "match %s with" % x, pad + "| some %s_some =>" % x] + a + [pad + "| none =>"] + b
        c = self.cond(t)
        if not self.effect_free(t):
            raise Untranslatable("test with a memory access: %s" % _u(t)[:50])
        # `if c: x = e` on a variable that already has a value
        if not s.orelse and len(s.body) == 1 and isinstance(s.body[0], ast.Assign) and len(s.body[0].targets) == 1 \
                and isinstance(s.body[0].targets[0], ast.Name) and s.body[0].targets[0].id in self.bound \
                and s.body[0].targets[0].id not in self.params and s.body[0].targets[0].id not in self.opt \
                and self.effect_free(s.body[0].value):
            name, v = s.body[0].targets[0].id, s.body[0].value
            ann = " : Int" if (self.is_int(v) and name in self.ints) else ""
            line = "let %s%s := (if %s then %s else %s)" % (name, ann, c, self.E(v), name)
            return [pad + line] + self.block(rest, tail, pad, in_loop)
        a = self.block(list(s.body) + rest, tail, pad + "  ", in_loop)
        b = self.block(list(s.orelse) + rest, tail, pad + "  ", in_loop)
        return [pad + "if %s then" % c] + a + [pad + "else"] + b

    def for_(self, s, rest, tail, pad, in_loop):
        v = s.target.id
        if v in self.bound and v in self.params:
            raise Untranslatable("loop variable %s shadows a parameter" % v)
        body = [b for b in s.body if not (isinstance(b, ast.Expr) and isinstance(b.value, ast.Constant))]
        if any(isinstance(x, (ast.Return, ast.Break, ast.Continue)) for b in body for x in ast.walk(b)):
            raise Untranslatable("return / break / continue inside a loop")
        state = [x for x in self.assigned(body) if x in self.bound and x != v]
        if any(x in self.params for x in state):
            raise Untranslatable("a loop rebinds the parameter %s" % [x for x in state if x in self.params][0])
        for b in body:
            for n in ast.walk(b):
                if isinstance(n, ast.Name) and n.id == v and isinstance(n.ctx, ast.Store) and n is not s.target:
                    raise Untranslatable("the loop variable %s is assigned in the loop" % v)
        if _is_call(s.iter, "range", 1) and not s.iter.keywords and self.is_int(s.iter.args[0]) and self.effect_free(s.iter.args[0]):
            head, is_opt, is_int = "forRange %s" % self.E(s.iter.args[0]), False, True
        elif isinstance(s.iter, ast.Name) and s.iter.id in self.optional_iter and s.iter.id in self.bound:
            head, is_opt, is_int = "forEach %s" % s.iter.id, True, False
        else:
            raise Untranslatable("loop over %s" % _u(s.iter)[:40])
        if len(state) == 0:
            pat, init, fin, lhs = "(_ : Unit)", "()", "pure ()", "_"
        elif len(state) == 1:
            pat = init = lhs = state[0]
            fin = "pure %s" % state[0]
        else:
            pat = init = lhs = "(" + ", ".join(state) + ")"
            fin = "pure " + pat
        st = self.save()
        self.bind(v)
        if is_int:
            self.ints.add(v)
        if is_opt:
            self.opt.add(v)
        try:
            inner = self.block(body, [fin], pad + "  ", True)
        finally:
            self.restore(st)
        inner[-1] += ")"
        lines = [pad + "let %s ← %s %s (fun %s %s => do" % (lhs, head, init, pat, v)] + inner
        return lines + self.block(rest, tail, pad, in_loop)


SIGS = {
    "collect_cython": (["rows", "columns", "limit"], (),
                       "def collect_cython (null : α) (rows : List (RowObj α)) (columns : List Int) (limit : Int) : K (List (List α)) := do",
                       "compiled.pyx `collect_cython` (`null` = what an unassigned cell of `np.empty(…, dtype=object)` holds)"),
    "extract_dict_columns": (["data", "fields"], (),
                             "def extract_dict_columns (null : α) (data : List (String × α)) (fields : List String) : K (List α) := do",
                             "compiled.pyx `extract_dict_columns` (`PyDict_GetItem` = `DictRow.lookup`, `NULL` = `none`, `None` = `null`)"),
    "calculate_data_width": (["column_values"], ("column_values",),
                             "def calculate_data_width (strLen : α → Nat) (column_values : List (Option α)) : K Int := do",
                             "compiled.pyx `calculate_data_width` (`PyBytes_GET_SIZE(PyObject_Str(v))` = `strLen v`, the length of `str(v)`; `none` = `None`)"),
}


def t_kernel(pyx, fname):
    params, opt_iter, sig, doc = SIGS[fname]
    py = shadow_source(pyx.text, fname)
    try:
        mod = ast.parse(py)
    except SyntaxError as e:
        raise Untranslatable("de-cythonised text does not parse: %s" % e)
    fn = mod.body[0]
    if not isinstance(fn, ast.FunctionDef) or [a.arg for a in fn.args.args] != params or fn.args.vararg or fn.args.kwarg or fn.args.kwonlyargs:
        raise Untranslatable("%s signature" % fname)
    if fname == "collect_cython":
        d = fn.args.defaults
        if len(d) != 1 or not (isinstance(d[0], ast.UnaryOp) and _u(d[0]) == "-1"):
            raise Untranslatable("default of limit")
    k = Kernel(params, opt_iter)
    if fname == "collect_cython":
        k.ints.add("limit")
    body = [b for b in fn.body if not (isinstance(b, ast.Expr) and isinstance(b.value, ast.Constant))]
    lines = k.block(body, None, "  ")
    return "/-- %s, statement by statement -/\n%s\n%s\n" % (doc, sig, "\n".join(lines))


SCOPE = r"""
def cmpRows : List (List (RowObj Nat)) := Id.run do
  let mut out : List (List (RowObj Nat)) := []
  for n in [0:4] do
    for w in [0:4] do
      let rows : List (RowObj Nat) := (List.range n).map fun j => ⟨true, (List.range w).map fun k => 10 * (j + 1) + k⟩
      out := rows :: out
      if n ≥ 2 ∧ w ≥ 1 then
        out := (rows.dropLast ++ [⟨true, (List.range (w - 1)).map fun k => 90 + k⟩]) :: out    -- a shorter last row
        out := (rows.dropLast ++ [⟨true, (List.range (w + 1)).map fun k => 80 + k⟩]) :: out    -- a wider last row
      if n ≥ 1 ∧ w ≥ 1 then
        out := (rows.map fun r => { r with isTuple := false }) :: out                            -- rows that are not tuples
  return out

def cmpVectors (w : Nat) : List (List Int) := Id.run do
  let alpha : List Int := (List.range (w + 2)).map fun (k : Nat) => (k : Int) - 1
  let mut out : List (List Int) := [[]]
  for a in alpha do
    out := [a] :: out
    for b in alpha do
      out := [a, b] :: out
      for c in alpha do
        out := [a, b, c] :: out
  for a in alpha do
    out := [0, a, 0, a] :: [a, 0, 0, 0, a] :: out
  return out

def cmpCollect : Option String := Id.run do
  for rows in cmpRows do
    let w := match rows with | [] => 0 | r :: _ => r.cells.length
    for cols in cmpVectors w do
      for l in (List.range (rows.length + 4)).map fun (k : Nat) => (k : Int) - 2 do
        if CmpFresh.collect_cython 0 rows cols l != CmpPinned.collect_cython 0 rows cols l then
          return some s!"collect_cython rows={repr rows} columns={cols} limit={l}"
  return none

def cmpExtract : Option String := Id.run do
  let dicts : List (List (String × Nat)) := [[], [("a", 1)], [("b", 2), ("a", 1)], [("a", 1), ("b", 2), ("c", 3)], [("zz", 9)]]
  let names : List String := ["a", "b", "zz"]
  let mut vecs : List (List String) := [[]]
  for a in names do
    vecs := [a] :: vecs
    for b in names do
      vecs := [a, b] :: vecs
      for c in names do
        vecs := [a, b, c] :: [a, b, c, a] :: vecs
  for d in dicts do
    for f in vecs do
      if CmpFresh.extract_dict_columns 0 d f != CmpPinned.extract_dict_columns 0 d f then
        return some s!"extract_dict_columns data={repr d} fields={f}"
  return none

def cmpWidth : Option String := Id.run do
  let vals : List (Option Nat) := [none, some 0, some 3, some 4, some 5, some 9]
  let mut vecs : List (List (Option Nat)) := [[]]
  for a in vals do
    vecs := [a] :: vecs
    for b in vals do
      vecs := [a, b] :: vecs
      for c in vals do
        vecs := [a, b, c] :: [a, b, c, a] :: vecs
  for v in vecs do
    if CmpFresh.calculate_data_width (fun (n : Nat) => n) v != CmpPinned.calculate_data_width (fun (n : Nat) => n) v then
      return some s!"calculate_data_width values={repr v}"
  return none
"""

CMP_FN = {"collect_cython": "cmpCollect", "extract_dict_columns": "cmpExtract", "calculate_data_width": "cmpWidth"}


def agree_on_scope(fresh, pinned):
    """Run the fresh and the pinned translations side by side (Lean's evaluator) over a small exhaustive scope.
    Returns {key: None (agree) | "<first differing input>" | "unknown: …"} for the keys whose text differs."""
    import subprocess
    import tempfile

    keys = [k for k in SIGS if fresh[k] != pinned.get(k) and k in pinned]
    out = {}
    if not keys:
        return out

    def ns(name, texts):
        return "namespace %s\nvariable {α : Type}\n%s\nend %s\n" % (name, "\n".join(texts[k] for k in SIGS), name)

    text = "import OrsoVerif.Model.KernelSem\nset_option linter.unusedVariables false\nopen Kernels KernelSem\n"
    text += ns("CmpFresh", {k: (fresh[k] if k in keys else pinned[k]) for k in SIGS}) + ns("CmpPinned", pinned) + SCOPE
    for k in keys:
        text += '#eval IO.println ("CMP %s " ++ (match %s with | none => "AGREE" | some w => "DIFF " ++ w))\n' % (k, CMP_FN[k])
    lake = os.path.join(core.LEAN, ".lake")
    os.makedirs(lake, exist_ok=True)
    with tempfile.NamedTemporaryFile("w", suffix=".lean", dir=lake, delete=False) as f:
        f.write(text)
        tmp = f.name
    try:
        p = subprocess.run(["lake", "env", "lean", tmp], cwd=core.LEAN, capture_output=True, text=True, timeout=600)
        res = p.stdout
    except Exception as e:
        res = "failed: %s" % e
    finally:
        os.unlink(tmp)
    for k in keys:
        m = re.search(r"^CMP %s (AGREE|DIFF (.*))$" % k, res, re.M)
        if not m:
            out[k] = "unknown: the side-by-side run gave no verdict"
        elif m.group(1) == "AGREE":
            out[k] = None
        else:
            out[k] = m.group(2)[:300]
    return out


def _pinned():
    try:
        return json.load(open(PINNED_FILE))
    except Exception:
        return {}


def generate(o):
    pyx = Src("orso/compute/compiled.pyx")
    pinned = _pinned()
    fresh = {}
    for key in SIGS:
        fresh[key] = o.item("c10.fn." + key, (lambda key=key: t_kernel(pyx, key)), pinned.get(key, "-- %s: not translated\n" % key))
    if os.environ.get("ORSO_VERIF_WRITE_PINNED") == "c10_fns":
        os.makedirs(os.path.dirname(PINNED_FILE), exist_ok=True)
        json.dump(fresh, open(PINNED_FILE, "w"), indent=1, sort_keys=True)
        pinned = dict(fresh)
    # A source that was re-shaped translates to a different text, and the equivalence proofs in Props/C10.lean are written
    # against the shape of the tree as it is.  The new translation is run side by side with the pinned one (Lean's
    # evaluator, small exhaustive scope, faults included): when they agree everywhere the re-shaping is taken as
    # behaviour preserving -- the pinned text is kept and the item reported as degraded (never an alarm); when they
    # differ the new text is used, so the equivalence theorem names itself, and the differing input is reported.
    verdicts = agree_on_scope(fresh, pinned) if all(k in pinned for k in SIGS) else {}
    o.json["c10.fn.side_by_side"] = {k: ("agree" if v is None else v) for k, v in verdicts.items()}
    for k, v in verdicts.items():
        if v is None:
            o.degraded.append("c10.fn.%s (re-shaped source: its translation agrees with the pinned one on the whole comparison scope; pinned text kept)" % k)
            fresh[k] = pinned[k]
        elif not v.startswith("unknown"):
            o.degraded.append("c10.fn.%s (the translation of the source differs from the pinned one on: %s)" % (k, v))
    header = HEADER + "import OrsoVerif.Model.KernelSem\n"
    header += ("/-! `collect_cython`, `extract_dict_columns` and `calculate_data_width` of orso/compute/compiled.pyx, de-cythonised by\n"
               "harness/pyxshadow.py and translated statement by statement (harness/extractors/c10_fns.py). -/\n")
    header += "set_option linter.unusedVariables false\nopen Kernels KernelSem\nnamespace Gen.KernelFns\nvariable {α : Type}\n\n"
    text, bad = pystmt.compile_checked(header, [(k, fresh[k]) for k in SIGS], "\nend Gen.KernelFns\n", pinned, core.LEAN, "KernelFns")
    for k in bad:
        o.degraded.append("c10.fn.%s (the translation does not elaborate in Lean; pinned text used)" % k)
    o.files["KernelFns.lean"] = text
